#!/bin/bash
# Confirms a seeded patch that was ported to the current /repo HEAD: fresh scratch worktree of HEAD,
# demo without the patch (must pass), patch applied, pinned suite, demo with the patch (must fail).
# usage: confirm_ported.sh <name>
set -u
NAME=$1; D=/verif/seeded/$NAME; WT=/tmp/cfp_$NAME
git -C /repo worktree add -q --detach $WT HEAD || exit 2
bash $D/demo/run.sh $WT >/tmp/cfp_$NAME.log 2>&1; A=$?
git -C $WT checkout -q -- . ; git -C $WT clean -fdq -e sim/target
git -C $WT apply $D/patch.diff || { echo "patch does not apply"; exit 2; }
/verif/baseline.sh $WT 2>&1 | grep -E "Summary|FAIL"
bash $D/demo/run.sh $WT >>/tmp/cfp_$NAME.log 2>&1; B=$?
echo "RESULT without=$A with=$B"
git -C /repo worktree remove --force $WT; git -C /repo worktree prune
