//! The two-endpoint TCP system used by C01, C03, C12 and C17: two real `Tcb`s (side B starts in
//! LISTEN and is created by the real `segment_arrives_listen`), a network of two multisets of real
//! `Segment`s, application scripts and timers. Output reaches the network only through
//! `Tcb::segments()`, input only through `segment_arrives*` - the seam `TcpSession` uses.

use elvis_core::{
    protocols::{
        ipv4::Ipv4Address,
        tcp::verif::{
            segment_arrives_closed, segment_arrives_listen, AdvanceTimeResult, CloseResult,
            ListenResult, Segment, SegmentArrivesResult, State, Tcb, TcpHeader, VerifSnapshot,
        },
        Endpoint, Endpoints,
    },
    Message,
};
use std::{fmt::Write as _, time::Duration};
use vkit::{catch, Violation};

pub const ADDR_A: Ipv4Address = Ipv4Address::new([10, 0, 0, 1]);
pub const ADDR_B: Ipv4Address = Ipv4Address::new([10, 0, 0, 2]);
pub const PORT_A: u16 = 5000;
pub const PORT_B: u16 = 80;

pub const A: usize = 0;
pub const B: usize = 1;

pub fn ends(side: usize) -> Endpoints {
    let a = Endpoint::new(ADDR_A, PORT_A);
    let b = Endpoint::new(ADDR_B, PORT_B);
    if side == A {
        Endpoints::new(a, b)
    } else {
        Endpoints::new(b, a)
    }
}

/// The byte an application on `side` writes at stream position `pos` (position-unique within 251).
pub fn stream_byte(side: usize, pos: usize) -> u8 {
    ((pos % 251) as u8).wrapping_add(if side == A { 1 } else { 101 })
}

#[derive(Debug, Clone)]
pub struct Cfg {
    pub mtu: u16,
    pub iss: [u32; 2],
    /// Sizes of the successive writes each side may issue
    pub writes: [Vec<usize>; 2],
    pub drops: u8,
    pub dups: u8,
    /// RTO expiries (advance_time(101 ms)) per side
    pub ticks: [u8; 2],
    /// 5 ms quanta (advance_time(5 ms)) per side
    pub steps: [u8; 2],
    /// `segments()` is called right after every call on a TCB (what `TcpSession` does per loop)
    pub auto_flush: bool,
    /// `receive()` is called right after every call on a TCB
    pub auto_read: bool,
    /// Any in-flight segment may be delivered next (false: oldest first per direction)
    pub reorder: bool,
    /// Close(side) is in the alphabet
    pub closes: [bool; 2],
    /// B performs an active open too (simultaneous open) instead of listening
    pub open_b: bool,
    /// An old duplicate SYN from an earlier incarnation of A may be injected towards B
    pub old_syn: Option<u32>,
    /// TIME-WAIT expiry action (advance_time(2*MSL + 1 ms))
    pub time_wait_expiry: bool,
}

impl Cfg {
    pub fn basic(mtu: u16, iss_a: u32, iss_b: u32) -> Self {
        Self {
            mtu,
            iss: [iss_a, iss_b],
            writes: [vec![], vec![]],
            drops: 0,
            dups: 0,
            ticks: [0, 0],
            steps: [0, 0],
            auto_flush: true,
            auto_read: true,
            reorder: true,
            closes: [false, false],
            open_b: false,
            old_syn: None,
            time_wait_expiry: false,
        }
    }
}

#[derive(Debug, Clone, PartialEq, Eq)]
pub enum Life {
    /// No TCB yet, passive open pending (side B only)
    Listen,
    Open,
    /// The TCB was released; `how` says through which result
    Released(&'static str),
}

#[derive(Clone)]
pub struct NetSeg {
    pub seg: Segment,
    /// The sequence number is absolute (RST built for a non-ACK segment in CLOSED: seq = 0)
    pub abs_seq: bool,
}

#[derive(Clone)]
pub struct Side {
    pub life: Life,
    pub tcb: Option<Tcb>,
    pub written: Vec<u8>,
    pub read: Vec<u8>,
    pub writes_done: u8,
    pub ticks_done: u8,
    pub steps_done: u8,
    pub close_called: bool,
    /// Bytes written before Close was called
    pub written_at_close: Option<usize>,
    /// Status seen when the peer's FIN was first observed as consumed, and whether (c) was checked
    pub fin_seen: bool,
    pub rst_emitted: bool,
    /// The TCB came from LISTEN (a reset in SYN-RECEIVED returns it to LISTEN)
    pub passive: bool,
    /// An RST segment has at some point been put in flight towards this side
    pub rst_incoming: bool,
    /// `close()` returned Ok
    pub close_ok: bool,
    /// Bytes accepted by `send` that were still unsegmentized when `close()` returned Ok
    pub unseg_at_close: usize,
    /// How often a passively opened endpoint was reset back to LISTEN. Every incarnation
    /// chooses a fresh initial sequence number (as a real stack does) and starts a new stream.
    pub incarnation: u8,
    /// What earlier incarnations of this (passively opened, reset) side had written, by their
    /// initial sequence number: a peer synchronised with one of them is owed that stream.
    pub old_streams: Vec<(u32, Vec<u8>)>,
    /// IRS of the connection this side had when its TCB was released
    pub last_irs: Option<u32>,
}

impl Side {
    fn new(life: Life) -> Self {
        Self {
            tcb: None,
            written: vec![],
            read: vec![],
            writes_done: 0,
            ticks_done: 0,
            steps_done: 0,
            close_called: false,
            written_at_close: None,
            fin_seen: false,
            rst_emitted: false,
            passive: matches!(life, Life::Listen),
            rst_incoming: false,
            close_ok: false,
            unseg_at_close: 0,
            incarnation: 0,
            old_streams: vec![],
            last_irs: None,
            life,
        }
    }
    pub fn snap(&self) -> Option<VerifSnapshot> {
        self.tcb.as_ref().map(|t| t.verif_snapshot())
    }
    pub fn status(&self) -> Option<State> {
        self.tcb.as_ref().map(|t| t.status())
    }
}

#[derive(Clone)]
pub struct Sys {
    pub side: [Side; 2],
    /// net[d]: segments in flight towards side d
    pub net: [Vec<NetSeg>; 2],
    pub drops_done: u8,
    pub dups_done: u8,
    pub old_syn_done: bool,
}

#[derive(Debug, Clone, PartialEq, Eq)]
pub enum Act {
    Write(usize),
    Read(usize),
    Flush(usize),
    Deliver(usize, usize),
    Drop(usize, usize),
    Dup(usize, usize),
    Tick(usize),
    Step(usize),
    Close(usize),
    TimeWaitExpiry(usize),
    OldSyn,
}

pub fn seg_sort_key(s: &NetSeg) -> (u32, u8, u32, u16, Vec<u8>, bool) {
    (
        s.seg.header.seq,
        u8::from(s.seg.header.ctl),
        s.seg.header.ack,
        s.seg.header.wnd,
        s.seg.text.to_vec(),
        s.abs_seq,
    )
}

pub fn render_seg(s: &Segment) -> String {
    let c = s.header.ctl;
    let mut f = String::new();
    for (b, n) in [
        (c.syn(), 'S'),
        (c.ack(), 'A'),
        (c.fin(), 'F'),
        (c.rst(), 'R'),
        (c.psh(), 'P'),
        (c.urg(), 'U'),
    ] {
        if b {
            f.push(n);
        }
    }
    format!(
        "[{} seq={} ack={} wnd={} len={}]",
        if f.is_empty() { "-" } else { &f },
        s.header.seq,
        s.header.ack,
        s.header.wnd,
        s.text.len()
    )
}

/// What one real call did, for the oracles.
#[derive(Debug, Clone, Default)]
pub struct CallInfo {
    pub side: usize,
    pub entry: &'static str,
    pub before: Option<State>,
    pub after: Option<State>,
    pub released: bool,
    pub emitted: Vec<(u32, usize, bool)>, // (seq, text len, first transmission?) filled by flush
}

impl Sys {
    pub fn new(cfg: &Cfg) -> Self {
        let mut sys = Sys {
            side: [Side::new(Life::Open), Side::new(Life::Listen)],
            net: [vec![], vec![]],
            drops_done: 0,
            dups_done: 0,
            old_syn_done: false,
        };
        sys.side[A].tcb = Some(Tcb::open(ends(A), cfg.iss[A], cfg.mtu));
        if cfg.open_b {
            sys.side[B].life = Life::Open;
            sys.side[B].tcb = Some(Tcb::open(ends(B), cfg.iss[B], cfg.mtu));
        }
        if cfg.auto_flush {
            sys.flush(A);
            if cfg.open_b {
                sys.flush(B);
            }
        }
        sys
    }

    pub fn actions(&self, cfg: &Cfg) -> Vec<Act> {
        let mut v = vec![];
        for s in [A, B] {
            let side = &self.side[s];
            if let Some(tcb) = &side.tcb {
                let st = tcb.status();
                let can_write = matches!(
                    st,
                    State::SynSent | State::SynReceived | State::Established
                ) && !side.close_called;
                if can_write && (side.writes_done as usize) < cfg.writes[s].len() {
                    v.push(Act::Write(s));
                }
                if !cfg.auto_read && tcb.verif_snapshot().incoming_text > 0 {
                    v.push(Act::Read(s));
                }
                if !cfg.auto_flush {
                    v.push(Act::Flush(s));
                }
                if side.ticks_done < cfg.ticks[s] {
                    v.push(Act::Tick(s));
                }
                if side.steps_done < cfg.steps[s] {
                    v.push(Act::Step(s));
                }
                if cfg.closes[s] && !side.close_called {
                    v.push(Act::Close(s));
                }
                if cfg.time_wait_expiry && st == State::TimeWait {
                    v.push(Act::TimeWaitExpiry(s));
                }
            }
        }
        for d in [A, B] {
            let n = self.net[d].len();
            let upto = if cfg.reorder { n } else { n.min(1) };
            let mut seen: Vec<(u32, u8, u32, u16, Vec<u8>, bool)> = vec![];
            for i in 0..n {
                // identical in-flight segments give identical successors: offer the first only
                let k = seg_sort_key(&self.net[d][i]);
                if seen.contains(&k) {
                    continue;
                }
                seen.push(k);
                if i < upto {
                    v.push(Act::Deliver(d, i));
                }
                if self.drops_done < cfg.drops {
                    v.push(Act::Drop(d, i));
                }
                if self.dups_done < cfg.dups {
                    v.push(Act::Dup(d, i));
                }
            }
        }
        if let Some(_) = cfg.old_syn {
            if !self.old_syn_done {
                v.push(Act::OldSyn);
            }
        }
        v
    }

    /// `segments()` on one side; output goes to the network towards the peer.
    pub fn flush(&mut self, s: usize) -> Vec<Segment> {
        let Some(tcb) = self.side[s].tcb.as_mut() else {
            return vec![];
        };
        entering("Tcb::segments");
        let out = tcb.segments();
        for seg in &out {
            if seg.header.ctl.rst() {
                self.side[s].rst_emitted = true;
                self.side[1 - s].rst_incoming = true;
            }
            self.net[1 - s].push(NetSeg {
                seg: seg.clone(),
                abs_seq: false,
            });
        }
        out
    }

    pub fn read(&mut self, s: usize) -> usize {
        let Some(tcb) = self.side[s].tcb.as_mut() else {
            return 0;
        };
        entering("Tcb::receive");
        let m = tcb.receive();
        let n = m.len();
        self.side[s].read.extend(m.iter());
        n
    }

    fn release(&mut self, s: usize, how: &'static str) {
        if let Some(sn) = self.side[s].snap() {
            if sn.state != State::SynSent {
                self.side[s].last_irs = Some(sn.irs);
            }
        }
        self.side[s].tcb = None;
        self.side[s].life = Life::Released(how);
    }

    /// Hands one segment to side `s` (LISTEN, CLOSED or a live TCB), as `Tcp::demux` would.
    pub fn deliver_to(&mut self, cfg: &Cfg, s: usize, seg: Segment) -> CallInfo {
        let tr = trace_on();
        let rendered = if tr { render_seg(&seg) } else { String::new() };
        let info = self.deliver_to_inner(cfg, s, seg);
        if tr {
            eprintln!(
                "    deliver to {} {} : {:?} -> {:?}{}   | {}",
                if s == A { "A" } else { "B" },
                rendered,
                info.before,
                info.after,
                if info.released { " RELEASED" } else { "" },
                self.describe()
            );
        }
        info
    }

    fn deliver_to_inner(&mut self, cfg: &Cfg, s: usize, seg: Segment) -> CallInfo {
        let mut info = CallInfo {
            side: s,
            entry: "segment_arrives",
            before: self.side[s].status(),
            ..Default::default()
        };
        let (local, remote) = if s == A {
            (ADDR_A, ADDR_B)
        } else {
            (ADDR_B, ADDR_A)
        };
        match self.side[s].life.clone() {
            Life::Open => {
                let tcb = self.side[s].tcb.as_mut().unwrap();
                entering("Tcb::segment_arrives");
                match tcb.segment_arrives(seg) {
                    SegmentArrivesResult::Ok => {}
                    SegmentArrivesResult::Close => {
                        // the session stops without another segments() call
                        info.released = true;
                        let old_iss = self.side[s].snap().map(|x| x.iss);
                        self.release(s, "segment_arrives");
                        if self.side[s].passive && info.before == Some(State::SynReceived) {
                            // RFC 9293 figure 5, note 1: a reset in SYN-RECEIVED returns a
                            // passively opened endpoint to LISTEN
                            self.side[s].life = Life::Listen;
                            self.side[s].close_called = false;
                            self.side[s].close_ok = false;
                            // a new incarnation: what the reset connection had written is
                            // legitimately gone and is not owed to anybody
                            self.side[s].incarnation += 1;
                            if let Some(iss) = old_iss {
                                let w = self.side[s].written.clone();
                                self.side[s].old_streams.push((iss, w));
                            }
                            self.side[s].written.clear();
                            self.side[s].written_at_close = None;
                            self.side[s].unseg_at_close = 0;
                            self.side[s].fin_seen = false;
                        }
                    }
                }
            }
            Life::Listen => {
                info.entry = "segment_arrives_listen";
                entering("segment_arrives_listen");
                let iss = cfg.iss[s].wrapping_add(0x1000 * self.side[s].incarnation as u32);
                match segment_arrives_listen(seg, local, remote, iss, cfg.mtu) {
                    Some(ListenResult::Tcb(tcb)) => {
                        self.side[s].tcb = Some(tcb);
                        self.side[s].life = Life::Open;
                    }
                    Some(ListenResult::Response(h)) => {
                        if h.ctl.rst() {
                            self.side[s].rst_emitted = true;
                            self.side[1 - s].rst_incoming = true;
                        }
                        self.net[1 - s].push(NetSeg {
                            seg: Segment::new(h, Message::default()),
                            abs_seq: false,
                        });
                    }
                    None => {}
                }
            }
            Life::Released(_) => {
                info.entry = "segment_arrives_closed";
                entering("segment_arrives_closed");
                let had_ack = seg.header.ctl.ack();
                if let Some(h) =
                    segment_arrives_closed(seg.header, seg.text.len() as u32, local, remote)
                {
                    // a CLOSED endpoint answering a stray segment with RST is not a connection
                    // being reset: only the in-flight flag is set
                    self.side[1 - s].rst_incoming = true;
                    self.net[1 - s].push(NetSeg {
                        seg: Segment::new(h, Message::default()),
                        abs_seq: !had_ack,
                    });
                }
            }
        }
        info.after = self.side[s].status();
        info
    }

    /// Executes one action on the real objects. Returns what the real calls did.
    pub fn apply(&mut self, cfg: &Cfg, a: &Act) -> Vec<CallInfo> {
        let mut infos = vec![];
        let mut touched: Option<usize> = None;
        match *a {
            Act::Write(s) => {
                let size = cfg.writes[s][self.side[s].writes_done as usize];
                let start = self.side[s].written.len();
                let bytes: Vec<u8> = (start..start + size).map(|p| stream_byte(s, p)).collect();
                self.side[s].written.extend(&bytes);
                self.side[s].writes_done += 1;
                let before = self.side[s].status();
                entering("Tcb::send");
                self.side[s].tcb.as_mut().unwrap().send(Message::new(bytes));
                infos.push(CallInfo {
                    side: s,
                    entry: "send",
                    before,
                    after: self.side[s].status(),
                    ..Default::default()
                });
                touched = Some(s);
            }
            Act::Read(s) => {
                self.read(s);
            }
            Act::Flush(s) => {
                self.flush(s);
            }
            Act::Deliver(d, i) => {
                let ns = self.net[d].remove(i);
                infos.push(self.deliver_to(cfg, d, ns.seg));
                touched = Some(d);
            }
            Act::Drop(d, i) => {
                self.net[d].remove(i);
                self.drops_done += 1;
            }
            Act::Dup(d, i) => {
                let c = self.net[d][i].clone();
                self.net[d].push(c);
                self.dups_done += 1;
            }
            Act::Tick(s) | Act::Step(s) | Act::TimeWaitExpiry(s) => {
                let dt = match a {
                    Act::Tick(_) => {
                        self.side[s].ticks_done += 1;
                        Duration::from_millis(101)
                    }
                    Act::Step(_) => {
                        self.side[s].steps_done += 1;
                        Duration::from_millis(5)
                    }
                    _ => Duration::from_millis(2001),
                };
                let before = self.side[s].status();
                entering("Tcb::advance_time");
                let r = self.side[s].tcb.as_mut().unwrap().advance_time(dt);
                let mut info = CallInfo {
                    side: s,
                    entry: "advance_time",
                    before,
                    ..Default::default()
                };
                if r == AdvanceTimeResult::CloseConnection {
                    info.released = true;
                    self.release(s, "advance_time");
                }
                info.after = self.side[s].status();
                infos.push(info);
                touched = Some(s);
            }
            Act::Close(s) => {
                let before = self.side[s].status();
                entering("Tcb::close");
                let r = self.side[s].tcb.as_mut().unwrap().close();
                if r == CloseResult::Ok {
                    // a refused close (e.g. in SYN-SENT) is reported to the caller as an error
                    // and leaves the application free to go on
                    self.side[s].close_called = true;
                    self.side[s].written_at_close = Some(self.side[s].written.len());
                    self.side[s].unseg_at_close =
                        self.side[s].snap().map(|x| x.unsegmentized).unwrap_or(0);
                }
                let mut info = CallInfo {
                    side: s,
                    entry: "close",
                    before,
                    ..Default::default()
                };
                if r == CloseResult::Ok {
                    self.side[s].close_ok = true;
                }
                if r == CloseResult::CloseConnection {
                    info.released = true;
                    self.release(s, "close");
                }
                info.after = self.side[s].status();
                infos.push(info);
                touched = Some(s);
            }
            Act::OldSyn => {
                self.old_syn_done = true;
                let iss = cfg.old_syn.unwrap();
                let h = elvis_core::protocols::tcp::verif::TcpHeaderBuilder::new(PORT_A, PORT_B, iss)
                    .syn()
                    .wnd(u16::MAX)
                    .build(ADDR_A, ADDR_B, [].into_iter(), 0)
                    .unwrap();
                self.net[B].push(NetSeg {
                    seg: Segment::new(h, Message::default()),
                    abs_seq: false,
                });
            }
        }
        if let Some(s) = touched {
            if cfg.auto_flush {
                self.flush(s);
            }
            if cfg.auto_read {
                self.read(s);
            }
        }
        infos
    }

    /// Canonical rendering of the full state (nothing the code can observe is dropped).
    pub fn canon(&self) -> String {
        let mut out = String::with_capacity(1024);
        for s in [A, B] {
            let side = &self.side[s];
            let _ = write!(
                out,
                "|{:?} {:?} w{}o{:?} r{:?} wd{} t{} s{} c{}{} f{} rst{}{}",
                side.life,
                side.tcb,
                side.written.len(),
                (side.old_streams.iter().map(|o| o.1.len()).collect::<Vec<_>>(), side.last_irs),
                side.read,
                side.writes_done,
                side.ticks_done,
                side.steps_done,
                side.close_called,
                side.close_ok,
                side.fin_seen,
                side.rst_emitted,
                side.rst_incoming,
            );
            let _ = write!(out, "u{}", side.unseg_at_close);
        }
        for d in [A, B] {
            let mut v: Vec<_> = self.net[d].iter().map(seg_sort_key).collect();
            v.sort();
            let _ = write!(out, "|{:?}", v);
        }
        let _ = write!(
            out,
            "|{} {} {} {} {}",
            self.drops_done, self.dups_done, self.old_syn_done, self.side[A].incarnation, self.side[B].incarnation
        );
        out
    }

    pub fn describe(&self) -> String {
        let mut out = String::new();
        for s in [A, B] {
            let side = &self.side[s];
            let name = if s == A { "A" } else { "B" };
            match side.snap() {
                Some(sn) => {
                    let _ = write!(
                        out,
                        "{}:{:?} una={} nxt={} rnxt={} txt={} rtx={} rd={}/{} ",
                        name,
                        sn.state,
                        sn.snd_una.wrapping_sub(sn.iss),
                        sn.snd_nxt.wrapping_sub(sn.iss),
                        sn.rcv_nxt.wrapping_sub(sn.irs),
                        sn.unsegmentized,
                        sn.retransmit_len,
                        side.read.len(),
                        self.owed(s).len()
                    );
                }
                None => {
                    let _ = write!(out, "{}:{:?} ", name, side.life);
                }
            }
        }
        for d in [A, B] {
            let _ = write!(
                out,
                "{}[{}] ",
                if d == A { "->A" } else { "->B" },
                self.net[d]
                    .iter()
                    .map(|n| render_seg(&n.seg))
                    .collect::<Vec<_>>()
                    .join("")
            );
        }
        out
    }

    /// The byte stream side `s` is owed: what the incarnation of its peer that it is (or was
    /// last) synchronised with has written. Incarnations are told apart by their ISN = `s`'s IRS.
    pub fn owed(&self, s: usize) -> &Vec<u8> {
        let w = 1 - s;
        let irs = match self.side[s].snap() {
            Some(sn) if sn.state != State::SynSent => Some(sn.irs),
            Some(_) => None,
            None => self.side[s].last_irs,
        };
        if let Some(irs) = irs {
            if let Some((_, st)) = self.side[w].old_streams.iter().find(|(i, _)| *i == irs) {
                return st;
            }
        }
        &self.side[w].written
    }

    /// (O1) bytes read on each side are a prefix of the bytes written on the other.
    pub fn prefix_violation(&self) -> Option<Violation> {
        for s in [A, B] {
            let r = &self.side[s].read;
            let w = self.owed(s);
            if r.len() > w.len() || r[..] != w[..r.len()] {
                let kind = classify_stream(r, w);
                return Some(Violation::new(
                    "stream-prefix",
                    "Tcb::receive",
                    kind,
                    format!(
                        "side {} read {:?} but peer wrote {:?}",
                        if s == A { "A" } else { "B" },
                        trunc(r),
                        trunc(w)
                    ),
                ));
            }
        }
        None
    }

    /// The fair continuation: no more faults, no more application writes; flush, deliver
    /// everything oldest first, read; when nothing moves let both retransmission timers expire.
    /// Returns the number of RTO rounds used, or what is still wrong after `max_rto` of them.
    pub fn converge(&mut self, cfg: &Cfg, max_rto: usize) -> Result<usize, (String, String)> {
        let mut rto = 0;
        let mut guard = 0;
        loop {
            guard += 1;
            if guard > 10_000 {
                return Err(("no-quiescence".into(), "continuation did not go quiet".into()));
            }
            let mut moved = false;
            for s in [A, B] {
                if !self.flush(s).is_empty() {
                    moved = true;
                }
            }
            for d in [A, B] {
                while !self.net[d].is_empty() {
                    let ns = self.net[d].remove(0);
                    self.deliver_to(cfg, d, ns.seg);
                    self.flush(d);
                    self.read(d);
                    moved = true;
                    guard += 1;
                    if guard > 10_000 {
                        return Err((
                            "no-quiescence".into(),
                            "continuation keeps exchanging segments".into(),
                        ));
                    }
                }
            }
            for s in [A, B] {
                if self.read(s) > 0 {
                    moved = true;
                }
            }
            if moved {
                continue;
            }
            if self.settled() {
                return Ok(rto);
            }
            if rto >= max_rto {
                return Err(self.unsettled_reason());
            }
            rto += 1;
            for s in [A, B] {
                if let Some(t) = self.side[s].tcb.as_mut() {
                    entering("Tcb::advance_time");
                    if t.advance_time(Duration::from_millis(101))
                        == AdvanceTimeResult::CloseConnection
                    {
                        self.release(s, "advance_time");
                    }
                }
            }
        }
    }

    /// Everything written has been read, everything sent is acknowledged, nothing is queued.
    pub fn settled(&self) -> bool {
        for s in [A, B] {
            if &self.side[s].read != self.owed(s) {
                return false;
            }
            match self.side[s].snap() {
                Some(sn) => {
                    if sn.snd_una != sn.snd_nxt
                        || sn.retransmit_len != 0
                        || sn.unsegmentized != 0
                        || sn.incoming_segments != 0
                    {
                        return false;
                    }
                }
                None => {
                    if self.side[s].life != Life::Listen {
                        return false;
                    }
                    // still listening: fine only if the peer has nothing to say
                }
            }
        }
        true
    }

    /// Like [`settled`] but a released TCB counts as quiet.
    pub fn settled_or_released(&self) -> bool {
        for s in [A, B] {
            if let Some(sn) = self.side[s].snap() {
                if sn.snd_una != sn.snd_nxt
                    || sn.retransmit_len != 0
                    || sn.unsegmentized != 0
                    || sn.incoming_segments != 0
                {
                    return false;
                }
            }
        }
        true
    }

    fn unsettled_reason(&self) -> (String, String) {
        for s in [A, B] {
            let r = &self.side[s].read;
            let w = self.owed(s);
            if r != w {
                let kind = if matches!(self.side[s].life, Life::Released(_))
                    || matches!(self.side[1 - s].life, Life::Released(_))
                {
                    "bytes-undelivered-tcb-released"
                } else if r.len() < w.len() && r[..] == w[..r.len()] {
                    "bytes-undelivered"
                } else {
                    "stream-corrupt"
                };
                return (
                    kind.into(),
                    format!(
                        "side {} read {} of {} bytes; {}",
                        if s == A { "A" } else { "B" },
                        r.len(),
                        w.len(),
                        self.describe()
                    ),
                );
            }
        }
        for s in [A, B] {
            match self.side[s].snap() {
                Some(sn) => {
                    if sn.snd_una != sn.snd_nxt || sn.retransmit_len != 0 {
                        return ("unacknowledged-data".into(), self.describe());
                    }
                    if sn.unsegmentized != 0 {
                        return ("unsegmentized-text".into(), self.describe());
                    }
                    if sn.incoming_segments != 0 {
                        return ("stuck-out-of-order-queue".into(), self.describe());
                    }
                }
                None => return ("tcb-released".into(), self.describe()),
            }
        }
        ("unknown".into(), self.describe())
    }

    /// After convergence: two further RTOs must produce no segment at all.
    pub fn silent_after(&mut self) -> Result<(), String> {
        for _ in 0..2 {
            for s in [A, B] {
                if let Some(t) = self.side[s].tcb.as_mut() {
                    entering("Tcb::advance_time");
                    let _ = t.advance_time(Duration::from_millis(101));
                }
                let out = self.flush(s);
                if !out.is_empty() {
                    return Err(format!(
                        "side {} still transmits {} after convergence",
                        if s == A { "A" } else { "B" },
                        out.iter().map(render_seg).collect::<String>()
                    ));
                }
            }
        }
        Ok(())
    }
}

pub fn trunc(v: &[u8]) -> String {
    if v.len() <= 24 {
        format!("{v:?}")
    } else {
        format!("{:?}..(+{})", &v[..24], v.len() - 24)
    }
}

/// Names the way a stream differs from what was written.
pub fn classify_stream(read: &[u8], written: &[u8]) -> &'static str {
    if read.len() > written.len() {
        let mut sorted_r = read.to_vec();
        sorted_r.sort();
        sorted_r.dedup();
        if sorted_r.len() < read.len() {
            return "bytes-duplicated";
        }
        return "more-bytes-than-written";
    }
    let mut r = read.to_vec();
    r.sort();
    let mut dedup = r.clone();
    dedup.dedup();
    if dedup.len() < r.len() && written.len() <= 251 {
        return "bytes-duplicated";
    }
    let mut w = written[..read.len()].to_vec();
    w.sort();
    if r == w {
        return "bytes-reordered";
    }
    "bytes-skipped-or-foreign"
}

pub fn trace_on() -> bool {
    std::env::var_os("VERIF_TRACE").is_some()
}

thread_local! {
    static ENTRY: std::cell::Cell<&'static str> = const { std::cell::Cell::new("") };
}
/// Declares which real entry point is about to be called (names the panic signature).
pub fn entering(e: &'static str) {
    ENTRY.with(|c| c.set(e));
}

/// Runs a closure, catching panics of the real code; the signature names the panic location and
/// the real entry point that was executing.
pub fn guarded<R>(f: impl FnOnce() -> R) -> Result<R, Violation> {
    catch(f).map_err(|p| Violation::panic(ENTRY.with(|c| c.get()), &p))
}

pub fn header_of(seg: &Segment) -> TcpHeader {
    seg.header
}
