//! C12 - TCP behaviour is independent of absolute sequence numbers (mod 2^32).

use crate::tcpmodel::*;
use elvis_core::{
    protocols::tcp::verif::{
        mod_bounded, mod_geq, mod_gt, mod_leq, mod_lt, ModCmp, Segment, TcpHeaderBuilder,
    },
    Message,
};
use serde_json::json;
use std::{collections::BinaryHeap, fmt::Write as _, time::Duration};
use vkit::{
    enumerate::{self, CaseOutcome, Product},
    key128,
    search::{self, Limits, Model},
    Report, Violation,
};

/// Everything observable about a system with sequence fields made relative to the ISNs.
pub fn view(sys: &Sys, cfg: &Cfg) -> String {
    let mut out = String::new();
    for s in [A, B] {
        let side = &sys.side[s];
        let _ = write!(out, "|{:?} rd{:?} w{}", side.life, side.read, side.written.len());
        if let Some(sn) = side.snap() {
            let synced = !matches!(
                sn.state,
                elvis_core::protocols::tcp::verif::State::SynSent
                    | elvis_core::protocols::tcp::verif::State::SynReceived
            );
            let _ = write!(
                out,
                " {:?} iss+{} una+{} nxt+{} wnd{} wl1+{} wl2+{} irsrel{} rnxt+{} rwnd{} un{} rt{}/{} os{} is{} it{} tw{:?} rto{:?}",
                sn.state,
                sn.iss.wrapping_sub(cfg.iss[s]),
                sn.snd_una.wrapping_sub(sn.iss),
                sn.snd_nxt.wrapping_sub(sn.iss),
                sn.snd_wnd,
                // wl1 is a peer sequence number, wl2 one of ours. Before the connection is
                // synchronised they hold defaults or the (absent) ack field of a bare SYN, which
                // are not sequence numbers; they are first *used* in synchronised states, where
                // they have always been set from an ACK-bearing segment.
                if synced { sn.snd_wl1.wrapping_sub(cfg.iss[1 - s]) } else { 0 },
                if synced { sn.snd_wl2.wrapping_sub(sn.iss) } else { 0 },
                if sn.irs == 0 && sn.rcv_nxt == 0 {
                    u32::MAX
                } else {
                    sn.irs.wrapping_sub(cfg.iss[1 - s])
                },
                sn.rcv_nxt.wrapping_sub(sn.irs),
                sn.rcv_wnd,
                sn.unsegmentized,
                sn.retransmit_len,
                sn.retransmit_bytes,
                sn.oneshot_len,
                sn.incoming_segments,
                sn.incoming_text,
                sn.time_wait,
                sn.retransmission_timer,
            );
        }
    }
    for d in [A, B] {
        let sender = 1 - d;
        let _ = write!(out, "|net{d}:");
        for ns in &sys.net[d] {
            let h = &ns.seg.header;
            let seq = if ns.abs_seq {
                h.seq
            } else {
                h.seq.wrapping_sub(cfg.iss[sender])
            };
            let ack = if h.ctl.ack() {
                h.ack.wrapping_sub(cfg.iss[d])
            } else {
                h.ack
            };
            let _ = write!(
                out,
                "[{:02x} s{} a{} w{} u{} {:?}]",
                u8::from(h.ctl),
                seq,
                ack,
                h.wnd,
                h.urg,
                ns.seg.text.to_vec()
            );
        }
    }
    out
}

pub struct Pair {
    pub cfg0: Cfg,
    pub cfg1: Cfg,
    pub name: String,
}

#[derive(Clone)]
pub struct PState {
    pub p0: Sys,
    pub p1: Sys,
}

impl Pair {
    fn compare(&self, st: &PState, what: &str) -> Result<(), Violation> {
        let v0 = view(&st.p0, &self.cfg0);
        let v1 = view(&st.p1, &self.cfg1);
        if v0 != v1 {
            // name the first differing token
            let t0: Vec<&str> = v0.split(|c| c == ' ' || c == '|' || c == '[').collect();
            let t1: Vec<&str> = v1.split(|c| c == ' ' || c == '|' || c == '[').collect();
            let mut diff = "length".to_string();
            for (a, b) in t0.iter().zip(t1.iter()) {
                if a != b {
                    diff = format!("{a} vs {b}");
                    break;
                }
            }
            let field: String = diff
                .chars()
                .take_while(|c| c.is_alphabetic() || *c == '+')
                .collect();
            return Err(Violation::new(
                "isn-independence",
                what,
                &format!("differs-in-{}", if field.is_empty() { "value" } else { &field }),
                format!(
                    "ISNs {:?} vs {:?}: first difference {diff}\n  P0 {}\n  P1 {}",
                    self.cfg0.iss,
                    self.cfg1.iss,
                    st.p0.describe(),
                    st.p1.describe()
                ),
            ));
        }
        Ok(())
    }
}

impl Model for Pair {
    type State = PState;
    type Action = Act;
    fn name(&self) -> String {
        self.name.clone()
    }
    fn init(&self) -> Vec<PState> {
        vec![PState {
            p0: Sys::new(&self.cfg0),
            p1: Sys::new(&self.cfg1),
        }]
    }
    fn actions(&self, s: &PState) -> Vec<Act> {
        s.p0.actions(&self.cfg0)
    }
    fn step(&self, s: &PState, a: &Act) -> Result<PState, Violation> {
        let acts1 = s.p1.actions(&self.cfg1);
        if !acts1.contains(a) || acts1 != s.p0.actions(&self.cfg0) {
            return Err(Violation::new(
                "isn-independence",
                "enabled-actions",
                "enabled-actions-differ",
                format!(
                    "ISNs {:?} vs {:?}: {a:?} enabled in one system only",
                    self.cfg0.iss, self.cfg1.iss
                ),
            ));
        }
        let mut n = s.clone();
        guarded(|| {
            n.p0.apply(&self.cfg0, a);
        })
        .map_err(|mut v| {
            v.detail = format!("P0 (ISNs {:?}): {}", self.cfg0.iss, v.detail);
            v
        })?;
        guarded(|| {
            n.p1.apply(&self.cfg1, a);
        })
        .map_err(|mut v| {
            v.detail = format!("P1 (ISNs {:?}): {}", self.cfg1.iss, v.detail);
            v
        })?;
        self.compare(&n, "after-action")?;
        Ok(n)
    }
    fn key(&self, s: &PState) -> u128 {
        key128(&(s.p0.canon(), s.p1.canon()))
    }
    fn describe(&self, s: &PState) -> String {
        format!("P0 {} || P1 {}", s.p0.describe(), s.p1.describe())
    }
}

fn base_cfg() -> Cfg {
    let mut c = Cfg::basic(100, 100, 300);
    c.writes = [vec![3], vec![2]];
    c.drops = 1;
    c.dups = 1;
    c.ticks = [1, 1];
    c
}

fn isn_values() -> Vec<u32> {
    let mut v = vec![];
    for k in -3i64..=8 {
        v.push(((1u64 << 32) as i64 - k) as u32);
        v.push(((1u64 << 31) as i64 - k) as u32);
    }
    v
}

pub fn pairs(tier: &str) -> Vec<(u32, u32)> {
    let vals = isn_values();
    let mut out = vec![];
    if tier == "quick" {
        // one pass over the 24 values on each side (wrap and sign boundary on SYN, first data
        // byte, inside a segment) - 24 of the 576 pairs
        for (i, &a) in vals.iter().enumerate() {
            out.push((a, vals[(i * 7 + 5) % vals.len()]));
        }
        out.truncate(12);
    } else {
        for &a in &vals {
            for &b in &vals {
                out.push((a, b));
            }
        }
    }
    out
}

fn circ_lt(a: u32, b: u32) -> bool {
    // mathematical circular order for numbers less than 2^31 apart: a precedes b
    let d = b.wrapping_sub(a);
    d != 0 && d < (1 << 31)
}

fn boundary_values() -> Vec<u32> {
    let mut v = vec![];
    for base in [0u64, 1 << 16, 1 << 31, 1 << 32] {
        for k in -8i64..=7 {
            v.push((base as i64 + k) as u32);
        }
    }
    v
}

fn offsets() -> Vec<u32> {
    let mut v: Vec<u32> = (0..=1024).collect();
    v.extend(((1u32 << 31) - 1024)..(1u32 << 31));
    v
}

pub fn run(report: &mut Report, tier: &str) {
    report.assume("circular order is only defined for numbers less than 2^31 apart; the primitives are judged on that domain only");
    // --- lock-step bisimulation ---------------------------------------------------------------
    let lim = Limits {
        max_wall: Duration::from_secs(if tier == "quick" { 60 } else { 1200 }),
        ..Default::default()
    };
    let mut fix = true;
    let ps = pairs(tier);
    // in the thorough tier the 576 models are folded into the report but only summarised
    let mut agg_states = 0u64;
    for (i, (ia, ib)) in ps.iter().enumerate() {
        let cfg0 = base_cfg();
        let mut cfg1 = base_cfg();
        cfg1.iss = [*ia, *ib];
        let m = Pair {
            cfg0,
            cfg1,
            name: format!("lock-step T1 vs ISNs ({ia},{ib})"),
        };
        if tier == "quick" || i < 4 {
            let st = search::run_into(&m, &lim, report);
            fix &= st.fixpoint;
            agg_states += st.states;
        } else {
            let st = search::bfs(&m, &lim);
            fix &= st.fixpoint;
            agg_states += st.states;
            report.add_count("states", st.states);
            report.add_count("transitions", st.transitions);
            report.add_count("traces_validated_against_impl", st.transitions);
            for f in &st.found {
                report.violation(f.violation.clone(), search::witness_json(&m, &f.path));
            }
        }
    }
    report.part(json!({"part": "lock-step pairs", "pairs": ps.len(), "states_total": agg_states,
        "isn_pairs": ps.iter().take(24).collect::<Vec<_>>() }));

    // --- primitives (E3) ----------------------------------------------------------------------
    let bv = boundary_values();
    let off = offsets();
    let p = Product::new(&[bv.len(), off.len()]);
    let (bv2, off2) = (bv.clone(), off.clone());
    enumerate::run_into(
        report,
        "mod comparisons vs circular order",
        "a in 64 boundary values x d in 0..=1024 and 2^31-1024..2^31; distinct = (a,d) pairs with d>0",
        p.total(),
        move |i| {
            let ix = p.decode(i);
            let a = bv[ix[0]];
            let d = off[ix[1]];
            let b = a.wrapping_add(d);
            let mut vs = vec![];
            let mut chk = |name: &str, got: bool, want: bool, form: &str| {
                if got != want {
                    vs.push(Violation::new(
                        "circular-order",
                        name,
                        form,
                        format!("{name}: a={a} d={d} b=a+d={b}: got {got}, circular order says {want}"),
                    ));
                }
            };
            let near = if d >= (1 << 31) - 1024 { "d-near-2^31" } else { "small-d" };
            let f = |s: &str| format!("{s}-{near}");
            chk("mod_lt", mod_lt(a, b), circ_lt(a, b), &f("forward"));
            chk("mod_lt", mod_lt(b, a), circ_lt(b, a), &f("backward"));
            chk("mod_gt", mod_gt(b, a), circ_lt(a, b), &f("forward"));
            chk("mod_gt", mod_gt(a, b), circ_lt(b, a), &f("backward"));
            chk("mod_leq", mod_leq(a, b), a == b || circ_lt(a, b), &f("forward"));
            chk("mod_leq", mod_leq(b, a), a == b || circ_lt(b, a), &f("backward"));
            chk("mod_geq", mod_geq(b, a), a == b || circ_lt(a, b), &f("forward"));
            chk("mod_geq", mod_geq(a, b), a == b || circ_lt(b, a), &f("backward"));
            // mutual consistency
            chk(
                "consistency",
                mod_leq(a, b),
                mod_lt(a, b) || a == b,
                &f("leq-is-lt-or-eq"),
            );
            chk("consistency", mod_gt(a, b), mod_lt(b, a), &f("gt-is-flipped-lt"));
            chk(
                "consistency",
                mod_geq(a, b),
                mod_gt(a, b) || a == b,
                &f("geq-is-gt-or-eq"),
            );
            CaseOutcome {
                nontrivial: if d > 0 { Some(((a as u64) << 32) | d as u64) } else { None },
                violations: vs,
            }
        },
        move |i| {
            let ix = Product::new(&[bv2.len(), off2.len()]).decode(i);
            json!({"a": bv2[ix[0]], "d": off2[ix[1]]})
        },
    );

    // mod_bounded over triples a, a+x, a+y with x, y < 2^31
    let xs: Vec<u32> = {
        let mut v: Vec<u32> = (0..=12).collect();
        v.extend([100, 65535, 65536, (1 << 30), (1 << 31) - 3, (1 << 31) - 2, (1 << 31) - 1]);
        v
    };
    let abase: Vec<u32> = boundary_values().into_iter().step_by(2).collect();
    let p3 = Product::new(&[abase.len(), xs.len(), xs.len(), 4]);
    let (ab2, xs2) = (abase.clone(), xs.clone());
    enumerate::run_into(
        report,
        "mod_bounded vs circular order",
        "a in 32 boundary values x (x,y) offsets below 2^31 x the four Lt/Leq combinations; distinct = triples",
        p3.total(),
        move |i| {
            let ix = p3.decode(i);
            let a = abase[ix[0]];
            let (x, y) = (xs[ix[1]], xs[ix[2]]);
            let (b, c) = (a.wrapping_add(x), a.wrapping_add(y));
            let (c1, c2) = match ix[3] {
                0 => (ModCmp::Lt, ModCmp::Lt),
                1 => (ModCmp::Leq, ModCmp::Lt),
                2 => (ModCmp::Lt, ModCmp::Leq),
                _ => (ModCmp::Leq, ModCmp::Leq),
            };
            let want = (if c1 == ModCmp::Lt { x > 0 } else { true })
                && (if c2 == ModCmp::Lt { x < y } else { x <= y });
            let got = mod_bounded(a, c1, b, c2, c);
            let mut vs = vec![];
            if got != want {
                vs.push(Violation::new(
                    "circular-order",
                    "mod_bounded",
                    &format!("{c1:?}-{c2:?}"),
                    format!("a={a} b=a+{x} c=a+{y} {c1:?}/{c2:?}: got {got}, want {want}"),
                ));
            }
            // consistency with the binary primitives (only where those are in their domain)
            let l1 = if c1 == ModCmp::Lt { mod_lt(a, b) } else { mod_leq(a, b) };
            let l2 = if c2 == ModCmp::Lt { mod_lt(b, c) } else { mod_leq(b, c) };
            let in_domain = x < (1 << 31) - 1 && y.wrapping_sub(x) < (1 << 31) - 1 || x > y;
            if in_domain && x <= y && got != (l1 && l2) {
                vs.push(Violation::new(
                    "circular-order",
                    "consistency",
                    "bounded-is-conjunction",
                    format!("a={a} b=a+{x} c=a+{y} {c1:?}/{c2:?}: bounded {got} but conjunction {}", l1 && l2),
                ));
            }
            CaseOutcome {
                nontrivial: Some(i),
                violations: vs,
            }
        },
        move |i| {
            let ix = Product::new(&[ab2.len(), xs2.len(), xs2.len(), 4]).decode(i);
            json!({"a": ab2[ix[0]], "x": xs2[ix[1]], "y": xs2[ix[2]], "cmp": ix[3]})
        },
    );

    // heap order of queued segments: every permutation of 4 segments straddling a boundary
    let bases = [u32::MAX - 1, (1u32 << 31) - 2, 5, u32::MAX - 200];
    let perms: Vec<Vec<usize>> = {
        let mut out = vec![];
        let mut p = [0usize, 1, 2, 3];
        fn heap(k: usize, p: &mut [usize; 4], out: &mut Vec<Vec<usize>>) {
            if k == 1 {
                out.push(p.to_vec());
                return;
            }
            for i in 0..k {
                heap(k - 1, p, out);
                if k % 2 == 0 {
                    p.swap(i, k - 1);
                } else {
                    p.swap(0, k - 1);
                }
            }
        }
        heap(4, &mut p, &mut out);
        out
    };
    let gaps: Vec<[u32; 3]> = vec![[1, 1, 1], [1, 2, 3], [3, 1, 100], [100, 1000, 1]];
    let ph = Product::new(&[bases.len(), gaps.len(), perms.len()]);
    let perms2 = perms.clone();
    enumerate::run_into(
        report,
        "Segment heap order across the wrap",
        "4 bases x 4 gap patterns x all 24 insertion orders of four segments; pop order must be circularly ascending",
        ph.total(),
        move |i| {
            let ix = ph.decode(i);
            let base = bases[ix[0]];
            let g = gaps[ix[1]];
            let seqs = [
                base,
                base.wrapping_add(g[0]),
                base.wrapping_add(g[0] + g[1]),
                base.wrapping_add(g[0] + g[1] + g[2]),
            ];
            let mut h = BinaryHeap::new();
            for &k in &perms[ix[2]] {
                let hd = TcpHeaderBuilder::new(1, 2, seqs[k])
                    .build(ADDR_A, ADDR_B, [].into_iter(), 0)
                    .unwrap();
                h.push(Segment::new(hd, Message::default()));
            }
            let mut popped = vec![];
            while let Some(s) = h.pop() {
                popped.push(s.header.seq);
            }
            let mut vs = vec![];
            if popped != seqs {
                vs.push(Violation::new(
                    "circular-order",
                    "Segment::cmp",
                    "heap-pop-order",
                    format!("pushed {:?} in order {:?}, popped {:?}", seqs, perms[ix[2]], popped),
                ));
            }
            CaseOutcome {
                nontrivial: Some(i),
                violations: vs,
            }
        },
        move |i| json!({"index": i, "perm": perms2[(i % 24) as usize]}),
    );

    report.set("exhaustive", json!(fix));
    report.set("rule", json!("lock-step product of the C01-T1 system with ISNs (100,300) and a shifted copy: every action is applied to both, the ISN-relative views must be identical after every action; plus full products for the comparison primitives"));
}

pub fn replay(w: &serde_json::Value, tier: &str) -> String {
    if let Some(name) = w["model"].as_str() {
        for t in ["quick", "thorough", tier] {
            for (ia, ib) in pairs(t) {
                let n = format!("lock-step T1 vs ISNs ({ia},{ib})");
                if n == name {
                    let mut cfg1 = base_cfg();
                    cfg1.iss = [ia, ib];
                    let m = Pair {
                        cfg0: base_cfg(),
                        cfg1,
                        name: n,
                    };
                    let path: Vec<u32> = w["path"]
                        .as_array()
                        .unwrap()
                        .iter()
                        .map(|x| x.as_u64().unwrap() as u32)
                        .collect();
                    return search::replay(&m, &path).0.join("\n");
                }
            }
        }
        return format!("unknown model {name}");
    }
    format!(
        "E3 case {} of part {}: {}",
        w["index"], w["part"], w["case"]
    )
}
