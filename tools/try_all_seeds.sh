#!/bin/bash
# Applies every seeded patch to /repo in turn, runs the quick check of its property, reverts.
# Writes one line per seed to /verif/seeded/REGRESSION.txt: seed, property, exit status, first signature.
set -u
OUT=/verif/seeded/REGRESSION.txt
echo "# $(date -u +%FT%TZ) /repo $(git -C /repo rev-parse --short HEAD) /verif $(git -C /verif rev-parse --short HEAD)" > $OUT
for d in /verif/seeded/C*/; do
  name=$(basename $d); prop=${name:0:3}
  [ -f $d/patch.diff ] || continue
  if [ -n "$(git -C /repo status --porcelain -- sim)" ]; then echo "/repo dirty, stopping" >> $OUT; exit 2; fi
  if ! git -C /repo apply $d/patch.diff 2>/dev/null; then echo "$name $prop PATCH-DOES-NOT-APPLY" >> $OUT; continue; fi
  res=$(cd /verif && timeout 1800 ./check $prop --tier quick 2>&1 | grep -E "^(VIOLATION|OK|MACHINERY)" | head -1 | sed -E 's/replay=[^ ]+ //; s/ detail=.*//' | cut -c1-220)
  git -C /repo checkout -- .
  echo "$name $prop $res" >> $OUT
done
echo "# done" >> $OUT
