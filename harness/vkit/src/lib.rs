//! vkit: the three exploration engines and the shared reporting code.
//!
//! * [`search`]    E1, explicit-state breadth-first search over real objects
//! * [`sched`]     E2, deviation-bounded schedule search over the real tokio stack
//! * [`enumerate`] E3, bounded-exhaustive input enumeration
//! * [`report`]    violations, signatures, known findings, evidence, replay files

pub mod enumerate;
pub mod loomrun;
pub mod report;
pub mod sched;
pub mod search;

pub use report::{Outcome, Report, Violation};

use std::hash::{Hash, Hasher};

/// 128-bit key from anything hashable (two independent SipHash-1-3 runs with fixed keys).
pub fn key128<T: Hash + ?Sized>(t: &T) -> u128 {
    #[allow(deprecated)]
    let mut a = std::hash::SipHasher::new_with_keys(0x0123_4567_89ab_cdef, 0xfedc_ba98_7654_3210);
    #[allow(deprecated)]
    let mut b = std::hash::SipHasher::new_with_keys(0x5555_aaaa_5555_aaaa, 0x1357_9bdf_0246_8ace);
    t.hash(&mut a);
    t.hash(&mut b);
    ((a.finish() as u128) << 64) | b.finish() as u128
}

/// Runs `f`, converting a panic into `Err((message, location))`. The location is recorded by the
/// process-wide panic hook installed by [`install_panic_hook`] into a thread-local.
pub fn catch<R>(f: impl FnOnce() -> R) -> Result<R, PanicInfo> {
    LAST_PANIC.with(|p| *p.borrow_mut() = None);
    match std::panic::catch_unwind(std::panic::AssertUnwindSafe(f)) {
        Ok(r) => Ok(r),
        Err(payload) => {
            let msg = if let Some(s) = payload.downcast_ref::<&str>() {
                s.to_string()
            } else if let Some(s) = payload.downcast_ref::<String>() {
                s.clone()
            } else {
                "<non-string panic>".to_string()
            };
            let loc = LAST_PANIC
                .with(|p| p.borrow_mut().take())
                .map(|p| p.location)
                .unwrap_or_else(|| "<unknown>".into());
            Err(PanicInfo {
                message: msg,
                location: loc,
            })
        }
    }
}

#[derive(Debug, Clone, PartialEq, Eq, Hash)]
pub struct PanicInfo {
    pub message: String,
    pub location: String,
}

thread_local! {
    static LAST_PANIC: std::cell::RefCell<Option<PanicInfo>> = const { std::cell::RefCell::new(None) };
    static ALL_PANICS: std::cell::RefCell<Vec<PanicInfo>> = const { std::cell::RefCell::new(Vec::new()) };
}

/// Takes all panics recorded on this thread since the last call (tokio catches task panics, so a
/// harness has to ask for them).
pub fn take_panics() -> Vec<PanicInfo> {
    ALL_PANICS.with(|p| std::mem::take(&mut *p.borrow_mut()))
}

/// Installs a quiet process-wide panic hook that records message and location per thread.
/// Locations are made relative to the repository so signatures are stable.
pub fn install_panic_hook() {
    std::panic::set_hook(Box::new(|info| {
        let loc = info
            .location()
            .map(|l| site_of(l.file(), l.line()))
            .unwrap_or_else(|| "<unknown>".into());
        let msg = if let Some(s) = info.payload().downcast_ref::<&str>() {
            s.to_string()
        } else if let Some(s) = info.payload().downcast_ref::<String>() {
            s.clone()
        } else {
            "<non-string panic>".to_string()
        };
        let pi = PanicInfo {
            message: msg,
            location: loc,
        };
        LAST_PANIC.with(|p| *p.borrow_mut() = Some(pi.clone()));
        ALL_PANICS.with(|p| p.borrow_mut().push(pi));
        if std::env::var_os("VERIF_SHOW_PANICS").is_some() {
            eprintln!("panic: {info}");
        }
    }));
}

/// A panic site that survives unrelated edits of the file: repository-relative path plus the
/// text of the source line (line numbers shift when code is added above).
fn site_of(file: &str, line: u32) -> String {
    use std::sync::{Mutex, OnceLock};
    static CACHE: OnceLock<Mutex<std::collections::HashMap<String, Vec<String>>>> = OnceLock::new();
    let rel = {
        let f = file.strip_prefix("/repo/").unwrap_or(file);
        match f.find("repo/sim/") {
            Some(i) => f[i + 5..].to_string(),
            None => f.to_string(),
        }
    };
    let cache = CACHE.get_or_init(|| Mutex::new(Default::default()));
    let text = {
        let mut g = match cache.lock() {
            Ok(g) => g,
            Err(p) => p.into_inner(),
        };
        let lines = g.entry(file.to_string()).or_insert_with(|| {
            std::fs::read_to_string(file)
                .map(|t| t.lines().map(|l| l.trim().to_string()).collect())
                .unwrap_or_default()
        });
        lines.get(line.saturating_sub(1) as usize).cloned()
    };
    match text {
        Some(t) if !t.is_empty() => {
            let t: String = t.chars().take(70).collect();
            format!("{rel} `{t}`")
        }
        _ => format!("{rel}:{line}"),
    }
}

static SAVED_STDOUT: std::sync::atomic::AtomicI32 = std::sync::atomic::AtomicI32::new(-1);

/// The repository prints progress lines with `println!` (e.g. "Waking up and shutting down");
/// during exploration that would be millions of lines. Redirects fd 1 to /dev/null and keeps the
/// original for the verdict lines (see [`out`]).
pub fn quiet_stdout() {
    use std::os::fd::AsRawFd;
    unsafe {
        let saved = libc::dup(1);
        if saved < 0 {
            return;
        }
        if let Ok(f) = std::fs::OpenOptions::new().write(true).open("/dev/null") {
            libc::dup2(f.as_raw_fd(), 1);
            SAVED_STDOUT.store(saved, std::sync::atomic::Ordering::SeqCst);
        }
    }
}

/// Writes a line to the real standard output.
pub fn out(line: &str) {
    let fd = SAVED_STDOUT.load(std::sync::atomic::Ordering::SeqCst);
    if fd < 0 {
        println!("{line}");
    } else {
        let mut s = line.to_string();
        s.push('\n');
        unsafe {
            let b = s.as_bytes();
            let mut off = 0;
            while off < b.len() {
                let n = libc::write(fd, b[off..].as_ptr() as *const libc::c_void, b.len() - off);
                if n <= 0 {
                    break;
                }
                off += n as usize;
            }
        }
    }
}

pub fn threads() -> usize {
    std::env::var("VERIF_THREADS")
        .ok()
        .and_then(|s| s.parse().ok())
        .unwrap_or_else(|| {
            std::thread::available_parallelism()
                .map(|n| n.get())
                .unwrap_or(4)
        })
}

/// Resident set size in MiB (Linux).
pub fn rss_mib() -> u64 {
    std::fs::read_to_string("/proc/self/statm")
        .ok()
        .and_then(|s| s.split_whitespace().nth(1).and_then(|x| x.parse::<u64>().ok()))
        .map(|pages| pages * 4096 / (1024 * 1024))
        .unwrap_or(0)
}
