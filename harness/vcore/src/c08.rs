//! C08 - Header codecs round-trip and match the RFC wire formats bit for bit.
//!
//! E3 (bounded-exhaustive enumeration). One part per codec and direction:
//!
//! * `*.build` / `*.serialize` / `*.value`: full Cartesian product of boundary alphabets of
//!   FIELD VALUES -> real encoder -> (IPv4/UDP/TCP: byte comparison with etherparse 0.10) ->
//!   real decoder on the real encoding and on the reference encoding -> field comparison ->
//!   real re-encoding must reproduce the bytes.
//! * `*.bytes`: full product of boundary alphabets of WIRE BYTES -> real decoder; for every
//!   accepted string the re-encoding of the decoded value must reproduce the consumed bytes.
//!
//! The default build compiles checksumming out (every encoder writes 0 and every decoder compares
//! the received checksum with 0), so the reference encodings carry a zero checksum and checksum
//! bytes are masked in encoder comparisons; C18 owns checksum values.

use elvis_core::protocols::{
    arp::arp_parsing::{ArpPacket, Operation},
    dhcp::dhcp_parsing::{DhcpMessage, MessageType},
    dns::dns_parsing::{DnsHeader, DnsMessage, DnsQuestion, DnsResourceRecord},
    ipv4::{
        ipv4_parsing::{
            verif_build_header, ControlFlags, Delay, Ipv4Header, Precedence, Reliability,
            Throughput, TypeOfService,
        },
        Ipv4Address,
    },
    tcp::verif::{Control, TcpHeader, TcpHeaderBuilder},
    udp::verif::{build_udp_header, UdpHeader},
    VerifChecksum,
};
use serde_json::{json, Value};
use std::ops::Range;
use vkit::{
    enumerate::{self, CaseOutcome, Product},
    key128, Report, Violation,
};

// ---------------------------------------------------------------------------------------------
// small helpers

/// Runs real Elvis code; a panic becomes a `no-panic` violation naming the real entry point.
fn real<R>(entry: &str, f: impl FnOnce() -> R) -> Result<R, Violation> {
    vkit::catch(f).map_err(|p| Violation::panic(entry, &p))
}

pub struct Trace {
    on: bool,
    lines: Vec<String>,
}

impl Trace {
    fn new(on: bool) -> Self {
        Self { on, lines: vec![] }
    }
    fn say(&mut self, f: impl FnOnce() -> String) {
        if self.on {
            self.lines.push(f());
        }
    }
}

fn hex(b: &[u8]) -> String {
    let mut s = String::new();
    for x in b.iter().take(72) {
        s.push_str(&format!("{x:02x}"));
    }
    if b.len() > 72 {
        s.push_str(&format!("..(+{} bytes)", b.len() - 72));
    }
    s
}

fn addr(a: u32) -> Ipv4Address {
    Ipv4Address::new(a.to_be_bytes())
}

type Layout = &'static [(&'static str, Range<usize>)];

/// Name of the first field in which two encodings differ (`length` when the sizes differ).
fn diff_field(layout: Layout, a: &[u8], b: &[u8]) -> Option<&'static str> {
    if a.len() != b.len() {
        return Some("length");
    }
    for (name, r) in layout {
        if r.end <= a.len() && a[r.clone()] != b[r.clone()] {
            return Some(name);
        }
    }
    if a != b {
        return Some("trailing-bytes");
    }
    None
}

fn masked(b: &[u8], r: Range<usize>) -> Vec<u8> {
    let mut v = b.to_vec();
    for i in r {
        if i < v.len() {
            v[i] = 0;
        }
    }
    v
}

fn key<T: std::hash::Hash>(tag: &str, t: &T) -> Option<u64> {
    Some(key128(&(tag, t)) as u64)
}

fn outcome(k: Option<u64>, v: Vec<Violation>) -> CaseOutcome {
    CaseOutcome {
        nontrivial: k,
        violations: v,
    }
}

/// Payload stand-in: the codecs only look at payload bytes to checksum them (compiled out).
fn payload(n: usize) -> impl Iterator<Item = u8> {
    std::iter::repeat(0x5a).take(n)
}

// ---------------------------------------------------------------------------------------------
// alphabets

pub struct Alpha {
    addrs: Vec<u32>,
    // ipv4
    ip_payload: Vec<u16>,
    ip_total: Vec<u16>,
    ip_id: Vec<u16>,
    ip_off: Vec<u16>,
    ip_ttl: Vec<u8>,
    ip_proto: Vec<u8>,
    ip_tos_bytes: Vec<u8>,
    ipb_b0: Vec<u8>,
    ipb_tos: Vec<u8>,
    ipb_total: Vec<u16>,
    ipb_fo: Vec<u16>,
    // udp
    udp_ports: Vec<u16>,
    udp_len: Vec<usize>,
    udp_addrs: Vec<u32>,
    // tcp
    tcp_ports: Vec<u16>,
    tcp_seq: Vec<u32>,
    tcp_ack: Vec<u32>,
    tcp_urg: Vec<u16>,
    tcp_wnd: Vec<u16>,
    tcp_len: Vec<usize>,
    tcp_addrs: Vec<u32>,
    tcpb_b12: Vec<u8>,
    // arp
    macs: Vec<u64>,
    // dns / dhcp
    names: Vec<Vec<u8>>,
    rdlens: Vec<u16>,
    strings: Vec<String>,
}

fn cyc(n: usize, from: u8, to: u8, skip: u8) -> Vec<u8> {
    let mut v = Vec::with_capacity(n);
    let mut c = from;
    while v.len() < n {
        if c != skip {
            v.push(c);
        }
        c = if c == to { from } else { c + 1 };
    }
    v
}

pub fn alpha(tier: &str) -> Alpha {
    let q = tier != "thorough";
    let pick = |quick: &[u64], thorough: &[u64]| -> Vec<u64> {
        if q {
            quick.to_vec()
        } else {
            thorough.to_vec()
        }
    };
    let u8s = |v: Vec<u64>| v.into_iter().map(|x| x as u8).collect::<Vec<u8>>();
    let u16s = |v: Vec<u64>| v.into_iter().map(|x| x as u16).collect::<Vec<u16>>();
    let u32s = |v: Vec<u64>| v.into_iter().map(|x| x as u32).collect::<Vec<u32>>();
    let usz = |v: Vec<u64>| v.into_iter().map(|x| x as usize).collect::<Vec<usize>>();

    // DNS names: any bytes but the delimiter b' ' (0x20); lengths 0, 1, 63, 255 and a few more
    let mut names: Vec<Vec<u8>> = vec![
        vec![],
        b"a".to_vec(),
        b"google.com".to_vec(),
        cyc(63, 0x21, 0x7e, b' '),
        cyc(255, 0x21, 0x7e, b' '),
        vec![0x00],
        vec![0x1f, 0x21],
        vec![0xff; 3],
    ];
    if !q {
        // every single-byte name over the full byte alphabet without the delimiter
        for b in 0u16..=255 {
            let b = b as u8;
            if b != b' ' && b != b'a' && b != 0 {
                names.push(vec![b]);
            }
        }
        names.push(cyc(255, 0x00, 0xff, b' '));
        names.push(cyc(64, 0x80, 0xff, b' '));
    }
    // DHCP strings: any UTF-8 without NUL
    let mut strings: Vec<String> = vec![
        String::new(),
        "a".into(),
        "Null".into(),
        "\u{e9}t\u{e9}".into(),
        "x".repeat(255),
    ];
    if !q {
        strings.extend([
            "\u{1}".to_string(),
            "\u{65e5}\u{672c}".to_string(),
            "\u{10ffff}".to_string(),
            "a b\tc\n".to_string(),
            "BootFile".repeat(40),
        ]);
    }
    Alpha {
        addrs: u32s(pick(
            &[0, 0x0102_0304, 0xffff_ffff],
            &[0, 0x0102_0304, 0x7f00_0001, 0x8000_0000, 0xffff_ffff],
        )),
        ip_payload: u16s(pick(&[0, 1, 65515], &[0, 1, 7, 8, 1480, 65514, 65515])),
        ip_total: u16s(pick(
            &[20, 21, 1500, 65535],
            &[20, 21, 28, 576, 1500, 65534, 65535],
        )),
        ip_id: u16s(pick(&[0, 1, 0xffff], &[0, 1, 0x00ff, 0x0100, 0x8000, 0xffff])),
        ip_off: u16s(pick(
            &[0, 1, 0x1fff],
            &[0, 1, 0x00ff, 0x0100, 0x1000, 0x1ffe, 0x1fff],
        )),
        ip_ttl: u8s(pick(&[0, 1, 255], &[0, 1, 30, 64, 128, 255])),
        ip_proto: u8s(pick(&[0, 6, 17, 255], &[0, 1, 6, 17, 254, 255])),
        ip_tos_bytes: if q {
            vec![0x00, 0x04, 0x08, 0x10, 0x20, 0xe0, 0xfc]
        } else {
            (0u8..64).map(|x| x << 2).collect()
        },
        ipb_b0: u8s(pick(
            &[0x45, 0x46, 0x44, 0x55, 0x35],
            &[0x45, 0x46, 0x4f, 0x44, 0x40, 0x55, 0x65, 0x05, 0xf5],
        )),
        ipb_tos: if q {
            vec![0x00, 0x04, 0xfc, 0x01, 0x02, 0x03, 0xff]
        } else {
            (0u16..256).map(|x| x as u8).collect()
        },
        ipb_total: u16s(pick(
            &[0, 19, 20, 21, 0x0100, 0xffff],
            &[0, 1, 19, 20, 21, 0x0100, 0xffff],
        )),
        ipb_fo: u16s(pick(
            &[0x0000, 0x0001, 0x1fff, 0x2000, 0x4000, 0x6000, 0x7fff, 0x8000, 0xffff],
            &[
                0x0000, 0x0001, 0x00ff, 0x0100, 0x1fff, 0x2000, 0x3fff, 0x4000, 0x6000, 0x7fff,
                0x8000, 0xffff,
            ],
        )),
        udp_ports: u16s(pick(
            &[0, 1, 0xcafe, 0xffff],
            &[0, 1, 0x00ff, 0x0100, 0xffff],
        )),
        udp_len: if q {
            vec![0, 1, 2, 1472, 65526, 65527]
        } else {
            (0..=65527).collect()
        },
        udp_addrs: u32s(pick(&[0, 0x0102_0304, 0xffff_ffff], &[0x0102_0304, 0xffff_ffff])),
        tcp_ports: u16s(pick(&[0, 1, 0xffff], &[0, 1, 0x00ff, 0x0100, 0xffff])),
        tcp_seq: u32s(pick(
            &[0, 1, 0x8000_0000, 0xffff_ffff],
            &[
                0,
                1,
                0xff,
                0x0100,
                0xffff,
                0x0001_0000,
                0x7fff_ffff,
                0x8000_0000,
                0xffff_fffe,
                0xffff_ffff,
            ],
        )),
        tcp_ack: u32s(pick(
            &[0, 1, 0x8000_0000, 0xffff_ffff],
            &[0, 1, 0x0100, 0x0001_0000, 0x8000_0000, 0xffff_ffff],
        )),
        tcp_urg: u16s(pick(&[0, 1, 0xffff], &[0, 1, 0x0100, 0xffff])),
        tcp_wnd: u16s(pick(&[0, 1, 65535], &[0, 1, 0x00ff, 0x0100, 65535])),
        tcp_len: usz(pick(&[0, 1, 2, 1460, 65515], &[0, 1, 2, 1460, 65514, 65515])),
        tcp_addrs: u32s(pick(&[0x0102_0304, 0xffff_ffff], &[0x0102_0304, 0xffff_ffff])),
        tcpb_b12: if q {
            vec![0x50, 0x51, 0x5f, 0x5e, 0x40, 0x60, 0xf0, 0x00]
        } else {
            (0u8..16)
                .map(|x| x << 4)
                .chain(0x51..=0x5f)
                .collect()
        },
        macs: pick(
            &[
                0,
                1,
                69,
                1 << 47,
                (1 << 47) + 1,
                (1 << 48) - 1,
                0x0102_0304_0506,
                0xff00_0000_0000,
            ],
            &[
                0,
                1,
                69,
                0xff,
                0x0100,
                1 << 40,
                (1 << 40) - 1,
                1 << 47,
                (1 << 47) + 1,
                (1 << 48) - 2,
                (1 << 48) - 1,
                0x0102_0304_0506,
                0xff00_0000_0000,
                0x00ff_0000_0000,
            ],
        ),
        names,
        rdlens: u16s(pick(&[0, 1, 4, 256], &[0, 1, 4, 255, 256])),
        strings,
    }
}

// ---------------------------------------------------------------------------------------------
// IPv4

const IP4: Layout = &[
    ("version-ihl", 0..1),
    ("tos", 1..2),
    ("total-length", 2..4),
    ("identification", 4..6),
    ("flags-fragment-offset", 6..8),
    ("ttl", 8..9),
    ("protocol", 9..10),
    ("checksum", 10..12),
    ("source", 12..16),
    ("destination", 16..20),
];

#[derive(Clone, Copy, Debug, Hash)]
struct Ip4V {
    tos: u8,
    total: u16,
    id: u16,
    df: bool,
    mf: bool,
    off: u16,
    ttl: u8,
    proto: u8,
    src: u32,
    dst: u32,
}

/// RFC 791 encoding of `v` by etherparse (checksum field 0: compiled out in this build).
fn ref_ipv4(v: &Ip4V) -> Vec<u8> {
    let mut h = etherparse::Ipv4Header::new(
        v.total - 20,
        v.ttl,
        etherparse::IpNumber::Udp,
        v.src.to_be_bytes(),
        v.dst.to_be_bytes(),
    );
    h.protocol = v.proto;
    h.differentiated_services_code_point = v.tos >> 2;
    h.explicit_congestion_notification = v.tos & 3;
    h.identification = v.id;
    h.dont_fragment = v.df;
    h.more_fragments = v.mf;
    h.fragments_offset = v.off;
    h.header_checksum = 0;
    let mut out = vec![];
    h.write_raw(&mut out).expect("reference encoder accepts in-domain values");
    out
}

fn ip4_diff(h: &Ipv4Header, v: &Ip4V, bytes: &[u8]) -> Option<&'static str> {
    let tos = h.type_of_service;
    if h.ihl != 5 {
        Some("ihl")
    } else if tos.as_u8() != v.tos
        || tos.precedence() as u8 != v.tos >> 5
        || tos.delay() as u8 != (v.tos >> 4) & 1
        || tos.throughput() as u8 != (v.tos >> 3) & 1
        || tos.reliability() as u8 != (v.tos >> 2) & 1
    {
        Some("tos")
    } else if h.total_length != v.total {
        Some("total-length")
    } else if h.identification != v.id {
        Some("identification")
    } else if h.fragment_offset != v.off {
        Some("fragment-offset")
    } else if h.flags.may_fragment() == v.df {
        Some("flag-df")
    } else if h.flags.is_last_fragment() == v.mf {
        Some("flag-mf")
    } else if h.time_to_live != v.ttl {
        Some("ttl")
    } else if h.protocol != v.proto {
        Some("protocol")
    } else if bytes.len() >= 12 && h.checksum != u16::from_be_bytes([bytes[10], bytes[11]]) {
        Some("checksum")
    } else if h.source != addr(v.src) {
        Some("source")
    } else if h.destination != addr(v.dst) {
        Some("destination")
    } else {
        None
    }
}

/// Oracles shared by the two IPv4 encoder entry points.
fn ipv4_common(enc_site: &str, enc: &[u8], v: &Ip4V, t: &mut Trace, out: &mut Vec<Violation>) {
    let reference = ref_ipv4(v);
    t.say(|| format!("elvis     {}", hex(enc)));
    t.say(|| format!("reference {}", hex(&reference)));
    if let Some(f) = diff_field(IP4, &masked(enc, 10..12), &masked(&reference, 10..12)) {
        out.push(Violation::new(
            "rfc-encoding",
            enc_site,
            f,
            format!("{v:?}: elvis {} reference {}", hex(enc), hex(&reference)),
        ));
    }
    for (clause, bytes) in [("roundtrip", enc), ("rfc-decoding", &reference[..])] {
        match real("Ipv4Header::from_bytes", || {
            Ipv4Header::from_bytes(bytes.iter().copied())
        }) {
            Err(pv) => out.push(pv),
            Ok(Err(e)) => out.push(Violation::new(
                clause,
                "Ipv4Header::from_bytes",
                "rejects-valid-header",
                format!("{v:?}: {} -> {e:?}", hex(bytes)),
            )),
            Ok(Ok(h)) => {
                t.say(|| format!("{clause}: decoded {h:?}"));
                if let Some(f) = ip4_diff(&h, v, bytes) {
                    out.push(Violation::new(
                        clause,
                        "Ipv4Header::from_bytes",
                        f,
                        format!("{v:?}: {} decoded as {h:?}", hex(bytes)),
                    ));
                }
                ipv4_reencode(&h, &bytes[..bytes.len().min(20)], t, out);
            }
        }
    }
}

fn ipv4_reencode(h: &Ipv4Header, consumed: &[u8], t: &mut Trace, out: &mut Vec<Violation>) {
    match real("Ipv4Header::serialize", || h.serialize()) {
        Err(pv) => {
            t.say(|| format!("re-encode: PANIC {} at {}", pv.detail, pv.site));
            out.push(pv)
        }
        Ok(Err(e)) => out.push(Violation::new(
            "reencode",
            "Ipv4Header::serialize",
            "rejects-decoded-header",
            format!("{} decoded as {h:?}, serialize -> {e:?}", hex(consumed)),
        )),
        Ok(Ok(r)) => {
            t.say(|| format!("re-encode {}", hex(&r)));
            if let Some(f) = diff_field(IP4, &r, consumed) {
                out.push(Violation::new(
                    "reencode",
                    "Ipv4Header::serialize",
                    f,
                    format!("{} decoded as {h:?} re-encoded as {}", hex(consumed), hex(&r)),
                ));
            }
        }
    }
}

fn ipv4_build_dims(a: &Alpha) -> Vec<usize> {
    vec![
        64,
        a.ip_payload.len(),
        a.ip_id.len(),
        4,
        a.ip_off.len(),
        a.ip_proto.len(),
        a.addrs.len(),
        a.addrs.len(),
    ]
}

/// `Ipv4HeaderBuilder` with every setter, as `Ipv4Session::send` uses it.
fn ipv4_build(a: &Alpha, ix: &[usize], t: &mut Trace) -> CaseOutcome {
    let tosn = ix[0] as u8; // precedence(3) delay throughput reliability
    let pl = a.ip_payload[ix[1]];
    let (df, mf) = (ix[3] & 2 != 0, ix[3] & 1 != 0);
    let mut v = Ip4V {
        tos: tosn << 2,
        total: pl + 20,
        id: a.ip_id[ix[2]],
        df,
        mf,
        off: a.ip_off[ix[4]],
        ttl: 0,
        proto: a.ip_proto[ix[5]],
        src: a.addrs[ix[6]],
        dst: a.addrs[ix[7]],
    };
    t.say(|| format!("Ipv4HeaderBuilder (all setters) payload_length={pl} {v:?} (ttl: builder's own)"));
    let k = key("ipv4.build", &v);
    let tos = TypeOfService::new(
        Precedence::try_from(tosn >> 3).unwrap(),
        Delay::try_from((tosn >> 2) & 1).unwrap(),
        Throughput::try_from((tosn >> 1) & 1).unwrap(),
        Reliability::try_from(tosn & 1).unwrap(),
    );
    let flags = ControlFlags::new(!df, !mf);
    let enc = match real("Ipv4HeaderBuilder::build", || {
        verif_build_header(
            addr(v.src),
            addr(v.dst),
            v.proto,
            pl,
            Some(tos),
            Some(v.id),
            Some(v.off),
            Some(flags),
        )
    }) {
        Err(pv) => return outcome(k, vec![pv]),
        Ok(Err(e)) => {
            return outcome(
                k,
                vec![Violation::new(
                    "encode",
                    "Ipv4HeaderBuilder::build",
                    "rejects-representable-value",
                    format!("{v:?} -> {e:?}"),
                )],
            )
        }
        Ok(Ok(b)) => b,
    };
    // the builder has no TTL setter: whatever it chose is the value (TTL range: ipv4.serialize)
    v.ttl = enc.get(8).copied().unwrap_or(0);
    let mut out = vec![];
    ipv4_common("Ipv4HeaderBuilder::build", &enc, &v, t, &mut out);
    outcome(k, out)
}

const SER_ID: [u16; 3] = [0, 0x0102, 0xffff];
const SER_ADDR: [u32; 3] = [0, 0x0102_0304, 0xffff_ffff];

fn ipv4_ser_dims(a: &Alpha) -> Vec<usize> {
    vec![
        a.ip_tos_bytes.len(),
        a.ip_total.len(),
        SER_ID.len(),
        4,
        a.ip_off.len(),
        a.ip_ttl.len(),
        a.ip_proto.len(),
        SER_ADDR.len(),
        SER_ADDR.len(),
    ]
}

/// `Ipv4Header` value (all fields public) -> `serialize`.
fn ipv4_serialize(a: &Alpha, ix: &[usize], t: &mut Trace) -> CaseOutcome {
    let (df, mf) = (ix[3] & 2 != 0, ix[3] & 1 != 0);
    let v = Ip4V {
        tos: a.ip_tos_bytes[ix[0]],
        total: a.ip_total[ix[1]],
        id: SER_ID[ix[2]],
        df,
        mf,
        off: a.ip_off[ix[4]],
        ttl: a.ip_ttl[ix[5]],
        proto: a.ip_proto[ix[6]],
        src: SER_ADDR[ix[7]],
        dst: SER_ADDR[ix[8]],
    };
    t.say(|| format!("Ipv4Header value {v:?} -> serialize"));
    let k = key("ipv4.serialize", &v);
    let mut flags = ControlFlags::default();
    flags.set_may_fragment(!df);
    flags.set_is_last_fragment(!mf);
    let h = Ipv4Header {
        ihl: 5,
        type_of_service: TypeOfService::from(v.tos),
        total_length: v.total,
        identification: v.id,
        fragment_offset: v.off,
        flags,
        time_to_live: v.ttl,
        protocol: v.proto,
        checksum: 0,
        source: addr(v.src),
        destination: addr(v.dst),
    };
    let enc = match real("Ipv4Header::serialize", || h.serialize()) {
        Err(pv) => return outcome(k, vec![pv]),
        Ok(Err(e)) => {
            return outcome(
                k,
                vec![Violation::new(
                    "encode",
                    "Ipv4Header::serialize",
                    "rejects-representable-value",
                    format!("{v:?} -> {e:?}"),
                )],
            )
        }
        Ok(Ok(b)) => b,
    };
    let mut out = vec![];
    ipv4_common("Ipv4Header::serialize", &enc, &v, t, &mut out);
    // value round trip on the struct itself
    if out.is_empty() {
        if let Ok(Ok(d)) = real("Ipv4Header::from_bytes", || {
            Ipv4Header::from_bytes(enc.iter().copied())
        }) {
            if d != h {
                out.push(Violation::new(
                    "roundtrip",
                    "Ipv4Header::from_bytes",
                    "struct-differs",
                    format!("{h:?} came back as {d:?}"),
                ));
            }
        }
    }
    outcome(k, out)
}

fn ipv4_bytes_dims(a: &Alpha) -> Vec<usize> {
    vec![
        a.ipb_b0.len(),
        a.ipb_tos.len(),
        a.ipb_total.len(),
        2,
        a.ipb_fo.len(),
        2,
        2,
        3,
        2,
        2,
    ]
}

/// Wire bytes -> `from_bytes`; accepted strings must re-encode to the 20 consumed bytes.
fn ipv4_bytes(a: &Alpha, ix: &[usize], t: &mut Trace) -> CaseOutcome {
    let mut b = vec![a.ipb_b0[ix[0]], a.ipb_tos[ix[1]]];
    b.extend(a.ipb_total[ix[2]].to_be_bytes());
    b.extend([0x0001u16, 0xfffe][ix[3]].to_be_bytes());
    b.extend(a.ipb_fo[ix[4]].to_be_bytes());
    b.push([0u8, 255][ix[5]]);
    b.push([17u8, 255][ix[6]]);
    b.extend([0u16, 1, 0xffff][ix[7]].to_be_bytes());
    b.extend([0x0102_0304u32, 0xffff_ffff][ix[8]].to_be_bytes());
    b.extend([0u32, 0x8000_00fe][ix[9]].to_be_bytes());
    b.extend([0xee, 0xee, 0xee]); // bytes after the header: must stay unread
    t.say(|| format!("wire bytes {}", hex(&b)));
    let mut it = b.iter().copied();
    let r = match real("Ipv4Header::from_bytes", || Ipv4Header::from_bytes(&mut it)) {
        Err(_) => return outcome(None, vec![]), // crashes on malformed input: C14
        Ok(r) => r,
    };
    let h = match r {
        Err(e) => {
            t.say(|| format!("rejected: {e:?}"));
            return outcome(None, vec![]);
        }
        Ok(h) => h,
    };
    let consumed = b.len() - it.len();
    t.say(|| format!("accepted, {consumed} bytes consumed: {h:?}"));
    let mut out = vec![];
    if consumed != 20 {
        out.push(Violation::new(
            "reencode",
            "Ipv4Header::from_bytes",
            "consumed-length",
            format!("{} consumed {consumed} bytes", hex(&b)),
        ));
    }
    ipv4_reencode(&h, &b[..20], t, &mut out);
    outcome(key("ipv4.bytes", &b), out)
}

// ---------------------------------------------------------------------------------------------
// UDP

const UDP: Layout = &[
    ("src-port", 0..2),
    ("dst-port", 2..4),
    ("length", 4..6),
    ("checksum", 6..8),
];

#[derive(Clone, Copy, Debug, Hash)]
struct UdpV {
    sp: u16,
    dp: u16,
    len: usize, // payload length
    src: u32,
    dst: u32,
}

fn udp_decode(
    bytes: &[u8],
    v: &UdpV,
) -> Result<Result<UdpHeader, elvis_core::protocols::udp::verif::ParseError>, Violation> {
    real("UdpHeader::from_bytes_ipv4", || {
        UdpHeader::from_bytes_ipv4(
            bytes.iter().copied().chain(payload(v.len)),
            bytes.len() + v.len,
            addr(v.src),
            addr(v.dst),
        )
    })
}

fn udp_reencode(h: &UdpHeader, v: &UdpV, hdr: &[u8], t: &mut Trace, out: &mut Vec<Violation>) {
    // the encoder takes the payload length, the decoded header carries payload + 8
    let Some(text_len) = (h.length as usize).checked_sub(8) else {
        out.push(Violation::new(
            "reencode",
            "build_udp_header",
            "length-below-header",
            format!("{} decoded as {h:?}: no payload length to re-encode", hex(hdr)),
        ));
        return;
    };
    match real("build_udp_header", || {
        build_udp_header(
            addr(v.src),
            h.source,
            addr(v.dst),
            h.destination,
            payload(text_len),
            text_len,
        )
    }) {
        Err(pv) => out.push(pv),
        Ok(Err(e)) => out.push(Violation::new(
            "reencode",
            "build_udp_header",
            "rejects-decoded-header",
            format!("{} decoded as {h:?}, re-encode -> {e:?}", hex(hdr)),
        )),
        Ok(Ok(r)) => {
            t.say(|| format!("re-encode {}", hex(&r)));
            if let Some(f) = diff_field(UDP, &r, hdr) {
                out.push(Violation::new(
                    "reencode",
                    "build_udp_header",
                    f,
                    format!("{} decoded as {h:?} re-encoded as {}", hex(hdr), hex(&r)),
                ));
            }
        }
    }
}

fn udp_build_dims(a: &Alpha) -> Vec<usize> {
    vec![
        a.udp_ports.len(),
        a.udp_ports.len(),
        a.udp_len.len(),
        a.udp_addrs.len(),
        a.udp_addrs.len(),
    ]
}

fn udp_build(a: &Alpha, ix: &[usize], t: &mut Trace) -> CaseOutcome {
    let v = UdpV {
        sp: a.udp_ports[ix[0]],
        dp: a.udp_ports[ix[1]],
        len: a.udp_len[ix[2]],
        src: a.udp_addrs[ix[3]],
        dst: a.udp_addrs[ix[4]],
    };
    t.say(|| format!("build_udp_header {v:?}"));
    let k = key("udp.build", &v);
    let mut out = vec![];
    let enc = match real("build_udp_header", || {
        build_udp_header(addr(v.src), v.sp, addr(v.dst), v.dp, payload(v.len), v.len)
    }) {
        Err(pv) => return outcome(k, vec![pv]),
        Ok(Err(e)) => {
            return outcome(
                k,
                vec![Violation::new(
                    "encode",
                    "build_udp_header",
                    "rejects-representable-value",
                    format!("{v:?} -> {e:?}"),
                )],
            )
        }
        Ok(Ok(b)) => b,
    };
    let reference = etherparse::UdpHeader::without_ipv4_checksum(v.sp, v.dp, v.len)
        .expect("reference encoder accepts in-domain values")
        .to_bytes()
        .to_vec();
    t.say(|| format!("elvis     {}", hex(&enc)));
    t.say(|| format!("reference {}", hex(&reference)));
    if let Some(f) = diff_field(UDP, &masked(&enc, 6..8), &masked(&reference, 6..8)) {
        out.push(Violation::new(
            "rfc-encoding",
            "build_udp_header",
            f,
            format!("{v:?}: elvis {} reference {}", hex(&enc), hex(&reference)),
        ));
    }
    for (clause, bytes) in [("roundtrip", &enc[..]), ("rfc-decoding", &reference[..])] {
        match udp_decode(bytes, &v) {
            Err(pv) => out.push(pv),
            Ok(Err(e)) => out.push(Violation::new(
                clause,
                "UdpHeader::from_bytes_ipv4",
                "rejects-valid-header",
                format!("{v:?}: {} -> {e:?}", hex(bytes)),
            )),
            Ok(Ok(h)) => {
                t.say(|| format!("{clause}: decoded {h:?}"));
                let f = if h.source != v.sp {
                    Some("src-port")
                } else if h.destination != v.dp {
                    Some("dst-port")
                } else if h.length as usize != v.len + 8 {
                    Some("length")
                } else if bytes.len() >= 8 && h.checksum != u16::from_be_bytes([bytes[6], bytes[7]])
                {
                    Some("checksum")
                } else {
                    None
                };
                if let Some(f) = f {
                    out.push(Violation::new(
                        clause,
                        "UdpHeader::from_bytes_ipv4",
                        f,
                        format!("{v:?}: {} decoded as {h:?}", hex(bytes)),
                    ));
                }
                udp_reencode(&h, &v, bytes, t, &mut out);
            }
        }
    }
    outcome(k, out)
}

const UDPB_LEN: [u16; 7] = [0, 7, 8, 9, 12, 0x0800, 0xffff];
const UDPB_PAY: [usize; 5] = [0, 1, 4, 2040, 65527];

fn udp_bytes_dims(_a: &Alpha) -> Vec<usize> {
    vec![3, 3, UDPB_LEN.len(), 3, UDPB_PAY.len()]
}

fn udp_bytes(_a: &Alpha, ix: &[usize], t: &mut Trace) -> CaseOutcome {
    let ports = [0u16, 0x0102, 0xffff];
    let mut b = vec![];
    b.extend(ports[ix[0]].to_be_bytes());
    b.extend(ports[2 - ix[1]].to_be_bytes());
    b.extend(UDPB_LEN[ix[2]].to_be_bytes());
    b.extend([0u16, 1, 0xffff][ix[3]].to_be_bytes());
    let v = UdpV {
        sp: 0,
        dp: 0,
        len: UDPB_PAY[ix[4]],
        src: 0x0102_0304,
        dst: 0x0a00_00ff,
    };
    t.say(|| format!("wire bytes {} followed by {} payload bytes", hex(&b), v.len));
    let h = match udp_decode(&b, &v) {
        Err(_) => return outcome(None, vec![]),
        Ok(Err(e)) => {
            t.say(|| format!("rejected: {e:?}"));
            return outcome(None, vec![]);
        }
        Ok(Ok(h)) => h,
    };
    t.say(|| format!("accepted: {h:?}"));
    let mut out = vec![];
    udp_reencode(&h, &v, &b, t, &mut out);
    outcome(key("udp.bytes", &(b, v.len)), out)
}

// ---------------------------------------------------------------------------------------------
// TCP

const TCP: Layout = &[
    ("src-port", 0..2),
    ("dst-port", 2..4),
    ("seq", 4..8),
    ("ack", 8..12),
    ("data-offset", 12..13),
    ("flags", 13..14),
    ("window", 14..16),
    ("checksum", 16..18),
    ("urgent", 18..20),
];

#[derive(Clone, Copy, Debug, Hash)]
struct TcpV {
    sp: u16,
    dp: u16,
    seq: u32,
    ack: u32,
    /// URG ACK PSH RST SYN FIN = bits 5..0 (RFC 9293 3.1)
    flags: u8,
    wnd: u16,
    urg: u16,
    len: usize,
    src: u32,
    dst: u32,
}

fn ref_tcp(v: &TcpV) -> Vec<u8> {
    let mut h = etherparse::TcpHeader::new(v.sp, v.dp, v.seq, v.wnd);
    h.acknowledgment_number = v.ack;
    h.urg = v.flags & 32 != 0;
    h.ack = v.flags & 16 != 0;
    h.psh = v.flags & 8 != 0;
    h.rst = v.flags & 4 != 0;
    h.syn = v.flags & 2 != 0;
    h.fin = v.flags & 1 != 0;
    h.urgent_pointer = v.urg;
    h.checksum = 0;
    let mut out = vec![];
    h.write(&mut out).expect("write to a Vec");
    out
}

fn tcp_diff(h: &TcpHeader, v: &TcpV, bytes: &[u8]) -> Option<&'static str> {
    let c = h.ctl;
    if h.src_port != v.sp {
        Some("src-port")
    } else if h.dst_port != v.dp {
        Some("dst-port")
    } else if h.seq != v.seq {
        Some("seq")
    } else if h.ack != v.ack {
        Some("ack")
    } else if h.data_offset != 5 || h.bytes() != 20 {
        Some("data-offset")
    } else if c.urg() != (v.flags & 32 != 0) {
        Some("flag-urg")
    } else if c.ack() != (v.flags & 16 != 0) {
        Some("flag-ack")
    } else if c.psh() != (v.flags & 8 != 0) {
        Some("flag-psh")
    } else if c.rst() != (v.flags & 4 != 0) {
        Some("flag-rst")
    } else if c.syn() != (v.flags & 2 != 0) {
        Some("flag-syn")
    } else if c.fin() != (v.flags & 1 != 0) {
        Some("flag-fin")
    } else if u8::from(c) != v.flags {
        Some("flags")
    } else if h.wnd != v.wnd {
        Some("window")
    } else if h.urg != v.urg {
        Some("urgent")
    } else if bytes.len() >= 18 && h.checksum != u16::from_be_bytes([bytes[16], bytes[17]]) {
        Some("checksum")
    } else {
        None
    }
}

fn tcp_decode(
    bytes: &[u8],
    len: usize,
    src: u32,
    dst: u32,
) -> Result<Result<TcpHeader, elvis_core::protocols::tcp::verif::ParseError>, Violation> {
    real("TcpHeader::from_bytes", || {
        TcpHeader::from_bytes(
            bytes.iter().copied().chain(payload(len)),
            bytes.len() + len,
            addr(src),
            addr(dst),
        )
    })
}

fn tcp_reencode(h: &TcpHeader, hdr: &[u8], t: &mut Trace, out: &mut Vec<Violation>) {
    match real("TcpHeader::serialize", || h.serialize()) {
        Err(pv) => out.push(pv),
        Ok(r) => {
            t.say(|| format!("re-encode {}", hex(&r)));
            if r.len() != hdr.len() {
                out.push(Violation::new(
                    "reencode",
                    "TcpHeader::serialize",
                    "length",
                    format!("{} re-encoded as {}", hex(hdr), hex(&r)),
                ));
                return;
            }
            let detail = || {
                format!(
                    "{} decoded as {h:?} re-encoded as {}",
                    hex(hdr),
                    hex(&r)
                )
            };
            let mut rest = r.clone();
            if (r[12] ^ hdr[12]) & 0x0f != 0 {
                out.push(Violation::new(
                    "reencode",
                    "TcpHeader",
                    "reserved-bits-lost",
                    detail(),
                ));
                rest[12] = (rest[12] & 0xf0) | (hdr[12] & 0x0f);
            }
            if (r[13] ^ hdr[13]) & 0xc0 != 0 {
                out.push(Violation::new(
                    "reencode",
                    "TcpHeader",
                    "cwr-ece-bits-lost",
                    detail(),
                ));
                rest[13] = (rest[13] & 0x3f) | (hdr[13] & 0xc0);
            }
            if let Some(f) = diff_field(TCP, &rest, hdr) {
                out.push(Violation::new(
                    "reencode",
                    "TcpHeader::serialize",
                    f,
                    detail(),
                ));
            }
        }
    }
}

/// Oracles shared by the two TCP encoder paths; `enc` is the real encoding of `v`.
fn tcp_common(enc_site: &str, enc: &[u8], v: &TcpV, t: &mut Trace, out: &mut Vec<Violation>) {
    let reference = ref_tcp(v);
    t.say(|| format!("elvis     {}", hex(enc)));
    t.say(|| format!("reference {}", hex(&reference)));
    if let Some(f) = diff_field(TCP, &masked(enc, 16..18), &masked(&reference, 16..18)) {
        out.push(Violation::new(
            "rfc-encoding",
            enc_site,
            f,
            format!("{v:?}: elvis {} reference {}", hex(enc), hex(&reference)),
        ));
    }
    for (clause, bytes) in [("roundtrip", enc), ("rfc-decoding", &reference[..])] {
        match tcp_decode(bytes, v.len, v.src, v.dst) {
            Err(pv) => out.push(pv),
            Ok(Err(e)) => out.push(Violation::new(
                clause,
                "TcpHeader::from_bytes",
                "rejects-valid-header",
                format!("{v:?}: {} -> {e:?}", hex(bytes)),
            )),
            Ok(Ok(h)) => {
                t.say(|| format!("{clause}: decoded {h:?}"));
                if let Some(f) = tcp_diff(&h, v, bytes) {
                    out.push(Violation::new(
                        clause,
                        "TcpHeader::from_bytes",
                        f,
                        format!("{v:?}: {} decoded as {h:?}", hex(bytes)),
                    ));
                }
                tcp_reencode(&h, &bytes[..bytes.len().min(20)], t, out);
            }
        }
    }
}

fn tcp_builder_dims(a: &Alpha) -> Vec<usize> {
    vec![
        a.tcp_ports.len(),
        a.tcp_ports.len(),
        a.tcp_seq.len(),
        a.tcp_ack.len() + 1,
        a.tcp_urg.len() + 1,
        16,
        a.tcp_wnd.len(),
        a.tcp_len.len(),
        a.tcp_addrs.len(),
    ]
}

/// `TcpHeaderBuilder`: ACK and URG come with their numbers, the other four bits are free.
fn tcp_builder(a: &Alpha, ix: &[usize], t: &mut Trace) -> CaseOutcome {
    let ack = ix[3].checked_sub(1).map(|i| a.tcp_ack[i]);
    let urg = ix[4].checked_sub(1).map(|i| a.tcp_urg[i]);
    let four = ix[5] as u8; // PSH RST SYN FIN
    let v = TcpV {
        sp: a.tcp_ports[ix[0]],
        dp: a.tcp_ports[ix[1]],
        seq: a.tcp_seq[ix[2]],
        ack: ack.unwrap_or(0),
        flags: four | (ack.is_some() as u8) << 4 | (urg.is_some() as u8) << 5,
        wnd: a.tcp_wnd[ix[6]],
        urg: urg.unwrap_or(0),
        len: a.tcp_len[ix[7]],
        src: a.tcp_addrs[ix[8]],
        dst: a.tcp_addrs[a.tcp_addrs.len() - 1 - ix[8]],
    };
    t.say(|| format!("TcpHeaderBuilder ack={ack:?} urg={urg:?} psh/rst/syn/fin={four:04b} {v:?}"));
    let k = key("tcp.builder", &(v, ack.is_some(), urg.is_some()));
    let built = real("TcpHeaderBuilder::build", || {
        let mut b = TcpHeaderBuilder::new(v.sp, v.dp, v.seq).wnd(v.wnd);
        if let Some(x) = ack {
            b = b.ack(x);
        }
        if let Some(x) = urg {
            b = b.urg(x);
        }
        if four & 8 != 0 {
            b = b.psh();
        }
        if four & 4 != 0 {
            b = b.rst();
        }
        if four & 2 != 0 {
            b = b.syn();
        }
        if four & 1 != 0 {
            b = b.fin();
        }
        b.build(addr(v.src), addr(v.dst), payload(v.len), v.len)
    });
    let h = match built {
        Err(pv) => return outcome(k, vec![pv]),
        Ok(Err(e)) => {
            return outcome(
                k,
                vec![Violation::new(
                    "encode",
                    "TcpHeaderBuilder::build",
                    "rejects-representable-value",
                    format!("{v:?} -> {e:?}"),
                )],
            )
        }
        Ok(Ok(h)) => h,
    };
    let mut out = vec![];
    let enc = match real("TcpHeader::serialize", || h.serialize()) {
        Err(pv) => return outcome(k, vec![pv]),
        Ok(b) => b,
    };
    if let Some(f) = tcp_diff(&h, &v, &enc) {
        out.push(Violation::new(
            "encode",
            "TcpHeaderBuilder::build",
            f,
            format!("{v:?} built as {h:?}"),
        ));
    }
    tcp_common("TcpHeaderBuilder::build", &enc, &v, t, &mut out);
    outcome(k, out)
}

fn tcp_header_dims(a: &Alpha) -> Vec<usize> {
    vec![
        a.tcp_ports.len(),
        a.tcp_ports.len(),
        a.tcp_seq.len(),
        a.tcp_ack.len(),
        64,
        a.tcp_wnd.len(),
        a.tcp_urg.len(),
        a.tcp_len.len(),
    ]
}

/// `TcpHeader` value (all fields public, all 64 flag sets, numbers independent of the flags).
fn tcp_header(a: &Alpha, ix: &[usize], t: &mut Trace) -> CaseOutcome {
    let v = TcpV {
        sp: a.tcp_ports[ix[0]],
        dp: a.tcp_ports[ix[1]],
        seq: a.tcp_seq[ix[2]],
        ack: a.tcp_ack[ix[3]],
        flags: ix[4] as u8,
        wnd: a.tcp_wnd[ix[5]],
        urg: a.tcp_urg[ix[6]],
        len: a.tcp_len[ix[7]],
        src: 0x0a00_0001,
        dst: 0xc0a8_01fe,
    };
    t.say(|| format!("TcpHeader value {v:?} -> serialize"));
    let k = key("tcp.header", &v);
    let f = v.flags;
    let h = TcpHeader {
        src_port: v.sp,
        dst_port: v.dp,
        seq: v.seq,
        ack: v.ack,
        data_offset: 5,
        ctl: Control::new(
            f & 32 != 0,
            f & 16 != 0,
            f & 8 != 0,
            f & 4 != 0,
            f & 2 != 0,
            f & 1 != 0,
        ),
        wnd: v.wnd,
        urg: v.urg,
        checksum: 0,
    };
    let enc = match real("TcpHeader::serialize", || h.serialize()) {
        Err(pv) => return outcome(k, vec![pv]),
        Ok(b) => b,
    };
    let mut out = vec![];
    tcp_common("TcpHeader::serialize", &enc, &v, t, &mut out);
    if out.is_empty() {
        if let Ok(Ok(d)) = tcp_decode(&enc, v.len, v.src, v.dst) {
            if d != h {
                out.push(Violation::new(
                    "roundtrip",
                    "TcpHeader::from_bytes",
                    "struct-differs",
                    format!("{h:?} came back as {d:?}"),
                ));
            }
        }
    }
    outcome(k, out)
}

fn tcp_control_dims(_a: &Alpha) -> Vec<usize> {
    vec![64, 13]
}

/// The `Control` accessors: constructor, six getters, six setters in both directions.
fn tcp_control(_a: &Alpha, ix: &[usize], t: &mut Trace) -> CaseOutcome {
    const NAMES: [&str; 6] = ["fin", "syn", "rst", "psh", "ack", "urg"];
    let bits = ix[0] as u8;
    let op = ix[1];
    let get = |c: Control, b: usize| match b {
        0 => c.fin(),
        1 => c.syn(),
        2 => c.rst(),
        3 => c.psh(),
        4 => c.ack(),
        _ => c.urg(),
    };
    let r = real("Control", || {
        let c = Control::new(
            bits & 32 != 0,
            bits & 16 != 0,
            bits & 8 != 0,
            bits & 4 != 0,
            bits & 2 != 0,
            bits & 1 != 0,
        );
        if op == 12 {
            // constructor, conversion and getters
            if u8::from(c) != bits || Control::from(bits) != c {
                return Some(("new", format!("Control::new for {bits:06b} gives {:06b}", u8::from(c))));
            }
            for b in 0..6 {
                if get(c, b) != (bits >> b & 1 == 1) {
                    return Some((NAMES[b], format!("getter {} on {bits:06b}", NAMES[b])));
                }
            }
            return None;
        }
        let (b, state) = (op / 2, op % 2 == 1);
        let mut m = c;
        match b {
            0 => m.set_fin(state),
            1 => m.set_syn(state),
            2 => m.set_rst(state),
            3 => m.set_psh(state),
            4 => m.set_ack(state),
            _ => m.set_urg(state),
        }
        let want = (bits & !(1 << b)) | (state as u8) << b;
        if u8::from(m) != want {
            return Some((
                NAMES[b],
                format!(
                    "set_{}({state}) on {bits:06b} gives {:06b}, RFC 9293 bit layout wants {want:06b}",
                    NAMES[b],
                    u8::from(m)
                ),
            ));
        }
        None
    });
    t.say(|| format!("Control bits {bits:06b} (URG ACK PSH RST SYN FIN), operation {op} -> {r:?}"));
    let k = key("tcp.control", &(bits, op));
    match r {
        Err(pv) => outcome(k, vec![pv]),
        Ok(None) => outcome(k, vec![]),
        Ok(Some((n, d))) => outcome(k, vec![Violation::new("control-bits", "Control", n, d)]),
    }
}

fn tcp_bytes_dims(a: &Alpha) -> Vec<usize> {
    vec![2, 2, 3, 3, a.tcpb_b12.len(), 256, 2, 2, 2, 3]
}

/// Wire bytes -> `from_bytes`; accepted strings must re-encode to the 20 header bytes.
fn tcp_bytes(a: &Alpha, ix: &[usize], t: &mut Trace) -> CaseOutcome {
    let n32 = [0u32, 0x0102_0304, 0xffff_ffff];
    let mut b = vec![];
    b.extend([0u16, 0xfffe][ix[0]].to_be_bytes());
    b.extend([1u16, 0xffff][ix[1]].to_be_bytes());
    b.extend(n32[ix[2]].to_be_bytes());
    b.extend(n32[2 - ix[3]].to_be_bytes());
    b.push(a.tcpb_b12[ix[4]]);
    b.push(ix[5] as u8);
    b.extend([0u16, 0xff01][ix[6]].to_be_bytes());
    b.extend([0u16, 1][ix[7]].to_be_bytes());
    b.extend([0u16, 0x01ff][ix[8]].to_be_bytes());
    let len = [0usize, 1, 1460][ix[9]];
    t.say(|| format!("wire bytes {} followed by {len} payload bytes", hex(&b)));
    let h = match tcp_decode(&b, len, 0x0102_0304, 0x0a00_00ff) {
        Err(_) => return outcome(None, vec![]),
        Ok(Err(e)) => {
            t.say(|| format!("rejected: {e:?}"));
            return outcome(None, vec![]);
        }
        Ok(Ok(h)) => h,
    };
    t.say(|| format!("accepted: {h:?}"));
    let mut out = vec![];
    tcp_reencode(&h, &b, t, &mut out);
    outcome(key("tcp.bytes", &(b, len)), out)
}

// ---------------------------------------------------------------------------------------------
// ARP

const ARP: Layout = &[
    ("htype", 0..2),
    ("ptype", 2..4),
    ("hlen", 4..5),
    ("plen", 5..6),
    ("oper", 6..8),
    ("sender-mac", 8..14),
    ("sender-ip", 14..18),
    ("target-mac", 18..24),
    ("target-ip", 24..28),
];

fn arp_diff(a: &ArpPacket, b: &ArpPacket) -> Option<&'static str> {
    if a.htype != b.htype {
        Some("htype")
    } else if a.ptype != b.ptype {
        Some("ptype")
    } else if a.hlen != b.hlen {
        Some("hlen")
    } else if a.plen != b.plen {
        Some("plen")
    } else if a.oper != b.oper {
        Some("oper")
    } else if a.sender_mac != b.sender_mac {
        Some("sender-mac")
    } else if a.sender_ip != b.sender_ip {
        Some("sender-ip")
    } else if a.target_mac != b.target_mac {
        Some("target-mac")
    } else if a.target_ip != b.target_ip {
        Some("target-ip")
    } else if a != b {
        Some("struct-differs")
    } else {
        None
    }
}

fn arp_reencode(p: &ArpPacket, consumed: &[u8], t: &mut Trace, out: &mut Vec<Violation>) {
    match real("ArpPacket::build", || p.build()) {
        Err(pv) => out.push(pv),
        Ok(r) => {
            t.say(|| format!("re-encode {}", hex(&r)));
            if let Some(f) = diff_field(ARP, &r, consumed) {
                out.push(Violation::new(
                    "reencode",
                    "ArpPacket::build",
                    f,
                    format!("{} decoded as {p:?} re-encoded as {}", hex(consumed), hex(&r)),
                ));
            }
        }
    }
}

const ARP_U16: [u16; 3] = [1, 0x0800, 0xffff];
const ARP_U8: [u8; 3] = [0, 6, 255];

fn arp_value_dims(a: &Alpha) -> Vec<usize> {
    vec![3, 3, 3, 3, 2, a.macs.len(), a.macs.len(), a.addrs.len(), a.addrs.len()]
}

fn arp_value(a: &Alpha, ix: &[usize], t: &mut Trace) -> CaseOutcome {
    let p = ArpPacket {
        htype: ARP_U16[ix[0]],
        ptype: ARP_U16[2 - ix[1]],
        hlen: ARP_U8[ix[2]],
        plen: ARP_U8[2 - ix[3]],
        oper: [Operation::Request, Operation::Reply][ix[4]],
        sender_mac: a.macs[ix[5]],
        target_mac: a.macs[ix[6]],
        sender_ip: addr(a.addrs[ix[7]]),
        target_ip: addr(a.addrs[ix[8]]),
    };
    t.say(|| format!("{p:?}"));
    let k = key("arp.value", &p);
    let enc = match real("ArpPacket::build", || p.build()) {
        Err(pv) => return outcome(k, vec![pv]),
        Ok(b) => b,
    };
    t.say(|| format!("elvis     {}", hex(&enc)));
    let mut out = vec![];
    if enc.len() != ArpPacket::SIZE {
        out.push(Violation::new(
            "roundtrip",
            "ArpPacket::build",
            "length",
            format!("{p:?} encodes to {} bytes", enc.len()),
        ));
    }
    match real("ArpPacket::from_bytes", || {
        ArpPacket::from_bytes(enc.iter().copied())
    }) {
        Err(pv) => out.push(pv),
        Ok(Err(e)) => out.push(Violation::new(
            "roundtrip",
            "ArpPacket::from_bytes",
            "rejects-valid-packet",
            format!("{p:?}: {} -> {e:?}", hex(&enc)),
        )),
        Ok(Ok(d)) => {
            t.say(|| format!("decoded {d:?}"));
            if let Some(f) = arp_diff(&d, &p) {
                out.push(Violation::new(
                    "roundtrip",
                    "ArpPacket",
                    f,
                    format!("{p:?} -> {} -> {d:?}", hex(&enc)),
                ));
            }
            arp_reencode(&d, &enc, t, &mut out);
        }
    }
    outcome(k, out)
}

const ARP_BIG: [u64; 4] = [1 << 48, (1 << 48) + 5, 0xffff_0000_0000_0001, u64::MAX];

fn arp_oversize_dims(_a: &Alpha) -> Vec<usize> {
    vec![ARP_BIG.len(), ARP_BIG.len() + 1, 2]
}

/// MAC values of 2^48 and more are not representable on the wire: only "does not panic".
fn arp_oversize(_a: &Alpha, ix: &[usize], t: &mut Trace) -> CaseOutcome {
    let p = ArpPacket {
        htype: 1,
        ptype: 0x0800,
        hlen: 6,
        plen: 4,
        oper: [Operation::Request, Operation::Reply][ix[2]],
        sender_mac: ARP_BIG[ix[0]],
        target_mac: if ix[1] == 0 { 7 } else { ARP_BIG[ix[1] - 1] },
        sender_ip: addr(0x0102_0304),
        target_ip: addr(0xffff_ffff),
    };
    t.say(|| format!("{p:?} (MAC >= 2^48: outside the statement, only checked not to panic)"));
    let k = key("arp.oversize", &p);
    let enc = match real("ArpPacket::build", || p.build()) {
        Err(pv) => return outcome(k, vec![pv]),
        Ok(b) => b,
    };
    t.say(|| format!("elvis     {}", hex(&enc)));
    match real("ArpPacket::from_bytes", || {
        ArpPacket::from_bytes(enc.iter().copied())
    }) {
        Err(pv) => outcome(k, vec![pv]),
        Ok(d) => {
            t.say(|| format!("decoded {d:?}"));
            outcome(k, vec![])
        }
    }
}

const ARPB_OPER: [u16; 7] = [0, 1, 2, 3, 0x0100, 0x0200, 0xffff];
const ARPB_MAC: [[u8; 6]; 4] = [
    [0; 6],
    [1, 2, 3, 4, 5, 6],
    [0xff; 6],
    [0x80, 0, 0, 0, 0, 0],
];

fn arp_bytes_dims(_a: &Alpha) -> Vec<usize> {
    vec![3, 2, 2, 2, ARPB_OPER.len(), 4, 2, 4, 2, 3]
}

fn arp_bytes(_a: &Alpha, ix: &[usize], t: &mut Trace) -> CaseOutcome {
    let ips = [0x0102_0304u32, 0xffff_ff00];
    let mut b = vec![];
    b.extend([0u16, 1, 0xfffe][ix[0]].to_be_bytes());
    b.extend([0x0800u16, 0xffff][ix[1]].to_be_bytes());
    b.push([6u8, 0][ix[2]]);
    b.push([4u8, 255][ix[3]]);
    b.extend(ARPB_OPER[ix[4]].to_be_bytes());
    b.extend(ARPB_MAC[ix[5]]);
    b.extend(ips[ix[6]].to_be_bytes());
    b.extend(ARPB_MAC[3 - ix[7]]);
    b.extend(ips[1 - ix[8]].to_be_bytes());
    match ix[9] {
        0 => {}
        1 => b.extend([0xee; 5]), // trailing bytes: must stay unread
        _ => b.truncate(27),      // one byte short: must be rejected (then trivial)
    }
    t.say(|| format!("wire bytes {}", hex(&b)));
    let mut it = b.iter().copied();
    let p = match real("ArpPacket::from_bytes", || ArpPacket::from_bytes(&mut it)) {
        Err(_) => return outcome(None, vec![]),
        Ok(Err(e)) => {
            t.say(|| format!("rejected: {e:?}"));
            return outcome(None, vec![]);
        }
        Ok(Ok(p)) => p,
    };
    let consumed = b.len() - it.len();
    t.say(|| format!("accepted, {consumed} bytes consumed: {p:?}"));
    let mut out = vec![];
    arp_reencode(&p, &b[..consumed], t, &mut out);
    outcome(key("arp.bytes", &b), out)
}

// ---------------------------------------------------------------------------------------------
// DNS

#[derive(Clone, Debug, Hash, PartialEq, Eq)]
struct DnsV {
    head: [u16; 6],
    qname: Vec<u8>,
    qtype: u16,
    qclass: u16,
    name: Vec<u8>,
    rec_type: u16,
    class: u16,
    ttl: u32,
    rdlength: u16,
    rdata: Vec<u8>,
}

impl DnsV {
    fn short(&self) -> String {
        format!(
            "DnsMessage head={:04x?} qname={} qtype={:#x} qclass={:#x} name={} type={:#x} class={:#x} ttl={:#x} rdlength={} rdata={}",
            self.head,
            hex(&self.qname),
            self.qtype,
            self.qclass,
            hex(&self.name),
            self.rec_type,
            self.class,
            self.ttl,
            self.rdlength,
            hex(&self.rdata[..self.rdata.len().min(8)])
        )
    }
    fn make(&self) -> DnsMessage {
        DnsMessage {
            header: DnsHeader {
                id: self.head[0],
                properties: self.head[1],
                qdcount: self.head[2],
                ancount: self.head[3],
                nscount: self.head[4],
                arcount: self.head[5],
            },
            question: DnsQuestion::verif_new(self.qname.clone(), self.qtype, self.qclass),
            answer: DnsResourceRecord::verif_new(
                self.name.clone(),
                self.rec_type,
                self.class,
                self.ttl,
                self.rdlength,
                self.rdata.clone(),
            ),
        }
    }
    fn of(m: &DnsMessage) -> Self {
        let (qtype, qclass) = m.question.verif_qtype_qclass();
        let (class, rdlength) = m.answer.verif_class_rdlength();
        let h = &m.header;
        Self {
            head: [h.id, h.properties, h.qdcount, h.ancount, h.nscount, h.arcount],
            qname: m.question.qname.clone(),
            qtype,
            qclass,
            name: m.answer.name.clone(),
            rec_type: m.answer.rec_type,
            class,
            ttl: m.answer.ttl,
            rdlength,
            rdata: m.answer.rdata.clone(),
        }
    }
    fn diff(&self, o: &Self) -> Option<&'static str> {
        const H: [&str; 6] = ["id", "properties", "qdcount", "ancount", "nscount", "arcount"];
        for i in 0..6 {
            if self.head[i] != o.head[i] {
                return Some(H[i]);
            }
        }
        if self.qname != o.qname {
            Some("qname")
        } else if self.qtype != o.qtype {
            Some("qtype")
        } else if self.qclass != o.qclass {
            Some("qclass")
        } else if self.name != o.name {
            Some("name")
        } else if self.rec_type != o.rec_type {
            Some("type")
        } else if self.class != o.class {
            Some("class")
        } else if self.ttl != o.ttl {
            Some("ttl")
        } else if self.rdlength != o.rdlength {
            Some("rdlength")
        } else if self.rdata != o.rdata {
            Some("rdata")
        } else {
            None
        }
    }
}

fn dns_encode(m: DnsMessage) -> Result<Vec<u8>, Violation> {
    match real("DnsMessage::to_message", || m.to_message().map(|x| x.to_vec())) {
        Err(pv) => Err(pv),
        Ok(Err(e)) => Err(Violation::new(
            "encode",
            "DnsMessage::to_message",
            "rejects-representable-value",
            format!("{e:?}"),
        )),
        Ok(Ok(b)) => Ok(b),
    }
}

fn dns_reencode(m: DnsMessage, consumed: &[u8], t: &mut Trace, out: &mut Vec<Violation>) {
    match dns_encode(m) {
        Err(v) => out.push(v),
        Ok(r) => {
            t.say(|| format!("re-encode {}", hex(&r)));
            if r != consumed {
                let at = r.iter().zip(consumed).position(|(x, y)| x != y);
                out.push(Violation::new(
                    "reencode",
                    "DnsMessage::to_message",
                    if r.len() != consumed.len() { "length" } else { "bytes" },
                    format!(
                        "consumed {} ({} bytes) re-encoded as {} ({} bytes), first difference at {at:?}",
                        hex(consumed),
                        consumed.len(),
                        hex(&r),
                        r.len()
                    ),
                ));
            }
        }
    }
}

const DNS_HEAD: [[u16; 6]; 4] = [
    [0, 0, 0, 0, 0, 0],
    [1, 0x8000, 1, 2, 3, 4],
    [0xffff, 0xffff, 0xfffe, 0xfffd, 0xfffc, 0xfffb],
    [0x0100, 0x0001, 0x0100, 0x0001, 0x8000, 0x7fff],
];
const DNS_QT: [(u16, u16); 3] = [(1, 1), (0xffff, 0x0120), (0x2000, 0xfffe)];
const DNS_RR: [(u16, u16, u32); 4] = [
    (1, 1, 0),
    (28, 0xffff, 1),
    (0xffff, 0x0100, 0x8000_0000),
    (0x0020, 0x2020, 0xffff_ffff),
];

fn dns_value_dims(a: &Alpha) -> Vec<usize> {
    vec![
        DNS_HEAD.len(),
        a.names.len(),
        DNS_QT.len(),
        a.names.len(),
        DNS_RR.len(),
        a.rdlens.len(),
    ]
}

fn dns_value(a: &Alpha, ix: &[usize], t: &mut Trace) -> CaseOutcome {
    dns_value_core(
        DNS_HEAD[ix[0]],
        &a.names[ix[1]],
        DNS_QT[ix[2]],
        &a.names[ix[3]],
        DNS_RR[ix[4]],
        a.rdlens[ix[5]],
        t,
    )
}

const DNS_BIG: [u16; 5] = [257, 4096, 32768, 65534, 65535];

fn dns_rdata_dims(_a: &Alpha) -> Vec<usize> {
    vec![2, 4, 4, 2, DNS_BIG.len()]
}

/// Long record data up to the 16-bit limit (kept apart: these cases are three orders of
/// magnitude more expensive than the others).
fn dns_rdata(a: &Alpha, ix: &[usize], t: &mut Trace) -> CaseOutcome {
    dns_value_core(
        DNS_HEAD[ix[0] + 1],
        &a.names[ix[1]],
        DNS_QT[0],
        &a.names[ix[2] + 1],
        DNS_RR[ix[3] * 3],
        DNS_BIG[ix[4]],
        t,
    )
}

fn dns_value_core(
    head: [u16; 6],
    qname: &[u8],
    qt: (u16, u16),
    name: &[u8],
    rr: (u16, u16, u32),
    rdlength: u16,
    t: &mut Trace,
) -> CaseOutcome {
    let v = DnsV {
        head,
        qname: qname.to_vec(),
        qtype: qt.0,
        qclass: qt.1,
        name: name.to_vec(),
        rec_type: rr.0,
        class: rr.1,
        ttl: rr.2,
        rdlength,
        // record data may hold any byte, the delimiter included
        rdata: (0..rdlength as usize).map(|i| (i as u8) ^ 0x20).collect(),
    };
    t.say(|| v.short());
    let k = key("dns.value", &v);
    let enc = match dns_encode(v.make()) {
        Err(x) => return outcome(k, vec![x]),
        Ok(b) => b,
    };
    t.say(|| format!("elvis     {}", hex(&enc)));
    let mut out = vec![];
    let msg = elvis_core::Message::new(enc.clone());
    match real("DnsMessage::from_bytes", || DnsMessage::from_bytes(msg.iter())) {
        Err(pv) => out.push(pv),
        Ok(Err(e)) => out.push(Violation::new(
            "roundtrip",
            "DnsMessage::from_bytes",
            "rejects-valid-message",
            format!("{}: {} -> {e:?}", v.short(), hex(&enc)),
        )),
        Ok(Ok(m)) => {
            let d = DnsV::of(&m);
            t.say(|| format!("decoded {}", d.short()));
            if let Some(f) = d.diff(&v) {
                out.push(Violation::new(
                    "roundtrip",
                    "DnsMessage",
                    f,
                    format!("{} -> {} -> {}", v.short(), hex(&enc), d.short()),
                ));
            }
            dns_reencode(m, &enc, t, &mut out);
        }
    }
    outcome(k, out)
}

const DNSB_NAMES: [&[u8]; 5] = [b"", b"a", b"a.b", &[0x00, 0xff], &[0x41; 63]];
const DNSB_RDLEN: [u16; 4] = [0, 1, 4, 0x0100];
const DNSB_AVAIL: [usize; 4] = [0, 1, 4, 300];

fn dns_bytes_dims(_a: &Alpha) -> Vec<usize> {
    vec![3, 5, 2, 5, 2, DNSB_RDLEN.len(), DNSB_AVAIL.len(), 2]
}

fn dns_bytes(_a: &Alpha, ix: &[usize], t: &mut Trace) -> CaseOutcome {
    let mut b: Vec<u8> = match ix[0] {
        0 => vec![0; 12],
        1 => (1..=12).collect(),
        _ => vec![0xff; 12],
    };
    b.extend(DNSB_NAMES[ix[1]]);
    b.push(b' ');
    b.extend([[0u8, 1, 0, 1], [0xff, 0xfe, 0x20, 0x20]][ix[2]]);
    b.extend(DNSB_NAMES[4 - ix[3]]);
    if ix[7] == 0 {
        b.push(b' '); // ix[7] == 1: the second delimiter is missing
    } else {
        b.push(b'_');
    }
    b.extend([[0u8, 1, 0, 1, 0, 0, 6, 64], [0xff, 0xfe, 0x20, 0x20, 0x80, 0, 0, 0x20]][ix[4]]);
    b.extend(DNSB_RDLEN[ix[5]].to_be_bytes());
    b.extend((0..DNSB_AVAIL[ix[6]]).map(|i| 0x20 + (i % 7) as u8));
    t.say(|| format!("wire bytes {} ({} bytes)", hex(&b), b.len()));
    let mut it = b.iter().copied();
    let m = match real("DnsMessage::from_bytes", || DnsMessage::from_bytes(&mut it)) {
        Err(_) => return outcome(None, vec![]),
        Ok(Err(e)) => {
            t.say(|| format!("rejected: {e:?}"));
            return outcome(None, vec![]);
        }
        Ok(Ok(m)) => m,
    };
    let consumed = b.len() - it.len();
    t.say(|| format!("accepted, {consumed} bytes consumed: {}", DnsV::of(&m).short()));
    let mut out = vec![];
    dns_reencode(m, &b[..consumed], t, &mut out);
    outcome(key("dns.bytes", &b), out)
}

// ---------------------------------------------------------------------------------------------
// DHCP

#[derive(Clone, Debug, Hash)]
struct DhcpV {
    op: u8,
    hw: (u8, u8, u8),
    xid: u32,
    seconds: u16,
    flags: u8,
    ips: [u32; 4],
    chaddr: u16,
    msg_type: u8,
    server_name: String,
    boot_file: String,
}

impl DhcpV {
    fn make(&self) -> DhcpMessage {
        DhcpMessage::verif_new(
            self.op,
            self.hw.0,
            self.hw.1,
            self.hw.2,
            self.xid,
            self.seconds,
            self.flags,
            addr(self.ips[0]),
            addr(self.ips[1]),
            addr(self.ips[2]),
            addr(self.ips[3]),
            self.chaddr,
            self.server_name.clone(),
            self.boot_file.clone(),
            MessageType::try_from(self.msg_type).expect("types 1..=7"),
        )
    }
}

/// The field in which two `DhcpMessage`s differ, read off their derived `Debug` output (most
/// fields are private).
fn dhcp_diff(a: &DhcpMessage, b: &DhcpMessage) -> Option<String> {
    if a == b {
        return None;
    }
    let (x, y) = (format!("{a:#?}"), format!("{b:#?}"));
    for (l, r) in x.lines().zip(y.lines()) {
        if l != r {
            let name = l.trim().split(':').next().unwrap_or("?").trim();
            return Some(name.replace('_', "-"));
        }
    }
    Some("struct-differs".into())
}

fn dhcp_encode(m: DhcpMessage) -> Result<Vec<u8>, Violation> {
    match real("DhcpMessage::to_message", || {
        DhcpMessage::to_message(m).map(|x| x.to_vec())
    }) {
        Err(pv) => Err(pv),
        Ok(Err(e)) => Err(Violation::new(
            "encode",
            "DhcpMessage::to_message",
            "rejects-representable-value",
            format!("{e:?}"),
        )),
        Ok(Ok(b)) => Ok(b),
    }
}

fn dhcp_reencode(m: DhcpMessage, consumed: &[u8], t: &mut Trace, out: &mut Vec<Violation>) {
    match dhcp_encode(m) {
        Err(v) => out.push(v),
        Ok(r) => {
            t.say(|| format!("re-encode {}", hex(&r)));
            if r != consumed {
                let at = r.iter().zip(consumed).position(|(x, y)| x != y);
                out.push(Violation::new(
                    "reencode",
                    "DhcpMessage::to_message",
                    if r.len() != consumed.len() { "length" } else { "bytes" },
                    format!(
                        "consumed {} ({} bytes) re-encoded as {} ({} bytes), first difference at {at:?}",
                        hex(consumed),
                        consumed.len(),
                        hex(&r),
                        r.len()
                    ),
                ));
            }
        }
    }
}

const DHCP_OP: [u8; 4] = [0, 1, 2, 255];
const DHCP_HW: [(u8, u8, u8); 4] = [(0, 0, 0), (1, 6, 0), (255, 254, 253), (3, 2, 1)];
const DHCP_XID: [u32; 4] = [0, 1, 0x8000_0000, 0xffff_fffe];
const DHCP_SEC: [u16; 3] = [0, 0x0102, 0xffff];
const DHCP_FLAGS: [u8; 4] = [0, 1, 0x80, 0xff];
const DHCP_IPS: [[u32; 4]; 4] = [
    [0, 0, 0, 0],
    [0x0102_0304, 0x0506_0708, 0x090a_0b0c, 0x0d0e_0f10],
    [0xffff_ffff, 0xffff_fffe, 0xffff_fffd, 0xffff_fffc],
    [0xff00_0000, 0x0000_00ff, 0x8000_0001, 0x0100_0080],
];
const DHCP_CH: [u16; 4] = [0, 1, 0x0100, 0xffff];

fn dhcp_value_dims(a: &Alpha) -> Vec<usize> {
    vec![4, 4, 4, 3, 4, 4, 4, 7, a.strings.len(), a.strings.len()]
}

fn dhcp_value(a: &Alpha, ix: &[usize], t: &mut Trace) -> CaseOutcome {
    let v = DhcpV {
        op: DHCP_OP[ix[0]],
        hw: DHCP_HW[ix[1]],
        xid: DHCP_XID[ix[2]],
        seconds: DHCP_SEC[ix[3]],
        flags: DHCP_FLAGS[ix[4]],
        ips: DHCP_IPS[ix[5]],
        chaddr: DHCP_CH[ix[6]],
        msg_type: ix[7] as u8 + 1,
        server_name: a.strings[ix[8]].clone(),
        boot_file: a.strings[ix[9]].clone(),
    };
    t.say(|| format!("{v:?}"));
    let k = key("dhcp.value", &v);
    let enc = match dhcp_encode(v.make()) {
        Err(x) => return outcome(k, vec![x]),
        Ok(b) => b,
    };
    t.say(|| format!("elvis     {}", hex(&enc)));
    let mut out = vec![];
    let msg = elvis_core::Message::new(enc.clone());
    match real("DhcpMessage::from_bytes", || DhcpMessage::from_bytes(msg.iter())) {
        Err(pv) => out.push(pv),
        Ok(Err(e)) => out.push(Violation::new(
            "roundtrip",
            "DhcpMessage::from_bytes",
            "rejects-valid-message",
            format!("{v:?}: {} -> {e:?}", hex(&enc)),
        )),
        Ok(Ok(d)) => {
            t.say(|| format!("decoded {d:?}"));
            if let Some(f) = dhcp_diff(&d, &v.make()) {
                out.push(Violation::new(
                    "roundtrip",
                    "DhcpMessage",
                    &f,
                    format!("{v:?} -> {} -> {d:?}", hex(&enc)),
                ));
            }
            dhcp_reencode(d, &enc, t, &mut out);
        }
    }
    outcome(k, out)
}

const DHCPB_STR: [&[u8]; 5] = [b"", b"a", b"Serv", "\u{e9}\u{65e5}".as_bytes(), &[b's'; 64]];

fn dhcp_bytes_dims(_a: &Alpha) -> Vec<usize> {
    vec![3, 7, 5, 2, 5, 2, 2]
}

/// Types 1..=7 and UTF-8 names only: the decoder crashes on the rest, which is C14's subject.
fn dhcp_bytes(_a: &Alpha, ix: &[usize], t: &mut Trace) -> CaseOutcome {
    let mut b: Vec<u8> = match ix[0] {
        0 => vec![0; 29],
        1 => (1..=29).collect(),
        _ => vec![0xff; 29],
    };
    b.push(ix[1] as u8 + 1);
    b.extend(DHCPB_STR[ix[2]]);
    if ix[3] == 0 {
        b.push(0);
    }
    b.extend(DHCPB_STR[4 - ix[4]]);
    if ix[5] == 0 {
        b.push(0);
    }
    if ix[6] == 1 {
        b.extend(b"xyz\0tail"); // after the message: must stay unread
    }
    t.say(|| format!("wire bytes {} ({} bytes)", hex(&b), b.len()));
    let mut it = b.iter().copied();
    let m = match real("DhcpMessage::from_bytes", || DhcpMessage::from_bytes(&mut it)) {
        Err(_) => return outcome(None, vec![]),
        Ok(Err(e)) => {
            t.say(|| format!("rejected: {e:?}"));
            return outcome(None, vec![]);
        }
        Ok(Ok(m)) => m,
    };
    let consumed = b.len() - it.len();
    t.say(|| format!("accepted, {consumed} bytes consumed: {m:?}"));
    let mut out = vec![];
    dhcp_reencode(m, &b[..consumed], t, &mut out);
    outcome(key("dhcp.bytes", &b), out)
}

// ---------------------------------------------------------------------------------------------
// parts, run, replay

type Eval = fn(&Alpha, &[usize], &mut Trace) -> CaseOutcome;

pub struct Part {
    pub name: String,
    rule: &'static str,
    prod: Product,
    eval: Eval,
}

const RULE_VALUE: &str = "non-trivial = a header value (distinct by hash of all its fields) that went through the real encoder and the real decoder";
const RULE_BYTES: &str = "non-trivial = a byte string (distinct by hash) that the real decoder accepted and whose decoded value was re-encoded; rejected strings are trivial";

pub fn parts(a: &Alpha) -> Vec<Part> {
    let table: Vec<(&str, &'static str, Vec<usize>, Eval)> = vec![
        ("ipv4.build", RULE_VALUE, ipv4_build_dims(a), ipv4_build),
        ("ipv4.serialize", RULE_VALUE, ipv4_ser_dims(a), ipv4_serialize),
        ("ipv4.bytes", RULE_BYTES, ipv4_bytes_dims(a), ipv4_bytes),
        ("udp.build", RULE_VALUE, udp_build_dims(a), udp_build),
        ("udp.bytes", RULE_BYTES, udp_bytes_dims(a), udp_bytes),
        ("tcp.builder", RULE_VALUE, tcp_builder_dims(a), tcp_builder),
        ("tcp.header", RULE_VALUE, tcp_header_dims(a), tcp_header),
        (
            "tcp.control",
            "non-trivial = a (flag set, accessor operation) pair executed on the real Control",
            tcp_control_dims(a),
            tcp_control,
        ),
        ("tcp.bytes", RULE_BYTES, tcp_bytes_dims(a), tcp_bytes),
        ("arp.value", RULE_VALUE, arp_value_dims(a), arp_value),
        (
            "arp.oversize",
            "non-trivial = a packet with a MAC >= 2^48 that was built and parsed (no-panic only)",
            arp_oversize_dims(a),
            arp_oversize,
        ),
        ("arp.bytes", RULE_BYTES, arp_bytes_dims(a), arp_bytes),
        ("dns.value", RULE_VALUE, dns_value_dims(a), dns_value),
        ("dns.rdata", RULE_VALUE, dns_rdata_dims(a), dns_rdata),
        ("dns.bytes", RULE_BYTES, dns_bytes_dims(a), dns_bytes),
        ("dhcp.value", RULE_VALUE, dhcp_value_dims(a), dhcp_value),
        ("dhcp.bytes", RULE_BYTES, dhcp_bytes_dims(a), dhcp_bytes),
    ];
    table
        .into_iter()
        .map(|(n, rule, dims, eval)| Part {
            // the dimensions are part of the name: a witness index is only meaningful with them
            name: format!("{n} {dims:?}"),
            rule,
            prod: Product::new(&dims),
            eval,
        })
        .collect()
}

fn checksums_compiled_in() -> bool {
    let mut c = VerifChecksum::new();
    c.add_u16(1);
    c.as_u16() != 0
}

pub fn run(report: &mut Report, tier: &str) {
    if checksums_compiled_in() {
        report.machinery_error(
            "C08 expects the default build (feature compute_checksum off); checksum values are C18's subject",
        );
        return;
    }
    report.assume("default build: checksum computation is compiled out, encoders write 0 and decoders compare with 0; checksum bytes are masked in encoder comparisons and zero in reference inputs (C18 covers checksum values)");
    report.assume("value domain = what the wire format can represent and the codec supports: IHL 5 / data offset 5 (no options), TOS reserved bits 0, fragment offset <= 0x1fff, payload lengths that fit the 16-bit length fields, MACs < 2^48 (larger ones only checked not to panic), DNS names without b' ', DHCP types 1..=7 and strings without NUL");
    report.assume("byte strings on which a decoder crashes instead of answering are not 'accepted' strings; crashes on malformed input are C14's subject and are not reported here");
    report.assume("etherparse 0.10 is the independent implementation of RFC 791 / 768 / 9293 (793 layout); ARP, DNS and DHCP have no external reference and are checked for round trips only");
    let a = alpha(tier);
    for p in parts(&a) {
        let total = p.prod.total();
        enumerate::run_into(
            report,
            &p.name,
            p.rule,
            total,
            |i| (p.eval)(&a, &p.prod.decode(i), &mut Trace::new(false)),
            |i| {
                let ix = p.prod.decode(i);
                let mut t = Trace::new(true);
                let _ = vkit::catch(|| (p.eval)(&a, &ix, &mut t));
                json!({"dims": ix, "input": t.lines.first().cloned().unwrap_or_default()})
            },
        );
    }
    report.set("exhaustive", json!(true));
    report.set(
        "rule",
        json!("E3: every part is the full Cartesian product of the alphabets named by its dimensions; each case runs the real Elvis encoder and/or decoder; distinct_nontrivial counts distinct header values (value parts) or distinct accepted byte strings (bytes parts)"),
    );
}

pub fn replay(w: &Value, tier: &str) -> String {
    let name = w["part"].as_str().unwrap_or("");
    let Some(index) = w["index"].as_u64() else {
        return "witness has no index".into();
    };
    for t in [tier, "quick", "thorough"] {
        let a = alpha(t);
        for p in parts(&a) {
            if p.name != name || index >= p.prod.total() {
                continue;
            }
            let ix = p.prod.decode(index);
            let mut tr = Trace::new(true);
            let res = vkit::catch(|| (p.eval)(&a, &ix, &mut tr));
            let mut s = format!("part {name} index {index} dims {ix:?}\n");
            for l in &tr.lines {
                s.push_str(l);
                s.push('\n');
            }
            match res {
                Ok(o) if o.violations.is_empty() => s.push_str("no violation: the property holds on this case"),
                Ok(o) => {
                    for v in o.violations {
                        s.push_str(&format!("VIOLATION {} : {}\n", v.signature(), v.detail));
                    }
                }
                Err(p) => s.push_str(&format!("harness panic {} at {}", p.message, p.location)),
            }
            return s;
        }
    }
    format!("unknown part {name}")
}
