//! C06 - ARP resolves an IP address to its owner's (or the gateway's) MAC.

use elvis_core::{
    message::Message,
    protocol::{DemuxError, StartError},
    protocols::{
        arp::{
            arp_parsing::{ArpPacket, Operation},
            subnetting::{Ipv4Mask, SubnetInfo},
        },
        ipv4::Ipv4Address,
        AddressPair, Arp, Pci,
    },
    run_internet_with_timeout,
    verif::Verdict,
    Control, Machine, Network, Protocol, Session, Shutdown,
};
use serde_json::json;
use std::{
    any::TypeId,
    sync::{Arc, Mutex},
    time::Duration,
};
use tokio::sync::Barrier;
use vkit::{
    sched::{self, Bounds, Scenario, KIND_FRAME},
    Report, Violation,
};

#[derive(Clone, Debug, PartialEq)]
pub enum Subnet {
    None,
    /// mask length, gateway = address of machine g
    Mask(u32, usize),
}

#[derive(Clone, Debug)]
pub struct ArpCfg {
    pub name: String,
    pub machines: usize,
    /// machines also claim a second address
    pub second_addr: bool,
    pub subnet: Subnet,
    /// address to resolve
    pub target: Ipv4Address,
    /// machine whose MAC is the right answer, None = must fail
    pub expect: Option<usize>,
    /// resolve calls issued concurrently on machine 0
    pub resolvers0: usize,
    /// machine 1 also resolves the same target
    pub resolver1: bool,
    /// the first `lossy` ARP frames get a deliver/drop choice; usize::MAX with drop_all
    pub lossy: usize,
    pub drop_all: bool,
    /// burst loss ahead of the choices: the first `n` ARP requests (false) or replies (true)
    /// are lost without a choice, so that only a late exchange of the retry budget can succeed
    pub burst: Option<(bool, usize)>,
    /// machine 2 first resolves this address itself (its request is overheard by everybody) and
    /// machine 0 starts resolving only 5 ms later
    pub overheard_first: Option<Ipv4Address>,
    /// staggered resolvers around a failure: (gap between the resolver starts on machine 0 in
    /// ms, time in ms before which every ARP frame is lost, time in ms at which the owner
    /// (machine 1) itself sends an ARP request, which machine 0 overhears)
    pub stagger: Option<(u64, u64, u64)>,
}

fn addr(m: usize, second: bool) -> Ipv4Address {
    if second {
        Ipv4Address::new([10, 0, 1, 10 + m as u8])
    } else {
        Ipv4Address::new([10, 0, 0, 10 + m as u8])
    }
}

#[derive(Debug, Clone)]
struct Res {
    machine: usize,
    idx: usize,
    t_start: Duration,
    t_end: Duration,
    result: Result<u64, ()>,
}

#[derive(Default)]
struct Book {
    res: Mutex<Vec<Res>>,
    started: Mutex<usize>,
}

struct Node {
    machine: usize,
    cfg: ArpCfg,
    book: Arc<Book>,
}

#[async_trait::async_trait]
impl Protocol for Node {
    async fn start(
        &self,
        shutdown: Shutdown,
        initialized: Arc<Barrier>,
        machine: Arc<Machine>,
    ) -> Result<(), StartError> {
        let arp = machine.protocol::<Arp>().unwrap();
        arp.listen(addr(self.machine, false));
        if self.cfg.second_addr {
            arp.listen(addr(self.machine, true));
        }
        initialized.wait().await;
        if let Some(t) = self.cfg.overheard_first {
            if self.machine == 2 {
                let mach = machine.clone();
                tokio::spawn(async move {
                    let arp = mach.protocol::<Arp>().unwrap();
                    let _ = arp
                        .resolve(
                            AddressPair {
                                local: addr(2, false),
                                remote: t,
                            },
                            0,
                            mach.clone(),
                        )
                        .await;
                });
            }
            if self.machine == 0 {
                tokio::time::sleep(Duration::from_millis(5)).await;
            }
        }
        if let Some((_, _, talk_at)) = self.cfg.stagger {
            if self.machine == 1 {
                let mach = machine.clone();
                tokio::spawn(async move {
                    tokio::time::sleep(Duration::from_millis(talk_at)).await;
                    let arp = mach.protocol::<Arp>().unwrap();
                    let _ = arp
                        .resolve(
                            AddressPair {
                                local: addr(1, false),
                                remote: addr(2, false),
                            },
                            0,
                            mach.clone(),
                        )
                        .await;
                });
            }
        }
        let n = if self.machine == 0 {
            self.cfg.resolvers0
        } else if self.machine == 1 && self.cfg.resolver1 {
            1
        } else {
            0
        };
        for i in 0..n {
            let (book, cfg, m, mach) = (self.book.clone(), self.cfg.clone(), self.machine, machine.clone());
            *book.started.lock().unwrap() += 1;
            let gap = self.cfg.stagger.map(|s| s.0).unwrap_or(0) * i as u64;
            tokio::spawn(async move {
                if gap > 0 {
                    tokio::time::sleep(Duration::from_millis(gap)).await;
                }
                let arp = mach.protocol::<Arp>().unwrap();
                let t0 = sched::vnow();
                let r = arp
                    .resolve(
                        AddressPair {
                            local: addr(m, false),
                            remote: cfg.target,
                        },
                        0,
                        mach.clone(),
                    )
                    .await;
                book.res.lock().unwrap().push(Res {
                    machine: m,
                    idx: i,
                    t_start: t0,
                    t_end: sched::vnow(),
                    result: r.map_err(|_| ()),
                });
            });
        }
        if self.machine == 0 {
            // explicit horizon: the run must not hang
            tokio::time::sleep(Duration::from_millis(3000)).await;
            shutdown.shut_down();
        }
        Ok(())
    }
    fn demux(&self, _m: Message, _c: Arc<dyn Session>, _ctl: Control, _mach: Arc<Machine>) -> Result<(), DemuxError> {
        Ok(())
    }
}

pub struct ArpSc(pub ArpCfg);

#[derive(Debug, Hash)]
pub struct ArpObs {
    results: Vec<(usize, usize, Result<u64, ()>, u64)>,
    arp_frames: usize,
}

impl Scenario for ArpSc {
    type Obs = ArpObs;
    fn name(&self) -> String {
        self.0.name.clone()
    }
    fn run(&self) -> (ArpObs, Vec<Violation>) {
        let cfg = self.0.clone();
        sched::install_rand(vec![], vec![]);
        let net = Network::basic();
        sched::register_networks(&[&net]);
        let lossy = cfg.lossy;
        let drop_all = cfg.drop_all;
        let mut seen = 0usize;
        let arp_type = TypeId::of::<Arp>();
        let burst = cfg.burst;
        let stagger = cfg.stagger;
        let mut burst_seen = 0usize;
        sched::install_wire_hooks(move |f| {
            if f.protocol != arp_type {
                return Verdict::Deliver;
            }
            if drop_all {
                return Verdict::Drop;
            }
            if let Some((_, until, _)) = stagger {
                if f.t < Duration::from_millis(until) {
                    return Verdict::Drop;
                }
            }
            if let Some((replies, n)) = burst {
                let is_reply = ArpPacket::from_bytes(f.bytes.iter().cloned())
                    .map(|p| p.oper == Operation::Reply)
                    .unwrap_or(false);
                if is_reply == replies {
                    burst_seen += 1;
                    if burst_seen <= n {
                        return Verdict::Drop;
                    }
                }
            }
            seen += 1;
            if seen <= lossy {
                if sched::choose(KIND_FRAME, 2) == 1 {
                    return Verdict::Drop;
                }
            }
            Verdict::Deliver
        });
        let book = Arc::new(Book::default());
        let mut machines = vec![];
        let mut macs = vec![];
        for m in 0..cfg.machines {
            let pci = Pci::new([net.clone()]);
            macs.push(pci.mac_addresses().next().unwrap());
            let mut arp = Arp::new();
            if m <= 1 {
                if let Subnet::Mask(bits, g) = cfg.subnet {
                    arp = arp.preconfig_subnet(
                        addr(m, false),
                        SubnetInfo {
                            mask: Ipv4Mask::from_bitcount(bits),
                            default_gateway: addr(g, false),
                        },
                    );
                }
            }
            machines.push(
                Machine::new()
                    .with(pci)
                    .with(arp)
                    .with(Node {
                        machine: m,
                        cfg: cfg.clone(),
                        book: book.clone(),
                    })
                    .arc(),
            );
        }
        sched::register_machines(&machines);
        let status = sched::block_on_paused_send(async move {
            sched::start_clock();
            run_internet_with_timeout(&machines, Duration::from_millis(4000)).await
        });
        let res = book.res.lock().unwrap().clone();
        let started = *book.started.lock().unwrap();
        let wire = sched::take_wire();
        let taps = sched::take_taps();
        let mut viols = vec![];
        if res.len() < started {
            viols.push(Violation::new(
                "terminates",
                "Arp::resolve",
                "resolve-still-pending-at-horizon",
                format!("{} of {started} resolve calls returned by t=3 s (status {status:?})", res.len()),
            ));
        }
        let expected_mac = cfg.expect.map(|m| macs[m]);
        for r in &res {
            let who = format!("machine {} call {}", r.machine, r.idx);
            match (r.result, expected_mac) {
                (Ok(mac), Some(want)) if mac != want => viols.push(Violation::new(
                    "right-owner",
                    "Arp::resolve",
                    if macs.contains(&mac) { "another-machines-mac" } else { "unknown-mac" },
                    format!("{who}: resolved {} to MAC {mac}, the owner/gateway has {want} (all {macs:?})", cfg.target),
                )),
                (Ok(mac), None) => viols.push(Violation::new(
                    "right-owner",
                    "Arp::resolve",
                    "unclaimed-address-resolved",
                    format!("{who}: nobody claims {} but it resolved to {mac}", cfg.target),
                )),
                _ => {}
            }
            if expected_mac.is_none() || cfg.drop_all {
                let limit = Duration::from_millis(2000 + 5);
                if r.result.is_err() && r.t_end.saturating_sub(r.t_start) > limit {
                    viols.push(Violation::new(
                        "bounded-failure",
                        "Arp::resolve",
                        "failure-later-than-retry-budget",
                        format!("{who}: failed after {:?}", r.t_end.saturating_sub(r.t_start)),
                    ));
                }
            }
        }
        // concurrent resolvers agree
        for m in 0..cfg.machines {
            let mine: Vec<_> = res.iter().filter(|r| r.machine == m).collect();
            if mine.len() > 1 && mine.iter().any(|r| r.result != mine[0].result) {
                viols.push(Violation::new(
                    "same-answer",
                    "Arp::resolve",
                    "concurrent-resolvers-disagree",
                    format!("machine {m}: {:?}", mine.iter().map(|r| r.result).collect::<Vec<_>>()),
                ));
            }
        }
        // success whenever one request/reply exchange got through
        if let Some(owner) = cfg.expect {
            for m in 0..cfg.machines {
                let mine: Vec<_> = res.iter().filter(|r| r.machine == m).collect();
                if mine.is_empty() {
                    continue;
                }
                // a request from m that reached the owner's tap, then a reply that reached m's tap
                let req_at_owner = taps.iter().filter(|t| t.tap_mac == macs[owner] && t.sender == macs[m]).find_map(|t| {
                    ArpPacket::from_bytes(t.bytes.iter().cloned()).ok().filter(|p| p.oper == Operation::Request).map(|_| t.t)
                });
                let reply_at_m = taps.iter().filter(|t| t.tap_mac == macs[m] && t.sender == macs[owner]).find_map(|t| {
                    ArpPacket::from_bytes(t.bytes.iter().cloned()).ok().filter(|p| p.oper == Operation::Reply).map(|_| t.t)
                });
                if req_at_owner.is_some() && reply_at_m.is_some() && mine.iter().any(|r| r.result.is_err()) {
                    viols.push(Violation::new(
                        "success-when-exchange-gets-through",
                        "Arp::resolve",
                        "error-despite-delivered-reply",
                        format!("machine {m}: request reached the owner at {req_at_owner:?}, reply arrived at {reply_at_m:?}, results {:?}", mine.iter().map(|r| r.result).collect::<Vec<_>>()),
                    ));
                }
            }
        }
        let mut results: Vec<_> = res
            .iter()
            .map(|r| (r.machine, r.idx, r.result, r.t_end.as_millis() as u64))
            .collect();
        results.sort();
        (
            ArpObs {
                results,
                arp_frames: wire.iter().filter(|f| f.protocol == arp_type).count(),
            },
            viols,
        )
    }
}

pub fn cfgs(tier: &str) -> Vec<(ArpCfg, Bounds)> {
    let q = tier == "quick";
    let k = if q { 4 } else { 6 };
    let wall = Duration::from_secs(if q { 150 } else { 900 });
    let sd = if q { 2 } else { 3 };
    let bounds = move |lossy: usize| {
        Bounds::new(lossy + sd)
            .cap(KIND_FRAME, lossy)
            .sched(sd)
            .wall(wall)
    };
    let base = ArpCfg {
        name: String::new(),
        machines: 3,
        second_addr: false,
        subnet: Subnet::None,
        target: addr(1, false),
        expect: Some(1),
        resolvers0: 1,
        resolver1: false,
        lossy: k,
        drop_all: false,
        burst: None,
        overheard_first: None,
        stagger: None,
    };
    let mut v = vec![];
    let mut add = |name: &str, f: &dyn Fn(&mut ArpCfg)| {
        let mut c = base.clone();
        f(&mut c);
        c.name = name.into();
        let b = bounds(if c.drop_all { 0 } else { c.lossy });
        v.push((c, b));
    };
    add("3 machines, resolve machine 1, no subnet, 2^k loss patterns", &|_| {});
    add("3 machines, 2 concurrent resolvers + machine 1 resolving machine 2", &|c| {
        c.target = addr(2, false);
        c.expect = Some(2);
        c.resolvers0 = 2;
        c.resolver1 = true;
        if q {
            c.lossy = 2;
        }
    });
    add("unclaimed address, 2 concurrent resolvers", &|c| {
        c.target = Ipv4Address::new([10, 0, 0, 99]);
        c.expect = None;
        c.resolvers0 = 2;
        c.lossy = 2;
    });
    add("claimed address, every ARP frame lost", &|c| {
        c.drop_all = true;
        c.lossy = 0;
        c.resolvers0 = 2;
    });
    add("/24 other subnet, gateway = machine 2", &|c| {
        c.subnet = Subnet::Mask(24, 2);
        c.target = Ipv4Address::new([10, 0, 5, 5]);
        c.expect = Some(2);
    });
    add("/24 same subnet, second addresses claimed", &|c| {
        c.subnet = Subnet::Mask(24, 2);
        c.second_addr = true;
        c.target = addr(1, false);
        c.expect = Some(1);
    });
    add("/32 subnet, gateway = machine 1, target = machine 2 which was overheard ARPing", &|c| {
        c.subnet = Subnet::Mask(32, 1);
        c.target = addr(2, false);
        c.expect = Some(1);
        c.overheard_first = Some(addr(1, false));
        c.resolvers0 = 2;
        c.lossy = 2;
    });
    // two resolvers of one address start `gap` ms apart, every ARP frame of the first one's
    // whole budget is lost, and right after it gave up the owner is overheard
    for (gap, talk) in [(100u64, 2010u64), (100, 1990), (250, 2010)] {
        add(
            &format!("staggered resolvers {gap} ms apart, all frames lost for 2 s, owner overheard at {talk} ms"),
            &|c| {
                c.resolvers0 = 2;
                c.lossy = 1;
                c.stagger = Some((gap, 2005, talk));
                c.expect = Some(1);
            },
        );
    }
    // only a late exchange of the retry budget gets through (RESEND_TRIES = 10)
    let js: Vec<usize> = if q { vec![5, 8, 9, 10] } else { (1..=11).collect() };
    for replies in [false, true] {
        for &j in &js {
            for resolvers in [1usize, 2] {
                // every resolve call runs its own retry loop, so r concurrent callers put r
                // requests (and get r replies) per round
                let n = j * resolvers;
                let name = format!(
                    "burst loss: the first {n} ARP {} lost ({j} rounds), {resolvers} resolver(s)",
                    if replies { "replies" } else { "requests" }
                );
                add(&name, &|c| {
                    c.burst = Some((replies, n));
                    c.resolvers0 = resolvers;
                    c.lossy = if q { 1 } else { 2 };
                    c.expect = Some(1);
                });
            }
        }
    }
    if !q {
        add("/0 subnet (everything local), 4 machines, 3 resolvers", &|c| {
            c.machines = 4;
            c.subnet = Subnet::Mask(0, 3);
            c.target = addr(3, false);
            c.expect = Some(3);
            c.resolvers0 = 3;
            c.lossy = 4;
        });
        add("/32 subnet with gateway = machine 1, target machine 2's second address", &|c| {
            c.subnet = Subnet::Mask(32, 1);
            c.second_addr = true;
            c.target = addr(2, true);
            c.expect = Some(1);
        });
        add("2 machines, resolve the second address of machine 1", &|c| {
            c.machines = 2;
            c.second_addr = true;
            c.target = addr(1, true);
            c.expect = Some(1);
            c.resolvers0 = 2;
        });
        add("/24 other subnet, gateway unclaimed (must fail)", &|c| {
            c.subnet = Subnet::Mask(24, 7);
            c.target = Ipv4Address::new([10, 0, 5, 5]);
            c.expect = None;
            c.lossy = 2;
        });
    }
    // the burst-loss and staggered families are many long executions (ten retry rounds each):
    // two scheduling deviations in both tiers, the third is spent on the short configurations
    for (c, b) in v.iter_mut() {
        if c.burst.is_some() || c.stagger.is_some() {
            *b = Bounds::new(c.lossy + 2).cap(KIND_FRAME, c.lossy).sched(2).wall(wall);
        }
    }
    v
}

pub fn run(report: &mut Report, tier: &str) {
    report.assume("loss patterns: every subset of the first k ARP frames (k = 4 quick, 6 thorough) is dropped, plus the all-lost case; task order / select branch within 2 deviations");
    for (cfg, b) in cfgs(tier) {
        if let Ok(f) = std::env::var("VERIF_ONLY") {
            if !cfg.name.contains(&f) {
                continue;
            }
        }
        sched::run_into(&ArpSc(cfg), &b, report);
    }
    report.set("exhaustive", json!(true));
    report.set("rule", json!("per configuration every subset of dropped frames among the first k ARP frames x every pair of scheduling deviations, each executed on the real Arp/Pci/Network under a paused clock"));
}

pub fn replay(w: &serde_json::Value, tier: &str) -> String {
    let name = w["scenario"].as_str().unwrap_or("");
    let ch: Vec<u16> = w["choices"]
        .as_array()
        .map(|a| a.iter().map(|x| x.as_u64().unwrap() as u16).collect())
        .unwrap_or_default();
    for t in ["quick", "thorough", tier] {
        for (c, _) in cfgs(t) {
            if c.name == name {
                return sched::replay(&ArpSc(c), &ch);
            }
        }
    }
    format!("unknown scenario {name}")
}
