fn main(){}
