#!/bin/bash
# Offline build of the whole harness into /verif/target (nothing under /tmp).
set -e
HERE="$(cd "$(dirname "$0")" && pwd)"
export CARGO_NET_OFFLINE=true
cd "$HERE/harness"
for c in vcore vapp vsum vloom; do
  cargo build --release --offline -p $c
done
