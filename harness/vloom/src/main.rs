//! Exhaustive thread interleavings (loom, bounded preemptions) of the socket layer's
//! lock-protected hand-offs, i.e. what two polls running at the same time on two workers
//! of a multi-thread runtime can do to each other. The schedule search of `vkit::sched`
//! works at poll granularity and cannot see these.
//!
//! usage: vloom <scenario> <max-preemptions>   -> one JSON line on stdout
//!
//! A scenario never panics on a property violation: it records the observation, so loom
//! walks every schedule and the report carries all distinct outcomes.

use elvis_core::{
    protocol::{DemuxError, NotifyType, StartError},
    protocols::{
        ipv4::{
            ipv4_parsing::{verif_build_header, Ipv4Header},
            Ipv4, Ipv4Address,
        },
        socket_api::socket::{ProtocolFamily, Socket, SocketType},
        udp::verif::build_udp_header,
        Endpoint, Endpoints, SocketAPI, Tcp, Udp,
    },
    session::SendError,
    Control, FxDashMap, IpTable, Machine, Message, Protocol, Session, Shutdown,
};
use std::{
    any::TypeId,
    collections::BTreeMap,
    future::Future,
    pin::pin,
    sync::{
        atomic::{AtomicU64, Ordering},
        Arc, Mutex,
    },
    task::{Context, Poll, RawWaker, RawWakerVTable, Waker},
};

static EXECUTIONS: AtomicU64 = AtomicU64::new(0);
static OUTCOMES: Mutex<BTreeMap<String, u64>> = Mutex::new(BTreeMap::new());
static VIOLATIONS: Mutex<BTreeMap<String, String>> = Mutex::new(BTreeMap::new());

fn outcome(s: String) {
    *OUTCOMES.lock().unwrap().entry(s).or_insert(0) += 1;
}
fn violation(sig: &str, detail: String) {
    VIOLATIONS.lock().unwrap().entry(sig.to_string()).or_insert(detail);
}

fn noop_waker() -> Waker {
    fn clone(_: *const ()) -> RawWaker {
        RawWaker::new(std::ptr::null(), &VT)
    }
    fn noop(_: *const ()) {}
    static VT: RawWakerVTable = RawWakerVTable::new(clone, noop, noop, noop);
    unsafe { Waker::from_raw(RawWaker::new(std::ptr::null(), &VT)) }
}

/// Polls a future on the calling loom thread. A pending poll yields to the other threads
/// (a wait made visible); a future that stays pending is reported, never spun on.
fn block_on<F: Future>(what: &str, f: F) -> Option<F::Output> {
    let mut f = pin!(f);
    let w = noop_waker();
    let mut cx = Context::from_waker(&w);
    for _ in 0..64 {
        if let Poll::Ready(v) = f.as_mut().poll(&mut cx) {
            return Some(v);
        }
        loom::thread::yield_now();
    }
    violation(
        &format!("harness|block_on|{what}-stays-pending"),
        "a future of the scenario never completed".into(),
    );
    None
}

struct Sink;
impl Session for Sink {
    fn send(&self, _m: Message, _machine: Arc<Machine>) -> Result<(), SendError> {
        Ok(())
    }
}

const LOCAL: Ipv4Address = Ipv4Address::new([10, 0, 0, 1]);
const REMOTE: Ipv4Address = Ipv4Address::new([10, 0, 0, 2]);

fn machine() -> (Arc<Machine>, Arc<SocketAPI>) {
    let m = Machine::new()
        .with(SocketAPI::new(Some(LOCAL)))
        .with(Tcp::new())
        .with(Udp::new())
        .with(Ipv4::new(IpTable::new()))
        .arc();
    let api = m.protocol::<SocketAPI>().unwrap();
    api.verif_init(Shutdown::new());
    (m, api)
}

fn control(local_port: u16, remote_port: u16) -> Control {
    let mut c = Control::new();
    c.insert(Endpoints::new(
        Endpoint::new(LOCAL, local_port),
        Endpoint::new(REMOTE, remote_port),
    ));
    c
}

fn listener(m: &Arc<Machine>, api: &Arc<SocketAPI>, port: u16) -> Socket {
    let mut s = block_on(
        "new_socket",
        api.new_socket(ProtocolFamily::INET, SocketType::Stream, m.clone()),
    )
    .unwrap()
    .unwrap();
    s.bind(Endpoint::new(Ipv4Address::CURRENT_NETWORK, port)).unwrap();
    s.listen(8).unwrap();
    s
}

/// Reads whatever is queued on an accepted socket, one byte at a time so that nothing of
/// the order is hidden by the assembly in `recv`.
fn drain(sock: &mut Socket, want: usize) -> Vec<u8> {
    sock.set_blocking(false);
    let mut got = vec![];
    for _ in 0..want + 2 {
        let r = block_on("recv", sock.recv(1));
        if std::env::var("VLOOM_DEBUG").is_ok() {
            eprintln!("recv -> {r:?}");
        }
        match r {
            Some(Ok(b)) if !b.is_empty() => got.extend(b),
            _ => break,
        }
    }
    got
}

/// The TCP flow around `accept()`: the connection is announced (notify), then `before`
/// messages arrive, then the application's accept runs on one worker while the
/// connection's task delivers `during` more messages on another.
fn accept_vs_deliver(before: u8, during: u8, announce: bool) {
    let (m, api) = machine();
    let mut lst = listener(&m, &api, 80);
    let sink: Arc<dyn Session> = Arc::new(Sink);
    if announce {
        api.notify(NotifyType::NewConnection, sink.clone(), control(80, 5000));
    }
    let mut next = 1u8;
    for _ in 0..before {
        let _ = api.demux(Message::new(vec![next]), sink.clone(), control(80, 5000), m.clone());
        next += 1;
    }
    let expect: Vec<u8> = (1..=before + during).collect();
    let deliver = {
        let (api, m, sink) = (api.clone(), m.clone(), sink.clone());
        loom::thread::spawn(move || {
            let mut results = vec![];
            for i in 0..during {
                let r = api.demux(
                    Message::new(vec![next + i]),
                    sink.clone(),
                    control(80, 5000),
                    m.clone(),
                );
                results.push(r.is_ok());
            }
            results
        })
    };
    let accepted = block_on("accept", lst.accept());
    let delivered = deliver.join().unwrap();
    let Some(accepted) = accepted else { return };
    let mut sock = match accepted {
        Ok(s) => s,
        Err(e) => {
            outcome(format!("accept-error:{e:?}"));
            violation(
                "stream-order-across-accept|Socket::accept|accept-failed",
                format!("accept returned {e:?} although a connection was announced"),
            );
            return;
        }
    };
    let got = drain(&mut sock, expect.len());
    outcome(format!("{got:?}/{delivered:?}"));
    // every message the socket layer accepted (Ok from demux) must come out, in order
    let accepted_bytes: Vec<u8> = expect
        .iter()
        .copied()
        .filter(|b| *b <= before || delivered[(*b - before - 1) as usize])
        .collect();
    if got != accepted_bytes {
        let kind = {
            let mut s = got.clone();
            s.sort();
            if s == accepted_bytes {
                "reordered"
            } else if got.len() < accepted_bytes.len() {
                "bytes-lost"
            } else {
                "bytes-differ"
            }
        };
        violation(
            &format!("stream-order-across-accept|SocketSession::receive_stored_messages|{kind}"),
            format!(
                "before={before} during={during} announce={announce}: delivered to the socket layer {accepted_bytes:?}, read {got:?}"
            ),
        );
    }
}

/// `n` workers pick an ephemeral port for a socket of the same machine at the same time.
fn ephemeral(n: usize) {
    let (_m, api) = machine();
    let hs: Vec<_> = (0..n)
        .map(|_| {
            let api = api.clone();
            loom::thread::spawn(move || api.verif_ephemeral_port())
        })
        .collect();
    let mut ports: Vec<u16> = hs.into_iter().map(|h| h.join().unwrap()).collect();
    ports.sort();
    outcome(format!("{ports:?}"));
    let mut d = ports.clone();
    d.dedup();
    if d.len() != ports.len() {
        violation(
            "worker-count-independence|SocketAPI::get_ephemeral_port|same-port-for-two-sockets",
            format!("{n} concurrent sockets of one machine were given the ports {ports:?}"),
        );
    }
}

// ---------------------------------------------------------------------------------------------
// UDP listen table (DashMap shard locks are loom's in this build, see vendor/dashmap)

macro_rules! recorder {
    ($name:ident, $tag:expr) => {
        struct $name(Arc<Mutex<Vec<(u8, Vec<u8>)>>>);
        #[async_trait::async_trait]
        impl Protocol for $name {
            async fn start(
                &self,
                _s: Shutdown,
                _b: Arc<tokio::sync::Barrier>,
                _m: Arc<Machine>,
            ) -> Result<(), StartError> {
                Ok(())
            }
            fn demux(
                &self,
                m: Message,
                _c: Arc<dyn Session>,
                _ctl: Control,
                _mach: Arc<Machine>,
            ) -> Result<(), DemuxError> {
                self.0.lock().unwrap().push(($tag, m.to_vec()));
                Ok(())
            }
        }
    };
}
recorder!(RecExact, 0);
recorder!(RecWild, 1);
recorder!(RecOther, 2);

/// Ports whose (LOCAL, port) key lives in the same DashMap shard as `key`, found with the
/// public API: while an entry of `key` is held, `try_get` of a key of the same shard reports
/// "locked". Run once per process in a one-thread model execution.
fn same_shard_ports(key: Endpoint, want: usize) -> Vec<u16> {
    let out = Arc::new(Mutex::new(vec![]));
    let o2 = out.clone();
    loom::model(move || {
        let m: FxDashMap<Endpoint, TypeId> = Default::default();
        let held = m.entry(key);
        let mut v = vec![];
        for p in 5000u16..9000 {
            if m.try_get(&Endpoint::new(LOCAL, p)).is_locked() {
                v.push(p);
                if v.len() == want {
                    break;
                }
            }
        }
        drop(held);
        *o2.lock().unwrap() = v;
    });
    let v = out.lock().unwrap().clone();
    v
}

fn datagram(dst: Endpoint, payload: &[u8]) -> (Message, Control) {
    let src = Endpoint::new(REMOTE, 777);
    let mut bytes = build_udp_header(
        src.address,
        src.port,
        dst.address,
        dst.port,
        payload.iter().cloned(),
        payload.len(),
    )
    .unwrap();
    bytes.extend_from_slice(payload);
    let ip = verif_build_header(src.address, dst.address, 17, bytes.len() as u16, None, None, None, None)
        .unwrap();
    let mut c = Control::new();
    c.insert(Ipv4Header::from_bytes(ip.into_iter()).unwrap());
    (Message::new(bytes), c)
}

/// One worker binds `binds` further endpoints (all in the shard of the looked-up key, or of
/// the wildcard key) while another demultiplexes `dgrams` datagrams for an endpoint that has
/// been bound all along. Every datagram must reach the exact binding.
fn udp_bind_vs_demux(binds: usize, dgrams: u8, wildcard: bool, ports: &(Vec<u16>, Vec<u16>)) {
    let log = Arc::new(Mutex::new(vec![]));
    let m = Machine::new()
        .with(Udp::new())
        .with(Ipv4::new(IpTable::new()))
        .with(RecExact(log.clone()))
        .with(RecWild(log.clone()))
        .with(RecOther(log.clone()))
        .arc();
    let udp = m.protocol::<Udp>().unwrap();
    let exact = Endpoint::new(LOCAL, 4000);
    udp.listen(TypeId::of::<RecExact>(), exact, m.clone()).unwrap();
    if wildcard {
        udp.listen(
            TypeId::of::<RecWild>(),
            Endpoint::new(Ipv4Address::CURRENT_NETWORK, 4000),
            m.clone(),
        )
        .unwrap();
    }
    // half of the new bindings collide with the exact key's shard, half with the wildcard's
    let mut new_ports: Vec<u16> = vec![];
    for i in 0..binds {
        let src = if i % 2 == 0 { &ports.0 } else { &ports.1 };
        new_ports.push(src[i / 2]);
    }
    let binder = {
        let (udp, m) = (udp.clone(), m.clone());
        loom::thread::spawn(move || {
            for p in new_ports {
                let _ = udp.listen(TypeId::of::<RecOther>(), Endpoint::new(LOCAL, p), m.clone());
            }
        })
    };
    let sink: Arc<dyn Session> = Arc::new(Sink);
    let mut results = vec![];
    for i in 0..dgrams {
        let (msg, ctl) = datagram(exact, &[i + 1]);
        results.push(udp.demux(msg, sink.clone(), ctl, m.clone()).is_ok());
    }
    binder.join().unwrap();
    let got = log.lock().unwrap().clone();
    outcome(format!("{got:?}/{results:?}"));
    let want: Vec<(u8, Vec<u8>)> = (0..dgrams).map(|i| (0u8, vec![i + 1])).collect();
    if got != want {
        let kind = if got.iter().any(|g| g.0 == 1) {
            "wildcard-listener-got-a-datagram-of-the-exact-binding"
        } else if got.iter().any(|g| g.0 == 2) {
            "delivered-to-another-port"
        } else {
            "datagram-for-a-bound-endpoint-dropped"
        };
        violation(
            &format!("exact-listener|Udp::demux|{kind}"),
            format!("binds={binds} datagrams={dgrams} wildcard={wildcard}: deliveries {got:?}, demux results {results:?}"),
        );
    }
}

/// Polls a future a bounded number of times; None if it stays pending (not an error here).
fn poll_some<F: Future>(f: F) -> Option<F::Output> {
    let mut f = pin!(f);
    let w = noop_waker();
    let mut cx = Context::from_waker(&w);
    for _ in 0..8 {
        if let Poll::Ready(v) = f.as_mut().poll(&mut cx) {
            return Some(v);
        }
        loom::thread::yield_now();
    }
    None
}

/// Two sockets of one machine bind and listen on the same endpoint at the same time; then a
/// datagram (or a connection) for that endpoint arrives. At most one bind may succeed and the
/// application whose bind succeeded is the one that sees the arrival.
fn socket_double_bind(kind: SocketType) {
    let kind_name = if matches!(kind, SocketType::Stream) { "stream" } else { "datagram" };
    let (m, api) = machine();
    let ep = Endpoint::new(Ipv4Address::CURRENT_NETWORK, 80);
    let mk = || {
        let mut s = block_on("new_socket", api.new_socket(ProtocolFamily::INET, kind, m.clone()))
            .unwrap()
            .unwrap();
        s.bind(ep).unwrap();
        s
    };
    let (mut s1, mut s2) = (mk(), mk());
    let t = loom::thread::spawn(move || {
        let ok = s2.listen(4).is_ok();
        (s2, ok)
    });
    let ok1 = s1.listen(4).is_ok();
    let (mut s2, ok2) = t.join().unwrap();
    // an arrival for the endpoint
    let sink: Arc<dyn Session> = Arc::new(Sink);
    let _ = api.demux(Message::new(vec![7u8]), sink, control(80, 5000), m.clone());
    // an application's accept() may panic on a socket whose binding was taken from under it
    let mut try_accept = |s: &mut Socket| -> (bool, bool) {
        match std::panic::catch_unwind(std::panic::AssertUnwindSafe(|| poll_some(s.accept()))) {
            Ok(r) => (r.map(|r| r.is_ok()).unwrap_or(false), false),
            Err(_) => (false, true),
        }
    };
    let (a1, p1) = try_accept(&mut s1);
    let (a2, p2) = try_accept(&mut s2);
    outcome(format!("listen {ok1}/{ok2} accept {a1}/{a2} panics {p1}/{p2}"));
    if (ok1 && p1) || (ok2 && p2) {
        violation(
            "exact-listener|SocketAPI::listen|accept-panics-on-the-socket-whose-bind-succeeded",
            format!("{kind_name}: listen results {ok1}/{ok2}; accept() on the bound socket panicked ({p1}/{p2}): its binding was overwritten by the refused one"),
        );
    }
    if ok1 && ok2 {
        violation(
            "duplicate-bind-refused|SocketAPI::listen|both-concurrent-binds-accepted",
            format!("{kind_name}: two sockets bound to the same endpoint both listen successfully (accepts: {a1}/{a2})"),
        );
    } else if (ok1 && !a1) || (ok2 && !a2) {
        violation(
            "exact-listener|SocketAPI::listen|bound-socket-does-not-see-the-arrival",
            format!("{kind_name}: listen results {ok1}/{ok2}, but the arrival was accepted by {a1}/{a2}"),
        );
    } else if !ok1 && !ok2 {
        violation(
            "duplicate-bind-refused|SocketAPI::listen|both-concurrent-binds-refused",
            format!("{kind_name}: neither socket could bind a free endpoint"),
        );
    }
}

// ---------------------------------------------------------------------------------------------
// DHCP server (its lock is loom's under the elvis crate's feature verif_loom)

struct Catch(Arc<Mutex<Vec<Vec<u8>>>>);
impl Session for Catch {
    fn send(&self, m: Message, _machine: Arc<Machine>) -> Result<(), SendError> {
        self.0.lock().unwrap().push(m.to_vec());
        Ok(())
    }
}

/// `n` clients' Discover messages are handled by the server at the same time, then one
/// client releases and discovers again. Offers come from the pool and no address is on
/// offer to two clients at once.
fn dhcp_discover(n: usize) {
    use elvis::{applications::DhcpServer, ip_generator::IpRange};
    use elvis_core::protocols::dhcp::dhcp_parsing::{DhcpMessage, MessageType};
    let server = Arc::new(DhcpServer::new(
        Ipv4Address::new([10, 0, 0, 1]),
        IpRange::new(Ipv4Address::new([10, 0, 0, 10]), Ipv4Address::new([10, 0, 0, 13])),
    ));
    let m = Machine::new().arc();
    let discover = || {
        let mut d = DhcpMessage::default();
        d.op = 1;
        d.msg_type = MessageType::Discover;
        DhcpMessage::to_message(d).unwrap()
    };
    let hs: Vec<_> = (0..n)
        .map(|_| {
            let (server, m, msg) = (server.clone(), m.clone(), discover());
            loom::thread::spawn(move || {
                let got = Arc::new(Mutex::new(vec![]));
                let caller: Arc<dyn Session> = Arc::new(Catch(got.clone()));
                let r = server.demux(msg, caller, Control::new(), m);
                let replies = got.lock().unwrap().clone();
                (r.is_ok(), replies)
            })
        })
        .collect();
    let mut offers: Vec<[u8; 4]> = vec![];
    for h in hs {
        let (ok, replies) = h.join().unwrap();
        if !ok || replies.len() != 1 {
            violation(
                "dhcp-distinct-leases|DhcpServer::demux|discover-not-answered",
                format!("a Discover with free addresses left got ok={ok} and {} replies", replies.len()),
            );
            return;
        }
        match DhcpMessage::from_bytes(replies[0].iter().cloned()) {
            Ok(o) => offers.push(o.your_ip.to_bytes()),
            Err(e) => {
                violation(
                    "dhcp-distinct-leases|DhcpServer::demux|offer-does-not-decode",
                    format!("{e:?}"),
                );
                return;
            }
        }
    }
    let mut sorted = offers.clone();
    sorted.sort();
    outcome(format!("{sorted:?}"));
    let mut d = sorted.clone();
    d.dedup();
    if d.len() != sorted.len() {
        violation(
            "dhcp-distinct-leases|DhcpServer::demux|same-address-offered-to-two-clients",
            format!("{n} Discovers handled at the same time were offered {offers:?}"),
        );
    }
    if let Some(o) = sorted.iter().find(|o| !(o[..3] == [10, 0, 0] && (10..=13).contains(&o[3]))) {
        violation(
            "dhcp-distinct-leases|DhcpServer::demux|offer-outside-the-pool",
            format!("{o:?} is not in 10.0.0.10-13"),
        );
    }
}

// ---------------------------------------------------------------------------------------------
// Shutdown: the status of the first request wins

/// One worker requests Status(1); `reactors` others wait for the broadcast of a request and
/// only then request Status(2), Status(3), ... Whatever the interleaving, the status recorded
/// as first (what `run_internet` returns) is Status(1): every other request was caused by it.
fn shutdown_first(reactors: usize) {
    use elvis_core::ExitStatus;
    let sd = Shutdown::new();
    let mut hs = vec![];
    for k in 0..reactors {
        let (sd, mut rx) = (sd.clone(), sd.receiver());
        hs.push(loom::thread::spawn(move || {
            for _ in 0..64 {
                if rx.try_recv().is_ok() {
                    sd.shut_down_with_status(ExitStatus::Status(2 + k as u32));
                    return true;
                }
                loom::thread::yield_now();
            }
            false
        }));
    }
    sd.shut_down_with_status(ExitStatus::Status(1));
    let reacted: Vec<bool> = hs.into_iter().map(|h| h.join().unwrap()).collect();
    let first = sd.verif_first_status();
    outcome(format!("{first:?}/{reacted:?}"));
    if first != Some(ExitStatus::Status(1)) {
        violation(
            "first-request-wins|Shutdown::shut_down_with_status|reaction-recorded-as-first",
            format!("Status(1) was requested first, every other request reacted to its broadcast, yet the recorded first status is {first:?}"),
        );
    }
}

fn main() {
    let a: Vec<String> = std::env::args().collect();
    let (scenario, bound) = (a[1].clone(), a[2].parse::<usize>().unwrap());
    let mut b = loom::model::Builder::new();
    b.preemption_bound = if bound == 0 { None } else { Some(bound) };
    b.max_branches = 100_000;
    let sc = scenario.clone();
    let ports = if scenario.starts_with("udp:") {
        (
            same_shard_ports(Endpoint::new(LOCAL, 4000), 4),
            same_shard_ports(Endpoint::new(Ipv4Address::CURRENT_NETWORK, 4000), 4),
        )
    } else {
        (vec![], vec![])
    };
    let r = std::panic::catch_unwind(move || {
        b.check(move || {
            EXECUTIONS.fetch_add(1, Ordering::Relaxed);
            let p: Vec<&str> = sc.split(':').collect();
            match p[0] {
                "accept" => accept_vs_deliver(
                    p[1].parse().unwrap(),
                    p[2].parse().unwrap(),
                    p[3] == "announce",
                ),
                "ephemeral" => ephemeral(p[1].parse().unwrap()),
                "dhcp" => dhcp_discover(p[1].parse().unwrap()),
                "shutdown" => shutdown_first(p[1].parse().unwrap()),
                "udp" => udp_bind_vs_demux(
                    p[1].parse().unwrap(),
                    p[2].parse().unwrap(),
                    p[3] == "wild",
                    &ports,
                ),
                "sockbind" => socket_double_bind(if p[1] == "stream" {
                    SocketType::Stream
                } else {
                    SocketType::Datagram
                }),
                _ => panic!("unknown scenario"),
            }
        })
    });
    let panic = r.err().map(|e| {
        e.downcast_ref::<String>()
            .cloned()
            .or_else(|| e.downcast_ref::<&str>().map(|s| s.to_string()))
            .unwrap_or_else(|| "panic".into())
    });
    let out = serde_json::json!({
        "scenario": scenario,
        "preemption_bound": bound,
        "executions": EXECUTIONS.load(Ordering::Relaxed),
        "outcomes": *OUTCOMES.lock().unwrap(),
        "violations": *VIOLATIONS.lock().unwrap(),
        "panic": panic,
    });
    println!("{out}");
}
