//! C17 - A TCP endpoint withstands arbitrary segments from its peer address.
//!
//! Victim states are all states of a fault-free two-endpoint model (every status, with and
//! without queued data). From each of them one attacker segment of a full field-alphabet product
//! is injected into one endpoint; the distinct resulting states are then continued with the
//! legitimate peer.

use crate::tcpmodel::*;
use elvis_core::{
    protocols::tcp::verif::{
        mod_geq, mod_leq, mod_lt, Segment, State, TcpHeaderBuilder, VerifSnapshot,
    },
    Message,
};
use serde_json::{json, Value};
use std::{collections::BTreeMap, sync::Mutex};
use vkit::{
    enumerate::{self, CaseOutcome, Product},
    key128,
    search::{self, Limits, Model},
    Report, Violation,
};

struct Collector {
    cfg: Cfg,
    name: String,
    out: Mutex<Vec<(u128, Sys)>>,
}

impl Model for Collector {
    type State = Sys;
    type Action = Act;
    fn name(&self) -> String {
        self.name.clone()
    }
    fn init(&self) -> Vec<Sys> {
        vec![Sys::new(&self.cfg)]
    }
    fn actions(&self, s: &Sys) -> Vec<Act> {
        s.actions(&self.cfg)
    }
    fn step(&self, s: &Sys, a: &Act) -> Result<Sys, Violation> {
        let mut n = s.clone();
        guarded(|| {
            n.apply(&self.cfg, a);
        })?;
        Ok(n)
    }
    fn key(&self, s: &Sys) -> u128 {
        key128(&s.canon())
    }
    fn check(&self, s: &Sys) -> Vec<Violation> {
        self.out.lock().unwrap().push((self.key(s), s.clone()));
        vec![]
    }
    fn describe(&self, s: &Sys) -> String {
        s.describe()
    }
}

/// `set` is "quick" (one write, FIFO network) or "thorough" (writes on both sides, any
/// in-flight segment may be delivered next, so out-of-order queues are populated).
pub fn victim_cfg(set: &str) -> Cfg {
    // "-rev": the initial sequence numbers the other way round, so that each side is once the
    // endpoint whose own numbers are (circularly) above its peer's
    let rev = set.ends_with("-rev");
    let base = set.trim_end_matches("-rev");
    // both in the upper half of the sequence space as well, where comparisons against a zero
    // acknowledgment field (bare SYN) come out the other way
    let mut c = if rev {
        Cfg::basic(100, 0xA000_0000, 0x9000_0000)
    } else {
        Cfg::basic(100, 100, 300)
    };
    c.writes = if base == "quick" {
        [vec![2], vec![]]
    } else {
        [vec![2], vec![1]]
    };
    c.closes = [true, true];
    c.ticks = [0, 0];
    c.reorder = base != "quick";
    c
}

pub fn victims(tier: &str, report: &mut Report) -> Vec<Sys> {
    let m = Collector {
        cfg: victim_cfg(tier),
        name: format!("victim states ({tier}): fault-free model with closes"),
        out: Mutex::new(vec![]),
    };
    search::run_into(&m, &Limits::default(), report);
    let mut v = m.out.into_inner().unwrap();
    v.sort_by_key(|x| x.0);
    v.into_iter().map(|x| x.1).collect()
}

const SEQS: usize = 8;

/// Which values of each field dimension an enumeration uses (indices into the value tables of
/// [`attack_segment`]; flags are the raw control byte).
#[derive(Clone, Debug)]
pub struct Alphabet {
    pub name: &'static str,
    pub flags: Vec<u8>,
    pub seqs: Vec<usize>,
    pub acks: Vec<usize>,
    pub wnds: Vec<usize>,
    pub lens: Vec<usize>,
}

impl Alphabet {
    pub fn full() -> Self {
        Self {
            name: "full: 64 flag sets x 8 seq x 6 ack x 4 wnd x 3 len",
            flags: (0..64).collect(),
            seqs: (0..8).collect(),
            acks: (0..6).collect(),
            wnds: (0..4).collect(),
            lens: (0..3).collect(),
        }
    }
    /// FIN=1 SYN=2 RST=4 PSH=8 ACK=16 URG=32
    pub fn reduced() -> Self {
        Self {
            name: "reduced: 16 flag sets x 4 seq x 3 ack x 4 wnd x 3 len",
            flags: vec![0, 1, 2, 4, 16, 17, 18, 20, 24, 19, 21, 22, 3, 5, 48, 63],
            seqs: vec![0, 1, 3, 4],
            acks: vec![1, 2, 4],
            wnds: (0..4).collect(),
            lens: (0..3).collect(),
        }
    }
    pub fn second() -> Self {
        Self {
            name: "second: 8 flag sets x 3 seq x 2 ack x 2 wnd x 2 len",
            flags: vec![16, 17, 18, 20, 24, 1, 4, 2],
            seqs: vec![1, 2, 3],
            acks: vec![2, 3],
            wnds: vec![0, 3],
            lens: vec![0, 1],
        }
    }
    pub fn dims(&self) -> Vec<usize> {
        vec![
            self.flags.len(),
            self.seqs.len(),
            self.acks.len(),
            self.wnds.len(),
            self.lens.len(),
        ]
    }
    /// Maps enumeration indices to value-table indices.
    pub fn resolve(&self, ix: &[usize]) -> [usize; 5] {
        [
            self.flags[ix[0]] as usize,
            self.seqs[ix[1]],
            self.acks[ix[2]],
            self.wnds[ix[3]],
            self.lens[ix[4]],
        ]
    }
}

/// The attacker segment number `ix` of the alphabet, relative to the victim's snapshot.
pub fn attack_segment(sn: &VerifSnapshot, side: usize, ix: &[usize]) -> Segment {
    let (flags, si, ai, wi, li) = (ix[0] as u8, ix[1], ix[2], ix[3], ix[4]);
    let w = sn.rcv_wnd as u32;
    let seq = match si {
        0 => sn.rcv_nxt.wrapping_sub(1),
        1 => sn.rcv_nxt,
        2 => sn.rcv_nxt.wrapping_add(1),
        3 => sn.rcv_nxt.wrapping_add(w).wrapping_sub(1),
        4 => sn.rcv_nxt.wrapping_add(w),
        5 => sn.rcv_nxt.wrapping_add(w).wrapping_add(1),
        6 => sn.rcv_nxt.wrapping_add((1 << 31) - 1),
        _ => sn.irs,
    };
    let ack = match ai {
        0 => sn.snd_una.wrapping_sub(1),
        1 => sn.snd_una,
        2 => sn.snd_una.wrapping_add(1),
        3 => sn.snd_nxt,
        4 => sn.snd_nxt.wrapping_add(1),
        _ => sn.snd_nxt.wrapping_add((1 << 31) - 1),
    };
    let wnd = match wi {
        0 => 0,
        1 => 1,
        2 => sn.snd_wnd.wrapping_sub(1),
        _ => 65535,
    };
    let mss = (sn.mtu - 50) as usize;
    let len = match li {
        0 => 0,
        1 => 1,
        _ => mss,
    };
    let text: Vec<u8> = (0..len).map(|i| 0xE0u8.wrapping_add((i % 16) as u8)).collect();
    // the peer of `side` is the claimed sender
    let e = ends(1 - side);
    let mut h = TcpHeaderBuilder::new(e.local.port, e.remote.port, seq)
        .wnd(wnd)
        .build(
            e.local.address,
            e.remote.address,
            text.iter().cloned(),
            text.len(),
        )
        .unwrap();
    h.ack = ack;
    h.ctl = flags.into();
    Segment::new(h, Message::new(text))
}

/// RFC 9293 table 6 on the snapshot taken before the arrival.
pub fn acceptable(sn: &VerifSnapshot, seg: &Segment) -> bool {
    let c = seg.header.ctl;
    let len = seg.text.len() as u32 + c.syn() as u32 + c.fin() as u32;
    let seq = seg.header.seq;
    let w = sn.rcv_wnd as u32;
    let in_win = |x: u32| {
        (x == sn.rcv_nxt || mod_lt(sn.rcv_nxt, x)) && mod_lt(x, sn.rcv_nxt.wrapping_add(w))
    };
    match (len, w) {
        (0, 0) => seq == sn.rcv_nxt,
        (0, _) => in_win(seq),
        (_, 0) => false,
        _ => in_win(seq) || in_win(seq.wrapping_add(len).wrapping_sub(1)),
    }
}

/// Must the victim treat this segment as "cannot alter data or state"?
fn must_be_inert(sn: &VerifSnapshot, seg: &Segment) -> bool {
    if sn.state == State::SynSent {
        let c = seg.header.ctl;
        return !c.syn() && !c.rst();
    }
    !acceptable(sn, seg)
}

/// Reference send-window tracker (RFC 9293 3.10.7.3 / 3.10.7.4): the window the peer has last
/// validly advertised after this arrival, given the one recorded before. `None` means that no
/// ACK-bearing advertisement exists yet, so no right edge is defined.
fn ref_window_after(sn: &VerifSnapshot, seg: &Segment) -> Option<u16> {
    let h = &seg.header;
    let before = if matches!(sn.state, State::SynSent | State::SynReceived) {
        None
    } else {
        Some(sn.snd_wnd)
    };
    if !h.ctl.ack() {
        return before;
    }
    match sn.state {
        State::SynSent => {
            // a SYN,ACK that acknowledges our SYN sets the window
            if h.ctl.syn() && !h.ctl.rst() && mod_lt(sn.snd_una, h.ack) && mod_leq(h.ack, sn.snd_nxt) {
                Some(h.wnd)
            } else {
                None
            }
        }
        State::SynReceived => {
            if acceptable(sn, seg) && mod_lt(sn.snd_una, h.ack) && mod_leq(h.ack, sn.snd_nxt) {
                Some(h.wnd)
            } else {
                None
            }
        }
        _ => {
            let ack_ok = mod_leq(sn.snd_una, h.ack) && mod_leq(h.ack, sn.snd_nxt);
            if acceptable(sn, seg)
                && ack_ok
                && (mod_lt(sn.snd_wl1, h.seq)
                    || (sn.snd_wl1 == h.seq && mod_leq(sn.snd_wl2, h.ack)))
            {
                Some(h.wnd)
            } else {
                before
            }
        }
    }
}

/// Why the implementation may have treated a table-6-unacceptable segment as acceptable.
fn inert_class(sn: &VerifSnapshot, seg: &Segment) -> &'static str {
    if sn.state == State::SynSent {
        return "syn-sent-without-syn-or-rst";
    }
    let c = seg.header.ctl;
    let len = seg.text.len() as u32 + c.syn() as u32 + c.fin() as u32;
    let seq = seg.header.seq;
    let last = seq.wrapping_add(len.max(1)).wrapping_sub(1);
    let below = sn.rcv_nxt.wrapping_sub(1);
    if sn.rcv_wnd != 0 && (seq == below || last == below) {
        // Elvis uses RCV.NXT-1 as the lower window edge (draft-gont-tcpm-tcp-seq-validation)
        "seq-one-below-window"
    } else if mod_lt(seq, sn.rcv_nxt) {
        "below-window"
    } else {
        "beyond-window"
    }
}

/// The window the peer last advertised after `seg`, decided without the endpoint's own
/// SND.WL1/SND.WL2 bookkeeping (which a defect may have corrupted): an acceptable segment that
/// starts exactly at RCV.NXT and acknowledges something in [SND.UNA, SND.NXT] is at least as
/// new as anything processed before, so RFC 9293 3.10.7.4 must take its window; a segment that
/// cannot update (no ACK, unacceptable, bad ACK) leaves the previous one. Anything else is
/// undetermined (None): an old but still acceptable segment, or one that starts beyond RCV.NXT,
/// which is held for in-order processing and whose window takes effect only then.
fn independent_window_after(sn: &VerifSnapshot, seg: &Segment) -> Option<u16> {
    if sn.state != State::Established {
        return None;
    }
    // segments of the legitimate peer waiting behind a hole are processed in the same call
    // once the injected segment fills it, and the last of *them* sets the window
    if sn.incoming_ack_segments != 0 {
        return None;
    }
    let h = &seg.header;
    if h.ctl.rst() || h.ctl.syn() {
        return None;
    }
    if !h.ctl.ack() || !acceptable(sn, seg) {
        return Some(sn.snd_wnd);
    }
    let ack_ok = mod_leq(sn.snd_una, h.ack) && mod_leq(h.ack, sn.snd_nxt);
    if !ack_ok {
        return Some(sn.snd_wnd);
    }
    if h.seq == sn.rcv_nxt {
        Some(h.wnd)
    } else {
        None
    }
}

struct InjectOutcome {
    key: Option<u128>,
    after: Option<Sys>,
    violations: Vec<Violation>,
    inert: bool,
    /// see [`independent_window_after`]
    wnd_ref: Option<u16>,
}

fn flags_class(flags: u8) -> String {
    let c: elvis_core::protocols::tcp::verif::Control = flags.into();
    let mut s = String::new();
    for (b, n) in [
        (c.syn(), "S"),
        (c.ack(), "A"),
        (c.fin(), "F"),
        (c.rst(), "R"),
    ] {
        if b {
            s.push_str(n);
        }
    }
    if s.is_empty() {
        s.push('-');
    }
    s
}

const SEQ_NAMES: [&str; SEQS] = [
    "nxt-1", "nxt", "nxt+1", "edge-1", "edge", "edge+1", "nxt+2^31-1", "irs",
];

fn inject(cfg: &Cfg, victim: &Sys, side: usize, ix: &[usize]) -> InjectOutcome {
    let sn = victim.side[side].snap().unwrap();
    let seg = attack_segment(&sn, side, ix);
    let inert = must_be_inert(&sn, &seg);
    let wnd_ref = independent_window_after(&sn, &seg);
    let mut n = victim.clone();
    let read_before = n.side[side].read.len();
    let nxt_before = sn.snd_nxt;
    let mut violations = vec![];
    let seg2 = seg.clone();
    let r = guarded(|| {
        let info = n.deliver_to(cfg, side, seg2);
        let out = n.flush(side);
        n.read(side);
        (info, out)
    });
    let (info, out) = match r {
        Ok(x) => x,
        Err(v) => {
            return InjectOutcome {
                key: None,
                after: None,
                violations: vec![v],
                inert,
                wnd_ref,
            }
        }
    };
    let what = format!(
        "victim {} in {:?}, segment {} (flags {} seq {} ack#{} wnd#{} len#{})",
        if side == A { "A" } else { "B" },
        sn.state,
        render_seg(&seg),
        flags_class(ix[0] as u8),
        SEQ_NAMES[ix[1]],
        ix[2],
        ix[3],
        ix[4]
    );
    // window: first transmissions stay inside the window the peer last validly advertised
    // the independent reference where it decides, else the RFC rule over the recorded WL1/WL2
    if let (Some(wnd_ref), Some(sa)) = (wnd_ref.or_else(|| ref_window_after(&sn, &seg)), n.side[side].snap()) {
        for s in &out {
            let l = s.text.len() as u32;
            if l == 0 || !mod_geq(s.header.seq, nxt_before) {
                continue;
            }
            let right = sa.snd_una.wrapping_add(wnd_ref as u32);
            let end = s.header.seq.wrapping_add(l);
            if !(end == right || mod_lt(end, right)) {
                violations.push(Violation::new(
                    "send-window",
                    "Tcb::segments",
                    "new-data-beyond-advertised-window",
                    format!("{what}: sent {} beyond una {} + wnd {}", render_seg(s), sa.snd_una, wnd_ref),
                ));
            }
        }
    }
    if inert {
        let d = inert_class(&sn, &seg);
        let after = n.side[side].snap();
        match after {
            None => violations.push(Violation::new(
                "unacceptable-segment-inert",
                "Tcb::segment_arrives",
                &format!("tcb-released-{d}"),
                format!("{what}: the TCB was released ({:?})", info.after),
            )),
            Some(sa) => {
                if sa.state != sn.state {
                    violations.push(Violation::new(
                        "unacceptable-segment-inert",
                        "Tcb::segment_arrives",
                        &format!("state-changed-{d}"),
                        format!("{what}: state {:?} -> {:?}", sn.state, sa.state),
                    ));
                }
                if n.side[side].read.len() != read_before || sa.incoming_text != sn.incoming_text {
                    violations.push(Violation::new(
                        "unacceptable-segment-inert",
                        "Tcb::segment_arrives",
                        &format!("data-delivered-{d}"),
                        format!(
                            "{what}: read {} -> {}, readable {} -> {}",
                            read_before,
                            n.side[side].read.len(),
                            sn.incoming_text,
                            sa.incoming_text
                        ),
                    ));
                }
            }
        }
    }
    // RFC 9293 3.10.7.4, SYN-RECEIVED: the segment whose ACK moves the endpoint to ESTABLISHED
    // sets SND.WND unconditionally - whatever rule made the endpoint accept it
    let wnd_ref = match (sn.state, n.side[side].snap().map(|x| x.state)) {
        // (the SYN itself, with its SYN and ACK bits cleared, waits in the queue of a passively
        // opened endpoint; it carries no acknowledgment and cannot set a window)
        (State::SynReceived, Some(State::Established)) if seg.header.ctl.ack() && sn.incoming_ack_segments == 0 => {
            Some(seg.header.wnd)
        }
        _ => wnd_ref,
    };
    InjectOutcome {
        wnd_ref,
        key: Some(key128(&n.canon())),
        after: Some(n),
        violations,
        inert,
    }
}

/// Continues a post-injection state with the legitimate peer: the victim application writes
/// once more (window check), then everything is delivered fairly. No call may unwind; if the
/// injected segment had to be inert the streams must stay prefixes of the legitimate writes.
fn continue_after(cfg: &Cfg, st: &Sys, side: usize, inert: bool, wnd_ref: Option<u16>) -> Vec<Violation> {
    let mut c = st.clone();
    let r = guarded(|| -> Vec<Violation> {
        let mut vs = vec![];
        // the victim writes 3 more bytes if it may
        if let Some(sn) = c.side[side].snap() {
            if matches!(sn.state, State::Established | State::SynReceived)
                && !c.side[side].close_called
            {
                let start = c.side[side].written.len();
                let bytes: Vec<u8> = (start..start + 3).map(|p| stream_byte(side, p)).collect();
                c.side[side].written.extend(&bytes);
                entering("Tcb::send");
                c.side[side].tcb.as_mut().unwrap().send(Message::new(bytes));
                let nxt_before = sn.snd_nxt;
                let out = c.flush(side);
                // judged in ESTABLISHED only: before that the recorded window comes from a bare
                // SYN, which carries no acknowledgment number to anchor a right edge
                if sn.state == State::Established {
                    if let Some(sa) = c.side[side].snap() {
                        for s in &out {
                            let l = s.text.len() as u32;
                            if l == 0 || !mod_geq(s.header.seq, nxt_before) {
                                continue;
                            }
                            // the window the peer last advertised: the independent reference
                            // where the injected segment determines it, else what the victim
                            // recorded (judged against the reference at injection time)
                            let wnd = wnd_ref.unwrap_or(sn.snd_wnd);
                            let right = sa.snd_una.wrapping_add(wnd as u32);
                            let end = s.header.seq.wrapping_add(l);
                            if !(end == right || mod_lt(end, right)) {
                                vs.push(Violation::new(
                                    "send-window",
                                    "Tcb::segments",
                                    "new-data-beyond-advertised-window",
                                    format!(
                                        "after injection the victim wrote 3 bytes and sent {} beyond una {} + wnd {}",
                                        render_seg(s),
                                        sa.snd_una,
                                        wnd
                                    ),
                                ));
                            }
                        }
                    }
                }
            }
        }
        let _ = c.converge(cfg, 4);
        if inert {
            if let Some(v) = c.prefix_violation() {
                vs.push(Violation::new(
                    "unacceptable-segment-inert",
                    "fair-continuation",
                    &format!("stream-altered-later-{}", v.discriminator),
                    v.detail,
                ));
            }
        }
        vs
    });
    match r {
        Ok(v) => v,
        Err(v) => vec![v],
    }
}

fn targets_of(vict: &[Sys]) -> (Vec<(usize, usize)>, BTreeMap<String, u64>) {
    let mut targets: Vec<(usize, usize)> = vec![];
    let mut by_state: BTreeMap<String, u64> = BTreeMap::new();
    for (i, v) in vict.iter().enumerate() {
        for s in [A, B] {
            if let Some(sn) = v.side[s].snap() {
                targets.push((i, s));
                *by_state.entry(format!("{:?}", sn.state)).or_insert(0) += 1;
            }
        }
    }
    (targets, by_state)
}

fn single_part_name(set: &str, alpha: &Alphabet) -> String {
    format!("single injection; victims={set}; alphabet={}", alpha.name)
}
fn double_part_name(set: &str, a1: &Alphabet, a2: &Alphabet) -> String {
    format!("two injections; victims={set}; first={}; second={}", a1.name, a2.name)
}

/// One attacker segment of `alpha` into every (victim state, side); every distinct resulting
/// state is continued with the legitimate peer.
fn single(report: &mut Report, set: &str, alpha: &Alphabet) {
    let cfg = victim_cfg(set);
    let vict = victims(set, report);
    let (targets, by_state) = targets_of(&vict);
    report.part(json!({"part": "victim targets", "victims": set, "victim_states": vict.len(), "targets": targets.len(), "targets_by_status": by_state}));
    let mut dims = vec![targets.len()];
    dims.extend(alpha.dims());
    let p = Product::new(&dims);
    let seen: dashmap::DashSet<(u128, bool, Option<u16>)> = dashmap::DashSet::new();
    let continued = std::sync::atomic::AtomicU64::new(0);
    let (vict2, targets2, p2, alpha2) = (vict.clone(), targets.clone(), p.clone(), alpha.clone());
    enumerate::run_into(
        report,
        &single_part_name(set, alpha),
        "every (victim state, side) x every segment of the alphabet, injected by the real segment_arrives; each distinct resulting state is continued: the victim writes 3 bytes, then fair delivery with the real peer; distinct = distinct resulting full states",
        p.total(),
        |i| {
            let ix = p.decode(i);
            let (vi, side) = targets[ix[0]];
            let mut o = inject(&cfg, &vict[vi], side, &alpha.resolve(&ix[1..]));
            if let (Some(k), Some(st)) = (o.key, o.after.as_ref()) {
                if seen.insert((k, o.inert, o.wnd_ref)) {
                    continued.fetch_add(1, std::sync::atomic::Ordering::Relaxed);
                    o.violations
                        .extend(continue_after(&cfg, st, side, o.inert, o.wnd_ref));
                }
            }
            CaseOutcome {
                nontrivial: o.key.map(|k| k as u64),
                violations: o.violations,
            }
        },
        move |i| {
            let ix = p2.decode(i);
            let (vi, side) = targets2[ix[0]];
            let sn = vict2[vi].side[side].snap().unwrap();
            let r = alpha2.resolve(&ix[1..]);
            let seg = attack_segment(&sn, side, &r);
            json!({"victim": vict2[vi].describe(), "side": side, "alphabet_index": r, "segment": render_seg(&seg),
                   "must_be_inert": must_be_inert(&sn, &seg)})
        },
    );
    report.part(json!({"part": "continuations run", "victims": set, "count": continued.load(std::sync::atomic::Ordering::Relaxed)}));
}

/// Two attacker segments in a row into the same endpoint (the second relative to the state the
/// first one left behind), then the legitimate continuation.
fn double(report: &mut Report, set: &str, a1: &Alphabet, a2: &Alphabet) {
    let cfg = victim_cfg(set);
    let vict = victims(set, report);
    let (targets, _) = targets_of(&vict);
    let mut dims = vec![targets.len()];
    dims.extend(a1.dims());
    dims.extend(a2.dims());
    let p = Product::new(&dims);
    let seen: dashmap::DashSet<(u128, bool, Option<u16>)> = dashmap::DashSet::new();
    let (vict2, targets2, p2, a1b, a2b) = (vict.clone(), targets.clone(), p.clone(), a1.clone(), a2.clone());
    enumerate::run_into(
        report,
        &double_part_name(set, a1, a2),
        "every (victim state, side) x first segment x second segment; both injections are judged (the second against the state after the first); each distinct final state is continued with the real peer",
        p.total(),
        |i| {
            let ix = p.decode(i);
            let (vi, side) = targets[ix[0]];
            let o1 = inject(&cfg, &vict[vi], side, &a1.resolve(&ix[1..6]));
            let mut violations = o1.violations;
            let mut key = o1.key;
            if let Some(mid) = o1.after.as_ref() {
                if mid.side[side].snap().is_some() {
                    let o2 = inject(&cfg, mid, side, &a2.resolve(&ix[6..11]));
                    violations.extend(o2.violations);
                    key = o2.key;
                    if let (Some(k), Some(st)) = (o2.key, o2.after.as_ref()) {
                        let inert = o1.inert && o2.inert;
                        if seen.insert((k, inert, o2.wnd_ref)) {
                            violations.extend(continue_after(&cfg, st, side, inert, o2.wnd_ref));
                        }
                    }
                }
            }
            CaseOutcome {
                nontrivial: key.map(|k| k as u64),
                violations,
            }
        },
        move |i| {
            let ix = p2.decode(i);
            let (vi, side) = targets2[ix[0]];
            json!({"victim": vict2[vi].describe(), "side": side,
                   "first": a1b.resolve(&ix[1..6]), "second": a2b.resolve(&ix[6..11])})
        },
    );
}

pub fn run(report: &mut Report, tier: &str) {
    report.assume("acceptability is RFC 9293 table 6 evaluated on the endpoint's state just before the arrival; in SYN-SENT a segment with neither SYN nor RST must be inert");
    report.assume("the attacker only sends syntactically valid segments from the peer's address and port (checksums are compiled out in this build)");
    single(report, "quick", &Alphabet::full());
    single(report, "quick-rev", &Alphabet::reduced());
    if tier == "thorough" {
        single(report, "thorough-rev", &Alphabet::reduced());
        single(report, "thorough", &Alphabet::reduced());
        double(report, "quick", &Alphabet::reduced(), &Alphabet::second());
        long_scenario(report);
    }
    report.set("exhaustive", json!(true));
    report.set("rule", json!("victim states = all states of a fault-free two-endpoint model (BFS fixpoint); from each, one (thorough: also two) attacker segment(s) of a full field-alphabet product is injected by the real segment_arrives; every distinct resulting state is continued with the legitimate peer"));
}

/// Directed long scenario: a data segment just beyond the window edge is injected, then the
/// legitimate peer sends 70 000 bytes, so that RCV.NXT sweeps over the injected sequence number.
fn long_scenario(report: &mut Report) {
    let total = 3 * 3;
    enumerate::run_into(
        report,
        "inject beyond the window edge, then 70000 legitimate bytes",
        "seq in {edge, edge+1, edge+100} x len in {1, 10, MSS}; the stream the application reads must stay a prefix of the legitimate writes",
        total,
        |i| {
            let (si, li) = ((i / 3) as usize, (i % 3) as usize);
            let mut cfg = Cfg::basic(1500, 100, 300);
            cfg.writes = [vec![70_000], vec![]];
            cfg.reorder = false;
            let mut sys = Sys::new(&cfg);
            let r = guarded(|| -> Vec<Violation> {
                // handshake
                let _ = sys.converge(&cfg, 2);
                let sn = sys.side[B].snap().unwrap();
                let seq = sn
                    .rcv_nxt
                    .wrapping_add(sn.rcv_wnd as u32)
                    .wrapping_add([0, 1, 100][si]);
                let len = [1usize, 10, 1450][li];
                let text: Vec<u8> = vec![0xEE; len];
                let e = ends(A);
                let mut h = TcpHeaderBuilder::new(e.local.port, e.remote.port, seq)
                    .wnd(65535)
                    .build(e.local.address, e.remote.address, text.iter().cloned(), len)
                    .unwrap();
                h.ack = sn.snd_nxt;
                h.ctl.set_ack(true);
                let seg = Segment::new(h, Message::new(text));
                let inert = must_be_inert(&sn, &seg);
                sys.deliver_to(&cfg, B, seg);
                sys.flush(B);
                sys.read(B);
                sys.apply(&cfg, &Act::Write(A));
                let _ = sys.converge(&cfg, 8);
                let mut vs = vec![];
                if inert {
                    if let Some(v) = sys.prefix_violation() {
                        vs.push(Violation::new(
                            "unacceptable-segment-inert",
                            "fair-continuation",
                            &format!("beyond-window-segment-delivered-later-{}", v.discriminator),
                            v.detail,
                        ));
                    }
                }
                vs
            });
            CaseOutcome {
                nontrivial: Some(i),
                violations: match r {
                    Ok(v) => v,
                    Err(v) => vec![v],
                },
            }
        },
        |i| {
            let off = [0, 1, 100][(i / 3) as usize];
            let len = [1, 10, 1450][(i % 3) as usize];
            json!({"seq_offset_beyond_edge": off, "len": len})
        },
    );
}

pub fn replay(w: &Value, _tier: &str) -> String {
    if w["model"].is_string() {
        return "victim collection model: nothing to replay".into();
    }
    let part = w["part"].as_str().unwrap_or("");
    let mut r = Report::new("C17-replay", "quick", "model_checking");
    for set in ["quick", "thorough", "quick-rev", "thorough-rev"] {
        for alpha in [Alphabet::full(), Alphabet::reduced()] {
            if part == single_part_name(set, &alpha) {
                let cfg = victim_cfg(set);
                let vict = victims(set, &mut r);
                let (targets, _) = targets_of(&vict);
                let mut dims = vec![targets.len()];
                dims.extend(alpha.dims());
                let ix = Product::new(&dims).decode(w["index"].as_u64().unwrap_or(0));
                let (vi, side) = targets[ix[0]];
                return render_injections(&cfg, &vict[vi], side, &[alpha.resolve(&ix[1..])]);
            }
        }
        let (a1, a2) = (Alphabet::reduced(), Alphabet::second());
        if part == double_part_name(set, &a1, &a2) {
            let cfg = victim_cfg(set);
            let vict = victims(set, &mut r);
            let (targets, _) = targets_of(&vict);
            let mut dims = vec![targets.len()];
            dims.extend(a1.dims());
            dims.extend(a2.dims());
            let ix = Product::new(&dims).decode(w["index"].as_u64().unwrap_or(0));
            let (vi, side) = targets[ix[0]];
            return render_injections(
                &cfg,
                &vict[vi],
                side,
                &[a1.resolve(&ix[1..6]), a2.resolve(&ix[6..11])],
            );
        }
    }
    format!("part {part}: case {}", w["case"])
}

fn render_injections(cfg: &Cfg, victim: &Sys, side: usize, segs: &[[usize; 5]]) -> String {
    let mut out = format!("victim state: {}\n", victim.describe());
    let mut cur = victim.clone();
    let mut inert_all = true;
    let mut last_ref = None;
    let mut viols = vec![];
    for r in segs {
        let Some(sn) = cur.side[side].snap() else { break };
        let seg = attack_segment(&sn, side, r);
        out.push_str(&format!(
            "inject into side {}: {} (acceptable by table 6: {}, must be inert: {})\n",
            side,
            render_seg(&seg),
            acceptable(&sn, &seg),
            must_be_inert(&sn, &seg)
        ));
        let o = inject(cfg, &cur, side, r);
        inert_all &= o.inert;
        last_ref = o.wnd_ref;
        viols.extend(o.violations);
        match o.after {
            Some(a) => {
                out.push_str(&format!("after: {}\n", a.describe()));
                cur = a;
            }
            None => break,
        }
    }
    viols.extend(continue_after(cfg, &cur, side, inert_all, last_ref));
    for v in viols {
        out.push_str(&format!("VIOLATION {} :: {}\n", v.signature(), v.detail));
    }
    out
}
