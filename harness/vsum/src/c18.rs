//! C18 - With checksums enabled, emitted checksums are valid and corruption is caught.
//!
//! Everything here runs against elvis-core built with `compute_checksum`. Bounded-exhaustive
//! enumeration (E3): full Cartesian products of small field alphabets and payload shapes, and for
//! a fixed list of really emitted packets every single-bit flip and every pair of flips inside
//! the header, the first/last 8 payload bytes and the pseudo-header addresses.
//!
//! Oracles (exactly what the statement demands):
//!  * emit-verifies: the emitted IPv4 header / UDP datagram / TCP segment sums, under a small
//!    RFC 1071 reference (pseudo header included, odd tail padded), to 0xffff. For UDP the field
//!    must additionally not be 0x0000 (RFC 768: that value means "no checksum").
//!  * emit-matches-etherparse: etherparse, given the emitted bytes, computes the same checksum
//!    (0x0000 and 0xffff, the two one's-complement zeros, are identified for IPv4 and TCP because
//!    both verify; the number of such emissions is reported as `negzero_emissions`).
//!  * accept-conforming: the decoder returns Ok for the packet with the same fields whose checksum
//!    etherparse (an independent conforming implementation) produced.
//!  * reject-corrupt: whenever the reference says an altered packet no longer verifies, the
//!    decoder returns Err.

use elvis_core::{
    protocols::{
        ipv4::ipv4_parsing::{self as ip4, Ipv4Header},
        tcp::verif::{TcpHeader, TcpHeaderBuilder},
        udp::verif::{build_udp_header, UdpHeader},
    },
    Message,
};
use serde_json::{json, Value};
use std::sync::atomic::{AtomicU64, Ordering::Relaxed};
use vkit::{
    enumerate::{self, CaseOutcome, Product},
    key128, Report, Violation,
};

const SITE_IP_BUILD: &str = "Ipv4HeaderBuilder::build";
const SITE_IP_PARSE: &str = "Ipv4Header::from_bytes";
const SITE_UDP_BUILD: &str = "build_udp_header";
const SITE_UDP_PARSE: &str = "UdpHeader::from_bytes_ipv4";
const SITE_TCP_BUILD: &str = "TcpHeaderBuilder::build";
const SITE_TCP_PARSE: &str = "TcpHeader::from_bytes";

static NEGZERO_EMIT: AtomicU64 = AtomicU64::new(0);
static ALL_ONES_CASES: AtomicU64 = AtomicU64::new(0);
static ODD_CASES: AtomicU64 = AtomicU64::new(0);
static REF_DISAGREE: AtomicU64 = AtomicU64::new(0);
static FLIPS_SINGLE: AtomicU64 = AtomicU64::new(0);
static FLIPS_PAIR: AtomicU64 = AtomicU64::new(0);
static FLIPS_DETECTABLE: AtomicU64 = AtomicU64::new(0);
static FLIPS_UNDETECTABLE: AtomicU64 = AtomicU64::new(0);

// ---------------------------------------------------------------------------------------------
// The reference: RFC 1071.

/// One's-complement sum of the big-endian 16-bit words of a byte stream; an odd last byte is
/// padded with a zero byte; carries are folded back in (end-around carry). Not complemented.
fn ref_sum(bytes: impl Iterator<Item = u8>) -> u16 {
    let mut acc: u64 = 0;
    let mut high: Option<u8> = None;
    for b in bytes {
        match high.take() {
            None => high = Some(b),
            Some(h) => acc += ((h as u64) << 8) | b as u64,
        }
    }
    if let Some(h) = high {
        acc += (h as u64) << 8;
    }
    while acc >> 16 != 0 {
        acc = (acc & 0xffff) + (acc >> 16);
    }
    acc as u16
}

fn pseudo(src: [u8; 4], dst: [u8; 4], proto: u8, len: usize) -> [u8; 12] {
    let l = (len as u16).to_be_bytes();
    [
        src[0], src[1], src[2], src[3], dst[0], dst[1], dst[2], dst[3], 0, proto, l[0], l[1],
    ]
}

/// Sum of pseudo header and transport packet. A packet verifies iff this is 0xffff.
fn transport_sum(src: [u8; 4], dst: [u8; 4], proto: u8, pkt: &[u8]) -> u16 {
    ref_sum(
        pseudo(src, dst, proto, pkt.len())
            .into_iter()
            .chain(pkt.iter().copied()),
    )
}

fn same_mod_negzero(a: u16, b: u16) -> bool {
    a == b || ((a == 0 || a == 0xffff) && (b == 0 || b == 0xffff))
}

fn hex(b: &[u8]) -> String {
    b.iter().map(|x| format!("{x:02x}")).collect::<Vec<_>>().join("")
}

fn ip(a: [u8; 4]) -> String {
    format!("{}.{}.{}.{}", a[0], a[1], a[2], a[3])
}

/// First identifier of a Debug rendering: the variant name of an error.
fn variant(dbg: &str) -> String {
    dbg.split(|c: char| !c.is_alphanumeric())
        .next()
        .unwrap_or("")
        .to_string()
}

// ---------------------------------------------------------------------------------------------
// Payloads.

#[derive(Clone, Copy, Debug, PartialEq, Eq, Hash)]
pub enum Kind {
    /// all 0x00
    Zeros,
    /// all 0xff (the running sum sits on 0xffff)
    Ones,
    /// ff ff 00 01 repeated: every second word produces an end-around carry
    Carry,
    /// (7 i + 3) mod 256
    Incr,
    /// Incr, then one 16-bit slot adjusted so that the sum of everything but the checksum field
    /// is exactly 0xffff (conforming checksum 0x0000). The slot is payload word 0 when the payload
    /// has at least two bytes, otherwise a header field (UDP destination port, TCP window).
    AllOnesSum,
}

const KINDS: [Kind; 5] = [Kind::Zeros, Kind::Ones, Kind::Carry, Kind::Incr, Kind::AllOnesSum];

fn payload(kind: Kind, len: usize) -> Vec<u8> {
    match kind {
        Kind::Zeros => vec![0; len],
        Kind::Ones => vec![0xff; len],
        Kind::Carry => (0..len).map(|i| [0xff, 0xff, 0x00, 0x01][i % 4]).collect(),
        Kind::Incr | Kind::AllOnesSum => (0..len).map(|i| (i * 7 + 3) as u8).collect(),
    }
}

/// Message holding `head ++ body`; `chunk` selects how the body is cut into chunks so that the
/// byte iterator crosses chunk boundaries at odd offsets.
fn to_message(head: &[u8], body: &[u8], chunk: usize) -> Message {
    let cut = match chunk {
        1 if body.len() >= 2 => 1,
        2 if body.len() >= 4 => (body.len() / 2) | 1,
        _ => 0,
    };
    let mut m = if cut == 0 && chunk == 0 {
        let mut all = head.to_vec();
        all.extend_from_slice(body);
        return Message::new(all);
    } else {
        Message::new(body[cut..].to_vec())
    };
    if cut > 0 {
        m.header(body[..cut].to_vec());
    }
    if !head.is_empty() {
        m.header(head.to_vec());
    }
    m
}

// ---------------------------------------------------------------------------------------------
// A part of the check.

trait Part: Sync {
    fn name(&self) -> String;
    fn rule(&self) -> &'static str;
    fn total(&self) -> u64;
    /// Runs one case; `log` collects a rendering for replay.
    fn eval(&self, i: u64, log: &mut Option<Vec<String>>) -> CaseOutcome;
    fn describe(&self, i: u64) -> Value;
}

macro_rules! say {
    ($log:expr, $($a:tt)*) => { if let Some(l) = $log.as_mut() { l.push(format!($($a)*)); } };
}

// ---------------------------------------------------------------------------------------------
// IPv4 header.

#[derive(Clone, Debug)]
struct Ip4Case {
    tos: u8,
    plen: u16,
    id: u16,
    crafted: bool,
    frag: u16,
    flags: u8,
    proto: u8,
    ttl: u8,
    src: [u8; 4],
    dst: [u8; 4],
}

/// The header as a plain serializer writes it (own reference), checksum field as given.
fn ip4_ref_bytes(c: &Ip4Case, ttl: u8, ck: u16) -> Vec<u8> {
    let mut o = vec![0x45, c.tos];
    o.extend_from_slice(&(c.plen as u32 + 20).to_be_bytes()[2..]);
    o.extend_from_slice(&c.id.to_be_bytes());
    o.extend_from_slice(&(((c.flags as u16) << 13) | c.frag).to_be_bytes());
    o.push(ttl);
    o.push(c.proto);
    o.extend_from_slice(&ck.to_be_bytes());
    o.extend_from_slice(&c.src);
    o.extend_from_slice(&c.dst);
    o
}

struct Ip4Part {
    name: String,
    tos: Vec<u8>,
    plen: Vec<u16>,
    /// None = crafted so that the conforming header sums to 0xffff
    id: Vec<Option<u16>>,
    frag: Vec<u16>,
    flags: Vec<u8>,
    proto: Vec<u8>,
    ttl: Vec<u8>,
    src: Vec<[u8; 4]>,
    dst: Vec<[u8; 4]>,
}

impl Ip4Part {
    fn product(&self) -> Product {
        Product::new(&[
            self.tos.len(),
            self.plen.len(),
            self.id.len(),
            self.frag.len(),
            self.flags.len(),
            self.proto.len(),
            self.ttl.len(),
            self.src.len(),
            self.dst.len(),
        ])
    }
    fn case(&self, i: u64) -> Ip4Case {
        let d = self.product().decode(i);
        let mut c = Ip4Case {
            tos: self.tos[d[0]],
            plen: self.plen[d[1]],
            id: self.id[d[2]].unwrap_or(0),
            crafted: self.id[d[2]].is_none(),
            frag: self.frag[d[3]],
            flags: self.flags[d[4]],
            proto: self.proto[d[5]],
            ttl: self.ttl[d[6]],
            src: self.src[d[7]],
            dst: self.dst[d[8]],
        };
        if c.crafted {
            c.id = !ref_sum(ip4_ref_bytes(&c, c.ttl, 0).into_iter());
        }
        c
    }
}

fn ip4_emit(c: &Ip4Case) -> Result<Vec<u8>, String> {
    ip4::verif_build_header(
        c.src.into(),
        c.dst.into(),
        c.proto,
        c.plen,
        Some(c.tos.into()),
        Some(c.id),
        Some(c.frag),
        Some(c.flags.into()),
    )
    .map_err(|e| format!("{e:?}"))
}

impl Part for Ip4Part {
    fn name(&self) -> String {
        self.name.clone()
    }
    fn rule(&self) -> &'static str {
        "non-trivial = header emitted by Ipv4HeaderBuilder and conforming header decoded by Ipv4Header::from_bytes; distinct by (emitted bytes, conforming bytes)"
    }
    fn total(&self) -> u64 {
        self.product().total()
    }
    fn describe(&self, i: u64) -> Value {
        let c = self.case(i);
        json!({"tos": c.tos, "payload_length": c.plen, "identification": c.id,
               "identification_crafted_for_sum_ffff": c.crafted, "fragment_offset": c.frag,
               "flags": c.flags, "protocol": c.proto, "ttl_of_conforming_packet": c.ttl,
               "source": ip(c.src), "destination": ip(c.dst)})
    }
    fn eval(&self, i: u64, log: &mut Option<Vec<String>>) -> CaseOutcome {
        let c = self.case(i);
        let mut v = vec![];
        say!(log, "case {:?}", c);
        // --- emission (the builder's TTL is fixed at 30)
        let emitted = ip4_emit(&c);
        match &emitted {
            Err(e) => v.push(Violation::new(
                "emit-verifies",
                SITE_IP_BUILD,
                "build-error",
                format!("in-domain header not built: {e}; case {c:?}"),
            )),
            Ok(h) => {
                let s = ref_sum(h.iter().copied());
                let mut z = h.clone();
                if z.len() >= 12 {
                    z[10] = 0;
                    z[11] = 0;
                }
                let data_sum = ref_sum(z.iter().copied());
                say!(log, "emitted   {}  sum-without-field={data_sum:#06x} verify-sum={s:#06x}", hex(h));
                if data_sum == 0xffff {
                    ALL_ONES_CASES.fetch_add(1, Relaxed);
                }
                if h.len() != 20 || s != 0xffff {
                    let class = if data_sum == 0xffff { "sum-all-ones" } else { "wrong-sum" };
                    v.push(Violation::new(
                        "emit-verifies",
                        SITE_IP_BUILD,
                        class,
                        format!("emitted header {} sums to {s:#06x}, not 0xffff; case {c:?}", hex(h)),
                    ));
                }
                if h.len() == 20 {
                    let got = u16::from_be_bytes([h[10], h[11]]);
                    match etherparse::Ipv4Header::from_slice(h)
                        .map_err(|e| format!("{e:?}"))
                        .and_then(|(eh, _)| eh.calc_header_checksum().map_err(|e| format!("{e:?}")))
                    {
                        Ok(ck) => {
                            say!(log, "etherparse computes {ck:#06x} for the emitted header, field is {got:#06x}");
                            if !same_mod_negzero(got, ck) {
                                v.push(Violation::new(
                                    "emit-matches-etherparse",
                                    SITE_IP_BUILD,
                                    "differs",
                                    format!("emitted {got:#06x}, etherparse {ck:#06x}; header {}", hex(h)),
                                ));
                            } else if got != ck {
                                NEGZERO_EMIT.fetch_add(1, Relaxed);
                            }
                        }
                        Err(e) => v.push(Violation::new(
                            "emit-matches-etherparse",
                            SITE_IP_BUILD,
                            "unparseable",
                            format!("etherparse cannot read emitted header {}: {e}", hex(h)),
                        )),
                    }
                }
            }
        }
        // --- acceptance of the conforming packet
        let mut eh = etherparse::Ipv4Header::new(c.plen, c.ttl, etherparse::IpNumber::Udp, c.src, c.dst);
        eh.protocol = c.proto;
        eh.differentiated_services_code_point = c.tos >> 2;
        eh.explicit_congestion_notification = c.tos & 3;
        eh.identification = c.id;
        eh.dont_fragment = c.flags & 2 != 0;
        eh.more_fragments = c.flags & 1 != 0;
        eh.fragments_offset = c.frag;
        let mut conf = vec![];
        eh.write(&mut conf).expect("etherparse writes an in-range header");
        let own = ip4_ref_bytes(&c, c.ttl, !ref_sum(ip4_ref_bytes(&c, c.ttl, 0).into_iter()));
        if own != conf {
            REF_DISAGREE.fetch_add(1, Relaxed);
            say!(log, "REFERENCE DISAGREEMENT own {} etherparse {}", hex(&own), hex(&conf));
        }
        let conf_ck = u16::from_be_bytes([conf[10], conf[11]]);
        let msg = to_message(&conf, &[0xa5; 3], 1);
        let dec = Ipv4Header::from_bytes(msg.iter());
        say!(log, "conforming {} (checksum {conf_ck:#06x}) -> decoder {:?}", hex(&conf), dec);
        if let Err(e) = &dec {
            let d = format!("{e:?}");
            let class = if d.starts_with("Checksum") {
                if conf_ck == 0 {
                    "conforming-0x0000-rejected".to_string()
                } else {
                    "checksum-mismatch".to_string()
                }
            } else {
                format!("error-{}", variant(&d))
            };
            v.push(Violation::new(
                "accept-conforming",
                SITE_IP_PARSE,
                &class,
                format!("decoder rejects conforming header {} with {d}; case {c:?}", hex(&conf)),
            ));
        }
        let k = key128(&(emitted.ok(), conf)) as u64;
        CaseOutcome {
            nontrivial: Some(k),
            violations: v,
        }
    }
}

// ---------------------------------------------------------------------------------------------
// UDP.

#[derive(Clone, Debug)]
struct UdpCase {
    src: [u8; 4],
    dst: [u8; 4],
    sport: u16,
    dport: u16,
    len: usize,
    kind: Kind,
    chunk: usize,
    crafted_slot: &'static str,
    payload: Vec<u8>,
}

impl UdpCase {
    fn short(&self) -> String {
        format!(
            "udp {}:{} -> {}:{} payload {:?} x{} chunking {} slot {}",
            ip(self.src), self.sport, ip(self.dst), self.dport, self.kind, self.len, self.chunk, self.crafted_slot
        )
    }
}

fn udp_ref_bytes(c: &UdpCase, ck: u16) -> Vec<u8> {
    let mut o = vec![];
    o.extend_from_slice(&c.sport.to_be_bytes());
    o.extend_from_slice(&c.dport.to_be_bytes());
    o.extend_from_slice(&((c.payload.len() + 8) as u16).to_be_bytes());
    o.extend_from_slice(&ck.to_be_bytes());
    o.extend_from_slice(&c.payload);
    o
}

fn udp_craft(c: &mut UdpCase) {
    if c.kind != Kind::AllOnesSum {
        return;
    }
    if c.payload.len() >= 2 {
        c.payload[0] = 0;
        c.payload[1] = 0;
        let r = !transport_sum(c.src, c.dst, 17, &udp_ref_bytes(c, 0));
        c.payload[..2].copy_from_slice(&r.to_be_bytes());
        c.crafted_slot = "payload[0..2]";
    } else {
        c.dport = 0;
        c.dport = !transport_sum(c.src, c.dst, 17, &udp_ref_bytes(c, 0));
        c.crafted_slot = "destination-port";
    }
}

fn udp_emit(c: &UdpCase) -> Result<Vec<u8>, String> {
    let text = to_message(&[], &c.payload, c.chunk);
    build_udp_header(c.src.into(), c.sport, c.dst.into(), c.dport, text.iter(), text.len())
        .map_err(|e| format!("{e:?}"))
}

fn emit_class(data_sum: u16, payload_len: usize) -> &'static str {
    if data_sum == 0xffff {
        "sum-all-ones"
    } else if payload_len % 2 == 1 {
        "odd-length-payload"
    } else {
        "wrong-sum"
    }
}

fn accept_class(err_dbg: &str, conf_ck: u16, payload_len: usize) -> String {
    if err_dbg.starts_with("Checksum") {
        if conf_ck == 0 {
            "conforming-0x0000-rejected".into()
        } else if payload_len % 2 == 1 {
            "checksum-mismatch-odd-length".into()
        } else {
            "checksum-mismatch".into()
        }
    } else {
        format!("error-{}", variant(err_dbg))
    }
}

struct UdpPart {
    name: String,
    addr: Vec<([u8; 4], [u8; 4])>,
    sport: Vec<u16>,
    dport: Vec<u16>,
    len: Vec<usize>,
    chunk: Vec<usize>,
}

impl UdpPart {
    fn product(&self) -> Product {
        Product::new(&[
            self.addr.len(),
            self.sport.len(),
            self.dport.len(),
            self.len.len(),
            KINDS.len(),
            self.chunk.len(),
        ])
    }
    fn case(&self, i: u64) -> UdpCase {
        let d = self.product().decode(i);
        let mut c = UdpCase {
            src: self.addr[d[0]].0,
            dst: self.addr[d[0]].1,
            sport: self.sport[d[1]],
            dport: self.dport[d[2]],
            len: self.len[d[3]],
            kind: KINDS[d[4]],
            chunk: self.chunk[d[5]],
            crafted_slot: "-",
            payload: payload(KINDS[d[4]], self.len[d[3]]),
        };
        udp_craft(&mut c);
        c
    }
}

impl Part for UdpPart {
    fn name(&self) -> String {
        self.name.clone()
    }
    fn rule(&self) -> &'static str {
        "non-trivial = datagram emitted by build_udp_header and conforming datagram decoded by UdpHeader::from_bytes_ipv4; distinct by (pseudo header, emitted header, conforming header, payload shape, chunking)"
    }
    fn total(&self) -> u64 {
        self.product().total()
    }
    fn describe(&self, i: u64) -> Value {
        let c = self.case(i);
        json!({"source": ip(c.src), "destination": ip(c.dst), "source_port": c.sport,
               "destination_port": c.dport, "payload_kind": format!("{:?}", c.kind),
               "payload_length": c.len, "payload_first_bytes": hex(&c.payload[..c.len.min(8)]),
               "chunking": c.chunk, "crafted_slot": c.crafted_slot})
    }
    fn eval(&self, i: u64, log: &mut Option<Vec<String>>) -> CaseOutcome {
        let c = self.case(i);
        let mut v = vec![];
        say!(log, "case {}", c.short());
        if c.len % 2 == 1 {
            ODD_CASES.fetch_add(1, Relaxed);
        }
        let data_sum = transport_sum(c.src, c.dst, 17, &udp_ref_bytes(&c, 0));
        if data_sum == 0xffff {
            ALL_ONES_CASES.fetch_add(1, Relaxed);
        }
        let eth = etherparse::UdpHeader {
            source_port: c.sport,
            destination_port: c.dport,
            length: (c.len + 8) as u16,
            checksum: 0,
        };
        let eth_ck = eth
            .calc_checksum_ipv4_raw(c.src, c.dst, &c.payload)
            .expect("etherparse computes in-range UDP checksum");
        let own_ck = if data_sum == 0xffff { 0xffff } else { !data_sum };
        if own_ck != eth_ck {
            REF_DISAGREE.fetch_add(1, Relaxed);
            say!(log, "REFERENCE DISAGREEMENT own {own_ck:#06x} etherparse {eth_ck:#06x}");
        }
        // --- emission
        let emitted = udp_emit(&c);
        match &emitted {
            Err(e) => v.push(Violation::new(
                "emit-verifies",
                SITE_UDP_BUILD,
                "build-error",
                format!("in-domain datagram not built: {e}; {}", c.short()),
            )),
            Ok(h) => {
                let mut pkt = h.clone();
                pkt.extend_from_slice(&c.payload);
                let s = transport_sum(c.src, c.dst, 17, &pkt);
                say!(log, "emitted header {}  sum-without-field={data_sum:#06x} verify-sum={s:#06x}", hex(h));
                let got = if h.len() == 8 { u16::from_be_bytes([h[6], h[7]]) } else { 0 };
                if h.len() != 8 || s != 0xffff {
                    v.push(Violation::new(
                        "emit-verifies",
                        SITE_UDP_BUILD,
                        emit_class(data_sum, c.len),
                        format!("emitted header {} + payload sums to {s:#06x}, not 0xffff; {}", hex(h), c.short()),
                    ));
                } else if got == 0 {
                    v.push(Violation::new(
                        "emit-verifies",
                        SITE_UDP_BUILD,
                        "udp-zero-checksum-emitted",
                        format!("checksum field 0x0000 means 'no checksum' in UDP (RFC 768); {}", c.short()),
                    ));
                }
                say!(log, "etherparse computes {eth_ck:#06x}, field is {got:#06x}");
                if h.len() == 8 && got != eth_ck {
                    v.push(Violation::new(
                        "emit-matches-etherparse",
                        SITE_UDP_BUILD,
                        "differs",
                        format!("emitted {got:#06x}, etherparse {eth_ck:#06x}; {}", c.short()),
                    ));
                }
            }
        }
        // --- acceptance
        let conf = udp_ref_bytes(&c, eth_ck);
        let msg = to_message(&conf[..8], &c.payload, c.chunk);
        let dec = UdpHeader::from_bytes_ipv4(msg.iter(), msg.len(), c.src.into(), c.dst.into());
        say!(log, "conforming header {} -> decoder {:?}", hex(&conf[..8]), dec);
        if let Err(e) = &dec {
            let d = format!("{e:?}");
            v.push(Violation::new(
                "accept-conforming",
                SITE_UDP_PARSE,
                &accept_class(&d, eth_ck, c.len),
                format!("decoder rejects conforming datagram (header {}) with {d}; {}", hex(&conf[..8]), c.short()),
            ));
        }
        let k = key128(&(c.src, c.dst, emitted.ok(), &conf[..8], c.kind, c.len, c.chunk)) as u64;
        CaseOutcome {
            nontrivial: Some(k),
            violations: v,
        }
    }
}

// ---------------------------------------------------------------------------------------------
// TCP.

#[derive(Clone, Debug)]
struct TcpCase {
    src: [u8; 4],
    dst: [u8; 4],
    sport: u16,
    dport: u16,
    seq: u32,
    ack: Option<u32>,
    /// fin=1 syn=2 rst=4 psh=8
    ctl: u8,
    urg: Option<u16>,
    wnd: u16,
    /// bits only a foreign sender sets: ns=1 ece=2 cwr=4 (conforming packet only)
    extra: u8,
    len: usize,
    kind: Kind,
    chunk: usize,
    crafted_slot: &'static str,
    payload: Vec<u8>,
}

impl TcpCase {
    fn short(&self) -> String {
        format!(
            "tcp {}:{} -> {}:{} seq {:#x} ack {:?} ctl(fin1 syn2 rst4 psh8) {:#x} urg {:?} wnd {:#x} extra(ns1 ece2 cwr4) {} payload {:?} x{} chunking {} slot {}",
            ip(self.src), self.sport, ip(self.dst), self.dport, self.seq, self.ack, self.ctl, self.urg,
            self.wnd, self.extra, self.kind, self.len, self.chunk, self.crafted_slot
        )
    }
    fn control_byte(&self, extra: u8) -> u8 {
        (self.ctl & 0x0f)
            | if self.ack.is_some() { 0x10 } else { 0 }
            | if self.urg.is_some() { 0x20 } else { 0 }
            | if extra & 2 != 0 { 0x40 } else { 0 }
            | if extra & 4 != 0 { 0x80 } else { 0 }
    }
}

fn tcp_ref_bytes(c: &TcpCase, extra: u8, ck: u16) -> Vec<u8> {
    let mut o = vec![];
    o.extend_from_slice(&c.sport.to_be_bytes());
    o.extend_from_slice(&c.dport.to_be_bytes());
    o.extend_from_slice(&c.seq.to_be_bytes());
    o.extend_from_slice(&c.ack.unwrap_or(0).to_be_bytes());
    o.push(0x50 | (extra & 1));
    o.push(c.control_byte(extra));
    o.extend_from_slice(&c.wnd.to_be_bytes());
    o.extend_from_slice(&ck.to_be_bytes());
    o.extend_from_slice(&c.urg.unwrap_or(0).to_be_bytes());
    o.extend_from_slice(&c.payload);
    o
}

fn tcp_craft(c: &mut TcpCase) {
    if c.kind != Kind::AllOnesSum {
        return;
    }
    if c.payload.len() >= 2 {
        c.payload[0] = 0;
        c.payload[1] = 0;
        let r = !transport_sum(c.src, c.dst, 6, &tcp_ref_bytes(c, c.extra, 0));
        c.payload[..2].copy_from_slice(&r.to_be_bytes());
        c.crafted_slot = "payload[0..2]";
    } else {
        c.wnd = 0;
        c.wnd = !transport_sum(c.src, c.dst, 6, &tcp_ref_bytes(c, c.extra, 0));
        c.crafted_slot = "window";
    }
}

fn tcp_emit(c: &TcpCase) -> Result<Vec<u8>, String> {
    let text = to_message(&[], &c.payload, c.chunk);
    let mut b = TcpHeaderBuilder::new(c.sport, c.dport, c.seq).wnd(c.wnd);
    if let Some(a) = c.ack {
        b = b.ack(a);
    }
    if c.ctl & 1 != 0 {
        b = b.fin();
    }
    if c.ctl & 2 != 0 {
        b = b.syn();
    }
    if c.ctl & 4 != 0 {
        b = b.rst();
    }
    if c.ctl & 8 != 0 {
        b = b.psh();
    }
    if let Some(u) = c.urg {
        b = b.urg(u);
    }
    b.build(c.src.into(), c.dst.into(), text.iter(), text.len())
        .map(|h| h.serialize())
        .map_err(|e| format!("{e:?}"))
}

struct TcpPart {
    name: String,
    addr: Vec<([u8; 4], [u8; 4])>,
    ports: Vec<(u16, u16)>,
    seq: Vec<u32>,
    ack: Vec<Option<u32>>,
    ctl: Vec<u8>,
    urg: Vec<Option<u16>>,
    wnd: Vec<u16>,
    extra: Vec<u8>,
    len: Vec<usize>,
    chunk: Vec<usize>,
}

impl TcpPart {
    fn product(&self) -> Product {
        Product::new(&[
            self.addr.len(),
            self.ports.len(),
            self.seq.len(),
            self.ack.len(),
            self.ctl.len(),
            self.urg.len(),
            self.wnd.len(),
            self.extra.len(),
            self.len.len(),
            KINDS.len(),
            self.chunk.len(),
        ])
    }
    fn case(&self, i: u64) -> TcpCase {
        let d = self.product().decode(i);
        let mut c = TcpCase {
            src: self.addr[d[0]].0,
            dst: self.addr[d[0]].1,
            sport: self.ports[d[1]].0,
            dport: self.ports[d[1]].1,
            seq: self.seq[d[2]],
            ack: self.ack[d[3]],
            ctl: self.ctl[d[4]],
            urg: self.urg[d[5]],
            wnd: self.wnd[d[6]],
            extra: self.extra[d[7]],
            len: self.len[d[8]],
            kind: KINDS[d[9]],
            chunk: self.chunk[d[10]],
            crafted_slot: "-",
            payload: payload(KINDS[d[9]], self.len[d[8]]),
        };
        tcp_craft(&mut c);
        c
    }
}

impl Part for TcpPart {
    fn name(&self) -> String {
        self.name.clone()
    }
    fn rule(&self) -> &'static str {
        "non-trivial = segment emitted by TcpHeaderBuilder::build + serialize and conforming segment decoded by TcpHeader::from_bytes; distinct by (pseudo header, emitted header, conforming header, payload shape, chunking)"
    }
    fn total(&self) -> u64 {
        self.product().total()
    }
    fn describe(&self, i: u64) -> Value {
        let c = self.case(i);
        json!({"source": ip(c.src), "destination": ip(c.dst), "source_port": c.sport,
               "destination_port": c.dport, "seq": c.seq, "ack": c.ack, "ctl_fin1_syn2_rst4_psh8": c.ctl,
               "urg": c.urg, "wnd": c.wnd, "extra_ns1_ece2_cwr4_conforming_only": c.extra,
               "payload_kind": format!("{:?}", c.kind), "payload_length": c.len,
               "payload_first_bytes": hex(&c.payload[..c.len.min(8)]),
               "chunking": c.chunk, "crafted_slot": c.crafted_slot})
    }
    fn eval(&self, i: u64, log: &mut Option<Vec<String>>) -> CaseOutcome {
        let c = self.case(i);
        let mut v = vec![];
        say!(log, "case {}", c.short());
        if c.len % 2 == 1 {
            ODD_CASES.fetch_add(1, Relaxed);
        }
        // --- emission (Elvis cannot set ns/ece/cwr)
        let data_sum = transport_sum(c.src, c.dst, 6, &tcp_ref_bytes(&c, 0, 0));
        if data_sum == 0xffff {
            ALL_ONES_CASES.fetch_add(1, Relaxed);
        }
        let emitted = tcp_emit(&c);
        match &emitted {
            Err(e) => v.push(Violation::new(
                "emit-verifies",
                SITE_TCP_BUILD,
                "build-error",
                format!("in-domain segment not built: {e}; {}", c.short()),
            )),
            Ok(h) => {
                let mut pkt = h.clone();
                pkt.extend_from_slice(&c.payload);
                let s = transport_sum(c.src, c.dst, 6, &pkt);
                say!(log, "emitted header {}  sum-without-field={data_sum:#06x} verify-sum={s:#06x}", hex(h));
                if h.len() != 20 || s != 0xffff {
                    v.push(Violation::new(
                        "emit-verifies",
                        SITE_TCP_BUILD,
                        emit_class(data_sum, c.len),
                        format!("emitted header {} + payload sums to {s:#06x}, not 0xffff; {}", hex(h), c.short()),
                    ));
                }
                if h.len() == 20 {
                    let got = u16::from_be_bytes([h[16], h[17]]);
                    match etherparse::TcpHeader::from_slice(h)
                        .map_err(|e| format!("{e:?}"))
                        .and_then(|(th, _)| {
                            th.calc_checksum_ipv4_raw(c.src, c.dst, &c.payload)
                                .map_err(|e| format!("{e:?}"))
                        }) {
                        Ok(ck) => {
                            say!(log, "etherparse computes {ck:#06x} for the emitted segment, field is {got:#06x}");
                            if !same_mod_negzero(got, ck) {
                                v.push(Violation::new(
                                    "emit-matches-etherparse",
                                    SITE_TCP_BUILD,
                                    "differs",
                                    format!("emitted {got:#06x}, etherparse {ck:#06x}; {}", c.short()),
                                ));
                            } else if got != ck {
                                NEGZERO_EMIT.fetch_add(1, Relaxed);
                            }
                        }
                        Err(e) => v.push(Violation::new(
                            "emit-matches-etherparse",
                            SITE_TCP_BUILD,
                            "unparseable",
                            format!("etherparse cannot read emitted header {}: {e}", hex(h)),
                        )),
                    }
                }
            }
        }
        // --- acceptance of the conforming segment (may carry ns/ece/cwr)
        let mut th = etherparse::TcpHeader::new(c.sport, c.dport, c.seq, c.wnd);
        th.acknowledgment_number = c.ack.unwrap_or(0);
        th.ack = c.ack.is_some();
        th.fin = c.ctl & 1 != 0;
        th.syn = c.ctl & 2 != 0;
        th.rst = c.ctl & 4 != 0;
        th.psh = c.ctl & 8 != 0;
        th.urg = c.urg.is_some();
        th.urgent_pointer = c.urg.unwrap_or(0);
        th.ns = c.extra & 1 != 0;
        th.ece = c.extra & 2 != 0;
        th.cwr = c.extra & 4 != 0;
        th.checksum = th
            .calc_checksum_ipv4_raw(c.src, c.dst, &c.payload)
            .expect("etherparse computes in-range TCP checksum");
        let mut conf = vec![];
        th.write(&mut conf).expect("etherparse writes TCP header");
        let conf_sum = transport_sum(c.src, c.dst, 6, &tcp_ref_bytes(&c, c.extra, 0));
        if conf_sum == 0xffff && c.extra != 0 {
            ALL_ONES_CASES.fetch_add(1, Relaxed);
        }
        let own = tcp_ref_bytes(&c, c.extra, !conf_sum);
        if own[..20] != conf[..] {
            REF_DISAGREE.fetch_add(1, Relaxed);
            say!(log, "REFERENCE DISAGREEMENT own {} etherparse {}", hex(&own[..20]), hex(&conf));
        }
        let msg = to_message(&conf, &c.payload, c.chunk);
        let dec = TcpHeader::from_bytes(msg.iter(), msg.len(), c.src.into(), c.dst.into());
        say!(log, "conforming header {} (checksum {:#06x}) -> decoder {:?}", hex(&conf), th.checksum, dec);
        if let Err(e) = &dec {
            let d = format!("{e:?}");
            v.push(Violation::new(
                "accept-conforming",
                SITE_TCP_PARSE,
                &accept_class(&d, th.checksum, c.len),
                format!("decoder rejects conforming segment (header {}) with {d}; {}", hex(&conf), c.short()),
            ));
        }
        let k = key128(&(c.src, c.dst, emitted.ok(), conf, c.kind, c.len, c.chunk)) as u64;
        CaseOutcome {
            nontrivial: Some(k),
            violations: v,
        }
    }
}

// ---------------------------------------------------------------------------------------------
// Corruption: every single flip and every pair of flips over a window of really emitted packets.

#[derive(Clone, Copy, Debug)]
enum Loc {
    Byte(usize),
    Src(usize),
    Dst(usize),
}

struct Pkt {
    /// 4 = bare IPv4 header, 17 = UDP datagram, 6 = TCP segment
    proto: u8,
    src: [u8; 4],
    dst: [u8; 4],
    bytes: Vec<u8>,
    label: String,
    locs: Vec<Loc>,
}

impl Pkt {
    fn new(proto: u8, src: [u8; 4], dst: [u8; 4], bytes: Vec<u8>, label: String) -> Self {
        let hdr = match proto {
            4 => 20,
            17 => 8,
            _ => 20,
        };
        let mut locs: Vec<Loc> = (0..hdr.min(bytes.len())).map(Loc::Byte).collect();
        if proto != 4 {
            let n = bytes.len();
            let first_end = (hdr + 8).min(n);
            locs.extend((hdr..first_end).map(Loc::Byte));
            let last_start = n.saturating_sub(8).max(first_end);
            locs.extend((last_start..n).map(Loc::Byte));
            locs.extend((0..4).map(Loc::Src));
            locs.extend((0..4).map(Loc::Dst));
        }
        Self {
            proto,
            src,
            dst,
            bytes,
            label,
            locs,
        }
    }
    fn npos(&self) -> usize {
        self.locs.len() * 8
    }
    fn field(&self, loc: Loc) -> &'static str {
        match (self.proto, loc) {
            (_, Loc::Src(_)) => "pseudo-source",
            (_, Loc::Dst(_)) => "pseudo-destination",
            (4, Loc::Byte(b)) => match b {
                0 => "version-ihl",
                1 => "tos",
                2..=3 => "total-length",
                4..=5 => "identification",
                6..=7 => "flags-fragment-offset",
                8 => "ttl",
                9 => "protocol",
                10..=11 => "checksum",
                12..=15 => "source",
                _ => "destination",
            },
            (17, Loc::Byte(b)) => match b {
                0..=1 => "source-port",
                2..=3 => "destination-port",
                4..=5 => "length",
                6..=7 => "checksum",
                _ => "payload",
            },
            (_, Loc::Byte(b)) => match b {
                0..=1 => "source-port",
                2..=3 => "destination-port",
                4..=7 => "seq",
                8..=11 => "ack",
                12 => "data-offset-reserved",
                13 => "control",
                14..=15 => "window",
                16..=17 => "checksum",
                18..=19 => "urgent",
                _ => "payload",
            },
        }
    }
}

/// Coarse region of a field, for signatures (the field names go into the detail).
fn region(field: &str) -> &'static str {
    match field {
        "payload" => "payload",
        "pseudo-source" | "pseudo-destination" => "pseudo-header",
        _ => "header",
    }
}

struct Work {
    bytes: Vec<u8>,
    src: [u8; 4],
    dst: [u8; 4],
}

impl Work {
    fn flip(&mut self, p: &Pkt, pos: usize) {
        let mask = 0x80u8 >> (pos % 8);
        match p.locs[pos / 8] {
            Loc::Byte(b) => self.bytes[b] ^= mask,
            Loc::Src(b) => self.src[b] ^= mask,
            Loc::Dst(b) => self.dst[b] ^= mask,
        }
    }
    /// Reference: does the altered packet still verify?
    fn verifies(&self, p: &Pkt) -> bool {
        match p.proto {
            4 => ref_sum(self.bytes[..20].iter().copied()) == 0xffff,
            proto => transport_sum(self.src, self.dst, proto, &self.bytes) == 0xffff,
        }
    }
    /// The real decoder: Ok = delivered.
    fn decode(&self, p: &Pkt) -> Result<(), String> {
        let it = self.bytes.iter().copied();
        match p.proto {
            4 => Ipv4Header::from_bytes(it).map(|_| ()).map_err(|e| format!("{e:?}")),
            17 => UdpHeader::from_bytes_ipv4(it, self.bytes.len(), self.src.into(), self.dst.into())
                .map(|_| ())
                .map_err(|e| format!("{e:?}")),
            _ => TcpHeader::from_bytes(it, self.bytes.len(), self.src.into(), self.dst.into())
                .map(|_| ())
                .map_err(|e| format!("{e:?}")),
        }
    }
}

struct FlipPart {
    name: String,
    site: &'static str,
    pkts: Vec<Pkt>,
    maxpos: usize,
}

impl FlipPart {
    fn new(name: &str, site: &'static str, pkts: Vec<Pkt>) -> Self {
        let maxpos = pkts.iter().map(|p| p.npos()).max().unwrap_or(0);
        Self {
            name: name.into(),
            site,
            pkts,
            maxpos,
        }
    }
}

impl Part for FlipPart {
    fn name(&self) -> String {
        self.name.clone()
    }
    fn rule(&self) -> &'static str {
        "case = (emitted packet, first flipped bit i); it evaluates the single flip i and every pair (i, j>i) over header, first/last 8 payload bytes and pseudo-header addresses. non-trivial = at least one flip the reference can detect was put to the decoder; distinct by (packet, i)"
    }
    fn total(&self) -> u64 {
        (self.pkts.len() * self.maxpos) as u64
    }
    fn describe(&self, i: u64) -> Value {
        if self.maxpos == 0 {
            return json!({});
        }
        let p = &self.pkts[(i / self.maxpos as u64) as usize];
        let pos = (i % self.maxpos as u64) as usize;
        if pos >= p.npos() {
            return json!({"packet": p.label, "first_flip": "beyond this packet's window (trivial)"});
        }
        json!({"packet": p.label, "pseudo_source": ip(p.src), "pseudo_destination": ip(p.dst),
               "length": p.bytes.len(), "head": hex(&p.bytes[..p.bytes.len().min(28)]),
               "first_flip": format!("{:?} bit {} ({})", p.locs[pos / 8], 7 - pos % 8, p.field(p.locs[pos / 8]))})
    }
    fn eval(&self, i: u64, log: &mut Option<Vec<String>>) -> CaseOutcome {
        let p = &self.pkts[(i / self.maxpos as u64) as usize];
        let first = (i % self.maxpos as u64) as usize;
        if first >= p.npos() {
            return CaseOutcome::ok(None);
        }
        let mut w = Work {
            bytes: p.bytes.clone(),
            src: p.src,
            dst: p.dst,
        };
        say!(log, "packet {} ({} bytes) head {}", p.label, p.bytes.len(), hex(&p.bytes[..p.bytes.len().min(28)]));
        say!(log, "unaltered: reference verifies={} decoder={:?}", w.verifies(p), w.decode(p));
        let f1 = p.field(p.locs[first / 8]);
        w.flip(p, first);
        let mut viol: Vec<Violation> = vec![];
        let (mut det, mut undet, mut shown) = (0u64, 0u64, 0);
        for second in first..p.npos() {
            if second > first {
                w.flip(p, second);
            }
            let detectable = !w.verifies(p);
            if detectable {
                det += 1;
                let r = w.decode(p);
                if r.is_ok() {
                    let f2 = p.field(p.locs[second / 8]);
                    let disc = if second == first {
                        format!("single-flip:{}", region(f1))
                    } else {
                        format!("double-flip:{}+{}", region(f1), region(f2))
                    };
                    let detail = format!(
                        "packet {} with {:?} bit {} ({f1}) and {:?} bit {} ({f2}) flipped no longer verifies (reference) but the decoder returns Ok",
                        p.label, p.locs[first / 8], 7 - first % 8, p.locs[second / 8], 7 - second % 8
                    );
                    if shown < 12 {
                        say!(log, "ACCEPTED ALTERED: {detail}");
                        shown += 1;
                    }
                    let nv = Violation::new("reject-corrupt", self.site, &disc, detail);
                    if !viol.iter().any(|x| x.signature() == nv.signature()) {
                        viol.push(nv);
                    }
                }
            } else {
                undet += 1;
            }
            if second > first {
                w.flip(p, second);
            }
        }
        FLIPS_SINGLE.fetch_add(1, Relaxed);
        FLIPS_PAIR.fetch_add((p.npos() - first - 1) as u64, Relaxed);
        FLIPS_DETECTABLE.fetch_add(det, Relaxed);
        FLIPS_UNDETECTABLE.fetch_add(undet, Relaxed);
        say!(log, "first flip {:?} bit {} ({f1}): {} alterations detectable by the checksum, {} not (skipped), {} accepted although detectable",
             p.locs[first / 8], 7 - first % 8, det, undet, viol.len());
        CaseOutcome {
            nontrivial: if det > 0 { Some(key128(&(&self.name, i)) as u64) } else { None },
            violations: viol,
        }
    }
}

// ---------------------------------------------------------------------------------------------
// Alphabets.

const A1: ([u8; 4], [u8; 4]) = ([10, 0, 0, 1], [10, 0, 0, 2]);
const A2: ([u8; 4], [u8; 4]) = ([0, 0, 0, 0], [255, 255, 255, 255]);
const A3: ([u8; 4], [u8; 4]) = ([127, 0, 0, 1], [123, 45, 67, 89]);
const A4: ([u8; 4], [u8; 4]) = ([255, 255, 255, 255], [255, 255, 255, 254]);
const A5: ([u8; 4], [u8; 4]) = ([192, 168, 255, 255], [0, 0, 0, 1]);

fn flip_packets(tier: &str) -> (Vec<Pkt>, Vec<Pkt>, Vec<Pkt>) {
    let thorough = tier == "thorough";
    let mut ips = vec![];
    let mut udps = vec![];
    let mut tcps = vec![];
    // IPv4 headers
    let ids: &[Option<u16>] = &[Some(0), Some(0xffff), None];
    for &tos in &[0x00u8, 0xfc] {
        for &plen in if thorough { &[0u16, 1480, 65515][..] } else { &[0u16, 65515][..] } {
            for id in ids {
                for &(frag, flags) in &[(0u16, 0u8), (0x1fff, 3), (185, 2)] {
                    for a in [A1, A4] {
                        let mut c = Ip4Case {
                            tos, plen, id: id.unwrap_or(0), crafted: id.is_none(), frag, flags,
                            proto: if flags == 3 { 6 } else { 17 }, ttl: 30, src: a.0, dst: a.1,
                        };
                        if c.crafted {
                            c.id = !ref_sum(ip4_ref_bytes(&c, 30, 0).into_iter());
                        }
                        if let Ok(mut b) = ip4_emit(&c) {
                            let mut label = format!("ipv4 {c:?}");
                            if b.len() != 20 || ref_sum(b.iter().copied()) != 0xffff {
                                // emission is broken (reported by the ipv4 part): corrupt the
                                // conforming header instead so the decoder is still exercised
                                b = ip4_ref_bytes(&c, 30, !ref_sum(ip4_ref_bytes(&c, 30, 0).into_iter()));
                                label.push_str(" (reference bytes: emission does not verify)");
                            }
                            ips.push(Pkt::new(4, c.src, c.dst, b, label));
                        }
                    }
                }
            }
        }
    }
    // UDP datagrams
    let ulens: &[usize] = if thorough {
        &[0, 1, 2, 3, 8, 15, 16, 17, 1459, 1460, 65507]
    } else {
        &[0, 1, 2, 3, 15, 16, 17, 1460, 65507]
    };
    for a in [A1, A4] {
        for &(sport, dport) in &[(0u16, 0xffffu16), (53, 49152)] {
            for &len in ulens {
                for kind in [Kind::Zeros, Kind::Ones, Kind::Incr, Kind::AllOnesSum] {
                    // the maximal datagram once per content kind only
                    if len > 2000 && (a.0 != A1.0 || sport != 53 || (!thorough && kind != Kind::AllOnesSum)) {
                        continue;
                    }
                    let mut c = UdpCase {
                        src: a.0, dst: a.1, sport, dport, len, kind, chunk: 0,
                        crafted_slot: "-", payload: payload(kind, len),
                    };
                    udp_craft(&mut c);
                    if let Ok(mut b) = udp_emit(&c) {
                        b.extend_from_slice(&c.payload);
                        let mut label = c.short();
                        if b.len() != 8 + c.len || transport_sum(c.src, c.dst, 17, &b) != 0xffff {
                            let s = transport_sum(c.src, c.dst, 17, &udp_ref_bytes(&c, 0));
                            b = udp_ref_bytes(&c, if s == 0xffff { 0xffff } else { !s });
                            label.push_str(" (reference bytes: emission does not verify)");
                        }
                        udps.push(Pkt::new(17, c.src, c.dst, b, label));
                    }
                }
            }
        }
    }
    // TCP segments
    let tlens: &[usize] = if thorough {
        &[0, 1, 2, 3, 16, 17, 1459, 1460, 65515]
    } else {
        &[0, 1, 2, 17, 1460, 65515]
    };
    let shapes: &[(u32, Option<u32>, u8, Option<u16>, u16)] = &[
        (0, None, 2, None, 0xffff),
        (0xffff_ffff, Some(0x8000_0000), 8, None, 4096),
        (0x1234_5678, Some(1), 1 | 4, Some(0xffff), 0),
    ];
    for a in [A1, A4] {
        for sh in shapes {
            for &len in tlens {
                for kind in [Kind::Zeros, Kind::Ones, Kind::Incr, Kind::AllOnesSum] {
                    if len > 2000 && (a.0 != A1.0 || sh.2 != 8 || (!thorough && kind != Kind::AllOnesSum)) {
                        continue;
                    }
                    if !thorough && a.0 == A4.0 && kind == Kind::Zeros {
                        continue;
                    }
                    let mut c = TcpCase {
                        src: a.0, dst: a.1, sport: 80, dport: 0xc001, seq: sh.0, ack: sh.1, ctl: sh.2,
                        urg: sh.3, wnd: sh.4, extra: 0, len, kind, chunk: 0, crafted_slot: "-",
                        payload: payload(kind, len),
                    };
                    tcp_craft(&mut c);
                    if let Ok(mut b) = tcp_emit(&c) {
                        b.extend_from_slice(&c.payload);
                        let mut label = c.short();
                        if b.len() != 20 + c.len || transport_sum(c.src, c.dst, 6, &b) != 0xffff {
                            let s = transport_sum(c.src, c.dst, 6, &tcp_ref_bytes(&c, 0, 0));
                            b = tcp_ref_bytes(&c, 0, !s);
                            label.push_str(" (reference bytes: emission does not verify)");
                        }
                        tcps.push(Pkt::new(6, c.src, c.dst, b, label));
                    }
                }
            }
        }
    }
    (ips, udps, tcps)
}

fn parts(tier: &str) -> Vec<Box<dyn Part>> {
    let t = tier;
    let thorough = tier == "thorough";
    let mut out: Vec<Box<dyn Part>> = vec![];
    // ---- IPv4
    out.push(Box::new(if thorough {
        Ip4Part {
            name: format!("ipv4 [{t}]"),
            tos: (0..64).map(|x| x << 2).collect(),
            plen: vec![0, 1, 7, 8, 1479, 1480, 32768, 65514, 65515],
            id: vec![Some(0), Some(1), Some(0x00ff), Some(0xff00), Some(0x7fff), Some(0x8000), Some(0xfffe), Some(0xffff), None],
            frag: vec![0, 1, 185, 0x1000, 0x1fff],
            flags: vec![0, 1, 2, 3],
            proto: vec![6, 17, 0, 255],
            ttl: vec![30, 0, 255],
            src: vec![A2.0, A1.0, A3.0, A4.0, A5.0],
            dst: vec![A2.1, A1.1, A3.1, A5.1, [255, 255, 0, 0]],
        }
    } else {
        Ip4Part {
            name: format!("ipv4 [{t}]"),
            tos: vec![0x00, 0x04, 0x08, 0x10, 0x20, 0x80, 0xa4, 0xfc],
            plen: vec![0, 1, 8, 1480, 65514, 65515],
            id: vec![Some(0), Some(1), Some(0x00ff), Some(0x8000), Some(0xffff), None],
            frag: vec![0, 1, 185, 0x1fff],
            flags: vec![0, 1, 2, 3],
            proto: vec![6, 17, 0, 255],
            ttl: vec![30, 0, 255],
            src: vec![A2.0, A1.0, A3.0, A4.0, A5.0],
            dst: vec![A2.1, A1.1, A3.1, A5.1, [255, 255, 0, 0]],
        }
    }));
    // ---- UDP
    out.push(Box::new(if thorough {
        UdpPart {
            name: format!("udp [{t}]"),
            addr: vec![A1, A2, A3, A4, A5],
            sport: vec![0, 1, 53, 0x8000, 0xffff],
            dport: vec![0, 80, 0x00ff, 0x8000, 0xffff],
            len: vec![0, 1, 2, 3, 4, 5, 7, 8, 9, 15, 16, 17, 255, 256, 511, 1459, 1460, 1461, 1472, 65506, 65507, 65527],
            chunk: vec![0, 1, 2],
        }
    } else {
        UdpPart {
            name: format!("udp [{t}]"),
            addr: vec![A1, A2, A3, A4],
            sport: vec![0, 53, 0xffff],
            dport: vec![0, 80, 0x8000, 0xffff],
            len: vec![0, 1, 2, 3, 8, 9, 1459, 1460, 65506, 65507],
            chunk: vec![0, 1],
        }
    }));
    // ---- TCP: full header alphabets with payloads up to one MSS, reduced ones with maximal payloads
    if thorough {
        out.push(Box::new(TcpPart {
            name: format!("tcp [{t}]"),
            addr: vec![A1, A2, A3, A4, A5],
            ports: vec![(0, 0), (80, 49152), (0xffff, 0xffff), (0x00ff, 0xff00)],
            seq: vec![0, 1, 0x0001_ffff, 0x8000_0000, 0xffff_ffff],
            ack: vec![None, Some(0), Some(0xffff_ffff)],
            ctl: vec![0, 2, 1 | 8, 4, 8, 15],
            urg: vec![None, Some(0), Some(0xffff)],
            wnd: vec![0, 1, 4096, 0xffff],
            extra: vec![0, 1, 6, 7],
            len: vec![0, 1, 2, 3, 4, 5, 255, 256, 1459, 1460, 1461],
            chunk: vec![0, 1, 2],
        }));
        out.push(Box::new(TcpPart {
            name: format!("tcp-large [{t}]"),
            addr: vec![A1, A4],
            ports: vec![(80, 49152), (0xffff, 0xffff)],
            seq: vec![0, 0xffff_ffff],
            ack: vec![None, Some(0xffff_ffff)],
            ctl: vec![0, 2, 1 | 8],
            urg: vec![None, Some(0xffff)],
            wnd: vec![0, 0xffff],
            extra: vec![0, 7],
            len: vec![32768, 65514, 65515],
            chunk: vec![0, 1, 2],
        }));
    } else {
        out.push(Box::new(TcpPart {
            name: format!("tcp [{t}]"),
            addr: vec![A1, A3, A4],
            ports: vec![(0, 0), (80, 49152), (0xffff, 0xffff)],
            seq: vec![0, 1, 0x8000_0000, 0xffff_ffff],
            ack: vec![None, Some(0), Some(0xffff_ffff)],
            ctl: vec![0, 2, 1 | 8, 4, 15],
            urg: vec![None, Some(0xffff)],
            wnd: vec![0, 4096, 0xffff],
            extra: vec![0, 1, 6, 7],
            len: vec![0, 1, 2, 3, 4, 5, 1459, 1460],
            chunk: vec![0, 1],
        }));
        out.push(Box::new(TcpPart {
            name: format!("tcp-large [{t}]"),
            addr: vec![A1, A4],
            ports: vec![(80, 49152)],
            seq: vec![0, 0xffff_ffff],
            ack: vec![None, Some(0xffff_ffff)],
            ctl: vec![2, 1 | 8],
            urg: vec![None, Some(0xffff)],
            wnd: vec![0xffff],
            extra: vec![0, 7],
            len: vec![65514, 65515],
            chunk: vec![0, 1],
        }));
    }
    // ---- corruption
    let (ips, udps, tcps) = match vkit::catch(|| flip_packets(tier)) {
        Ok(x) => x,
        Err(_) => (vec![], vec![], vec![]),
    };
    out.push(Box::new(FlipPart::new(&format!("flip-ipv4 [{t}]"), SITE_IP_PARSE, ips)));
    out.push(Box::new(FlipPart::new(&format!("flip-udp [{t}]"), SITE_UDP_PARSE, udps)));
    out.push(Box::new(FlipPart::new(&format!("flip-tcp [{t}]"), SITE_TCP_PARSE, tcps)));
    out
}

// ---------------------------------------------------------------------------------------------

pub fn run(report: &mut Report, tier: &str) {
    report.assume("elvis-core is built with features verif + compute_checksum (vsum's own build)");
    report.assume("emission is exercised through the entry points the sessions use: Ipv4HeaderBuilder (via verif_build_header), build_udp_header, TcpHeaderBuilder::build + TcpHeader::serialize; decoding through Ipv4Header::from_bytes, UdpHeader::from_bytes_ipv4, TcpHeader::from_bytes");
    report.assume("domain: IHL 5, no TCP options, ToS reserved bits 0, lengths within what the 16-bit length fields can hold; the builder fixes TTL 30, other TTLs appear in conforming packets only");
    report.assume("a one's-complement sum of 0x0000 over the covered words is unreachable (IPv4 version nibble, pseudo-header protocol and length are non-zero); the 0xffff sum is reached by crafted cases");
    report.assume("corruption window: all header bits, first and last 8 payload bytes, the 64 pseudo-header address bits; 'detectable' = the RFC 1071 reference no longer verifies the altered packet");
    let ps = parts(tier);
    let mut flip_parts = 0u64;
    for p in &ps {
        enumerate::run_into(
            report,
            &p.name(),
            p.rule(),
            p.total(),
            |i| p.eval(i, &mut None),
            |i| p.describe(i),
        );
    }
    for p in &ps {
        if p.name().starts_with("flip-") && p.total() > 0 {
            flip_parts += 1;
        }
    }
    if flip_parts != 3 {
        report.machinery_error("a corruption part has no emitted packet to work on (emission failed or panicked)");
    }
    let (ips, udps, tcps) = vkit::catch(|| flip_packets(tier)).unwrap_or_default();
    report.set("flip_packets", json!({"ipv4": ips.len(), "udp": udps.len(), "tcp": tcps.len()}));
    report.set("flips_single", json!(FLIPS_SINGLE.load(Relaxed)));
    report.set("flips_pair", json!(FLIPS_PAIR.load(Relaxed)));
    report.set("flips_detectable_put_to_decoder", json!(FLIPS_DETECTABLE.load(Relaxed)));
    report.set("flips_undetectable_skipped", json!(FLIPS_UNDETECTABLE.load(Relaxed)));
    report.set("cases_with_all_ones_sum", json!(ALL_ONES_CASES.load(Relaxed)));
    report.set("cases_with_odd_payload", json!(ODD_CASES.load(Relaxed)));
    report.set("negzero_emissions", json!(NEGZERO_EMIT.load(Relaxed)));
    let dis = REF_DISAGREE.load(Relaxed);
    if dis > 0 {
        report.machinery_error(format!(
            "the RFC 1071 reference and etherparse disagree on {dis} conforming packets"
        ));
    }
    report.set("exhaustive", json!(true));
    report.set(
        "rule",
        json!("E3: full Cartesian products of the alphabets named in each part; corruption parts enumerate every single flip and every pair of flips in the stated window of every listed emitted packet"),
    );
}

pub fn replay(w: &Value, tier: &str) -> String {
    let name = w["part"].as_str().unwrap_or("");
    let index = w["index"].as_u64().unwrap_or(0);
    for t in [tier, "quick", "thorough"] {
        for p in parts(t) {
            if p.name() == name {
                if index >= p.total() {
                    return format!("index {index} out of range for part {name}");
                }
                let mut log = Some(vec![format!("part {name} index {index}: {}", p.describe(index))]);
                let out = match vkit::catch(|| p.eval(index, &mut log)) {
                    Ok(o) => o,
                    Err(pi) => {
                        let mut l = log.unwrap_or_default();
                        l.push(format!("PANIC at {}: {}", pi.location, pi.message));
                        return l.join("\n");
                    }
                };
                let mut l = log.unwrap_or_default();
                if out.violations.is_empty() {
                    l.push("no violation".into());
                }
                for v in out.violations {
                    l.push(format!("VIOLATION {} :: {}", v.signature(), v.detail));
                }
                return l.join("\n");
            }
        }
    }
    format!("unknown part {name}")
}
