//! C19 - A network description means what it says.
//!
//! Real code under test: `elvis::ndl::core_parser` (parser.rs, parser_util.rs, network_parser.rs,
//! machine_parser.rs) and `elvis::ndl::generate_and_run_sim` (sim_creator.rs, generating/*).
//!
//! The harness owns a small description tree (`Tree`), a renderer (the inverse of the grammar)
//! and the expected `Sim` built straight from the tree. Three families of parts:
//!
//! * `roundtrip` (E3): every tree x every rendering; `core_parser(render(S)) == S`.
//! * `reject` (E3): every structural error (wrong nesting, unknown section type, missing required
//!   section, duplicate network id, duplicate argument) at every position of every tree; the
//!   result must be `Err(message)`: never `Ok`, never a panic.
//! * `run-default` (E3 over trees, default schedule, each executed twice) and `run tree ..` (E2,
//!   every schedule within one deviation): `generate_and_run_sim` on a paused runtime returns
//!   `Some(Exited)` and every payload a sender was told to send is seen on the wire addressed to
//!   the receiver's address and port.
//! * Two small families kept apart because the unmodified generator fails them (their signatures
//!   carry the family): `run-second-network` (the network a sender shares with its receiver is
//!   the second one in the sender's list) and `run-arp-preconfigured`
//!   (`[Protocol name='ARP' local='..' default='..']`, the arguments `arp_builder` reads).
//!
//! Scratch files live in `$VERIF_ROOT/target/tmp`, one per worker thread, overwritten in place.
//! Every run execution leaves its machines behind (about 35 KB, reference cycles inside the
//! simulator), so the size of the run products is chosen with memory in mind.

use elvis::ndl::{core_parser, generate_and_run_sim, parsing::parsing_data as pd};
use elvis_core::protocols::ipv4::Ipv4;
use serde_json::{json, Value};
use std::{
    any::TypeId,
    collections::{BTreeMap, HashMap},
    sync::Mutex,
    time::Duration,
};
use vkit::{
    enumerate::{self, CaseOutcome, Product},
    key128,
    sched::{self, Bounds, Scenario},
    Report, Violation,
};

// ---------------------------------------------------------------------------------------------
// The description tree and its renderer

type Args = Vec<(String, String)>;

#[derive(Clone, Debug)]
struct TNet {
    args: Args,
    ips: Vec<Args>,
}

#[derive(Clone, Debug)]
struct TMachine {
    args: Args,
    nets: Vec<Args>,
    protos: Vec<Args>,
    apps: Vec<Args>,
}

#[derive(Clone, Debug)]
struct Tree {
    nets: Vec<TNet>,
    machines: Vec<TMachine>,
}

/// One `[Type key='value' ...]` line at a nesting depth. An empty `ty` is a blank line.
#[derive(Clone, Debug, PartialEq)]
struct Line {
    depth: usize,
    ty: String,
    args: Args,
}

#[derive(Clone, Debug)]
struct Style {
    /// four spaces instead of a tab per level
    spaces: bool,
    crlf: bool,
    trailing_newline: bool,
    /// [Machines] before [Networks]
    machines_first: bool,
    /// order of Networks/Protocols/Applications inside machine k is permutation (perm + k) % 6
    perm: usize,
    /// a blank line between top-level sections
    blank: bool,
    /// one [Networks] section per network instead of one for all
    split: bool,
    /// section types in lower case (the grammar matches them without regard to case)
    lower: bool,
}

const STYLE_DIMS: [usize; 8] = [2, 2, 2, 2, 6, 2, 2, 2];
const PERMS: [[usize; 3]; 6] = [[0, 1, 2], [0, 2, 1], [1, 0, 2], [1, 2, 0], [2, 0, 1], [2, 1, 0]];

fn style(i: u64) -> Style {
    let d = Product::new(&STYLE_DIMS).decode(i % Product::new(&STYLE_DIMS).total());
    Style {
        spaces: d[0] == 1,
        crlf: d[1] == 1,
        trailing_newline: d[2] == 1,
        machines_first: d[3] == 1,
        perm: d[4],
        blank: d[5] == 1,
        split: d[6] == 1,
        lower: d[7] == 1,
    }
}

fn canonical() -> Style {
    Style {
        spaces: false,
        crlf: false,
        trailing_newline: true,
        machines_first: false,
        perm: 0,
        blank: false,
        split: false,
        lower: false,
    }
}

fn line(depth: usize, ty: &str, args: &Args) -> Line {
    Line {
        depth,
        ty: ty.into(),
        args: args.clone(),
    }
}

fn lines(t: &Tree, st: &Style) -> Vec<Line> {
    let none: Args = vec![];
    let mut nets = vec![];
    for (k, n) in t.nets.iter().enumerate() {
        if k == 0 || st.split {
            if k > 0 && st.blank {
                nets.push(line(0, "", &none));
            }
            nets.push(line(0, "Networks", &none));
        }
        nets.push(line(1, "Network", &n.args));
        for ip in &n.ips {
            nets.push(line(2, "IP", ip));
        }
    }
    let mut ms = vec![line(0, "Machines", &none)];
    for (k, m) in t.machines.iter().enumerate() {
        ms.push(line(1, "Machine", &m.args));
        for s in PERMS[(st.perm + k) % 6] {
            let (head, item, list) = match s {
                0 => ("Networks", "Network", &m.nets),
                1 => ("Protocols", "Protocol", &m.protos),
                _ => ("Applications", "Application", &m.apps),
            };
            ms.push(line(2, head, &none));
            for a in list {
                ms.push(line(3, item, a));
            }
        }
    }
    let (mut first, second) = if st.machines_first { (ms, nets) } else { (nets, ms) };
    if st.blank {
        first.push(line(0, "", &none));
    }
    first.extend(second);
    if st.lower {
        for l in &mut first {
            l.ty = l.ty.to_lowercase();
        }
    }
    first
}

fn text(ls: &[Line], st: &Style) -> String {
    let nl = if st.crlf { "\r\n" } else { "\n" };
    let ind = if st.spaces { "    " } else { "\t" };
    let mut out = vec![];
    for l in ls {
        if l.ty.is_empty() {
            out.push(String::new());
            continue;
        }
        let mut s = ind.repeat(l.depth);
        s.push('[');
        s.push_str(&l.ty);
        for (k, v) in &l.args {
            s.push_str(&format!(" {k}='{v}'"));
        }
        s.push(']');
        out.push(s);
    }
    let mut s = out.join(nl);
    if st.trailing_newline {
        s.push_str(nl);
    }
    s
}

fn map(a: &Args) -> HashMap<String, String> {
    a.iter().cloned().collect()
}

/// The structure the description denotes, in the parser's own types.
fn expected(t: &Tree) -> pd::Sim {
    let mut networks = HashMap::new();
    for n in &t.nets {
        let id = n.args.iter().find(|a| a.0 == "id").map(|a| a.1.clone()).unwrap_or_default();
        networks.insert(
            id,
            pd::Network {
                dectype: pd::DecType::Network,
                options: map(&n.args),
                ip: n
                    .ips
                    .iter()
                    .map(|a| pd::IP {
                        dectype: pd::DecType::IP,
                        options: map(a),
                    })
                    .collect(),
            },
        );
    }
    let machines = t
        .machines
        .iter()
        .map(|m| pd::Machine {
            dectype: pd::DecType::Machine,
            options: Some(map(&m.args)),
            interfaces: pd::Interfaces {
                networks: m
                    .nets
                    .iter()
                    .map(|a| pd::MachineNetwork {
                        dectype: pd::DecType::Network,
                        options: map(a),
                    })
                    .collect(),
                protocols: m
                    .protos
                    .iter()
                    .map(|a| pd::Protocol {
                        dectype: pd::DecType::Protocol,
                        options: map(a),
                    })
                    .collect(),
                applications: m
                    .apps
                    .iter()
                    .map(|a| pd::Application {
                        dectype: pd::DecType::Application,
                        options: map(a),
                    })
                    .collect(),
            },
        })
        .collect();
    pd::Sim { networks, machines }
}

/// First difference between the parsed structure and the expected one: (discriminator, detail).
fn diff(got: &pd::Sim, want: &pd::Sim) -> Option<(String, String)> {
    fn opts(what: &str, g: &HashMap<String, String>, w: &HashMap<String, String>) -> Option<(String, String)> {
        if g == w {
            return None;
        }
        let mut gk: Vec<_> = g.keys().collect();
        let mut wk: Vec<_> = w.keys().collect();
        gk.sort();
        wk.sort();
        if gk != wk {
            return Some((format!("{what}-argument-names-differ"), format!("parsed {gk:?}, described {wk:?}")));
        }
        let k = wk.iter().find(|k| g[**k] != w[**k]).unwrap();
        Some((
            format!("{what}-argument-value-changed"),
            format!("argument {k}: parsed {:?}, described {:?}", g[*k], w[*k]),
        ))
    }
    fn list(what: &str, g: Vec<&HashMap<String, String>>, w: Vec<&HashMap<String, String>>) -> Option<(String, String)> {
        if g.len() != w.len() {
            return Some((format!("{what}-count-differs"), format!("parsed {} entries, described {}", g.len(), w.len())));
        }
        for (a, b) in g.iter().zip(w.iter()) {
            if let Some(d) = opts(what, a, b) {
                return Some(d);
            }
        }
        None
    }
    let mut gk: Vec<_> = got.networks.keys().collect();
    let mut wk: Vec<_> = want.networks.keys().collect();
    gk.sort();
    wk.sort();
    if gk != wk {
        return Some(("network-ids-differ".into(), format!("parsed {gk:?}, described {wk:?}")));
    }
    for k in wk {
        let (g, w) = (&got.networks[k], &want.networks[k]);
        if g.dectype != w.dectype {
            return Some(("network-type-differs".into(), format!("{:?}", g.dectype)));
        }
        if let Some(d) = opts("network", &g.options, &w.options) {
            return Some(d);
        }
        if g.ip.iter().any(|i| i.dectype != pd::DecType::IP) {
            return Some(("ip-type-differs".into(), String::new()));
        }
        if let Some(d) = list("ip", g.ip.iter().map(|i| &i.options).collect(), w.ip.iter().map(|i| &i.options).collect()) {
            return Some(d);
        }
    }
    if got.machines.len() != want.machines.len() {
        return Some((
            "machine-count-differs".into(),
            format!("parsed {} machines, described {}", got.machines.len(), want.machines.len()),
        ));
    }
    for (g, w) in got.machines.iter().zip(want.machines.iter()) {
        if g.dectype != w.dectype {
            return Some(("machine-type-differs".into(), format!("{:?}", g.dectype)));
        }
        let empty = HashMap::new();
        if let Some(d) = opts("machine", g.options.as_ref().unwrap_or(&empty), w.options.as_ref().unwrap_or(&empty)) {
            return Some(d);
        }
        let (gi, wi) = (&g.interfaces, &w.interfaces);
        if gi.networks.iter().any(|x| x.dectype != pd::DecType::Network)
            || gi.protocols.iter().any(|x| x.dectype != pd::DecType::Protocol)
            || gi.applications.iter().any(|x| x.dectype != pd::DecType::Application)
        {
            return Some(("machine-entry-type-differs".into(), String::new()));
        }
        if let Some(d) = list(
            "machine-network",
            gi.networks.iter().map(|x| &x.options).collect(),
            wi.networks.iter().map(|x| &x.options).collect(),
        ) {
            return Some(d);
        }
        if let Some(d) = list(
            "protocol",
            gi.protocols.iter().map(|x| &x.options).collect(),
            wi.protocols.iter().map(|x| &x.options).collect(),
        ) {
            return Some(d);
        }
        if let Some(d) = list(
            "application",
            gi.applications.iter().map(|x| &x.options).collect(),
            wi.applications.iter().map(|x| &x.options).collect(),
        ) {
            return Some(d);
        }
    }
    if got != want {
        return Some(("structure-differs".into(), String::new()));
    }
    None
}

// ---------------------------------------------------------------------------------------------
// Generated trees

const SEND_CAP: u8 = 0;
const SEND_FWD_CAP: u8 = 1;
const PING_PONG: u8 = 2;
const KIND_NAMES: [&str; 3] = ["send_message->capture", "send_message->forward->capture", "ping_pong<->ping_pong"];

/// Argument values in the parser's raw representation (what stands between the quotes).
/// plain, with spaces (also leading/trailing, runs shorter than four), with an escaped quote,
/// with `=`, with `[`, empty.
const MSGS: [&str; 6] = ["Hello!", " two  words and a   gap ", "it\\'s \\'", "a=b=", "[x[[", ""];

fn styled(base: &str, s: u8) -> String {
    match s {
        // 5: names are plain, but the machine that nobody refers to by name (the first sender)
        // has no `name` argument at all and is declared last
        0 | 5 => base.to_string(),
        1 => format!("{base} no 1"),
        2 => format!("{base}\\'s"),
        3 => format!("{base}=x"),
        _ => format!("[{base}"),
    }
}

/// Where the machines sit.
/// 0 one network; 1 two networks, the second unused; 2 first machine on [A,B]; 3 last machine on
/// [A,B]; 4 (forward only) the forwarder on [B,A] and the capturer on B alone;
/// 5 first machine on [B,A] (the shared network is the one listed second).

#[derive(Clone, Debug, PartialEq, Eq, Hash)]
struct P {
    kind: u8,
    place: u8,
    /// 0 one range; 1 single `ip` entries; 2 a range and an `ip` entry
    pool: u8,
    /// bit 0: first `to` is an address (else a name); bit 1: second `to` is an address
    wire: u8,
    /// 0 IPv4,UDP; 1 IPv4,UDP,ARP; 2 auto-protocol='true' + UDP; 3 auto-protocol='false' + UDP,IPv4;
    /// 4 first machine auto-protocol='true' + UDP, the others ARP,UDP,IPv4;
    /// 5 IPv4,UDP,ARP where the first machine's ARP names its `local` address and `default` gateway
    proto: u8,
    msg: u8,
    names: u8,
    /// 0 capture without type; 1 type='count'; 2 type='message'
    cap: u8,
    /// 0 no count argument; 1 count='1'; 2 count='2'
    cnt: u8,
    /// the sender names its own address
    sip: bool,
    /// 0 hexadecimal ports; 1 decimal ports
    port: u8,
}

#[derive(Clone, Debug)]
struct Alpha {
    kinds: Vec<u8>,
    places: Vec<u8>,
    pools: Vec<u8>,
    wires: Vec<u8>,
    protos: Vec<u8>,
    msgs: Vec<u8>,
    names: Vec<u8>,
    caps: Vec<u8>,
    cnts: Vec<u8>,
    sips: Vec<bool>,
    ports: Vec<u8>,
}

impl Alpha {
    fn describe(&self) -> Value {
        json!({
            "applications": self.kinds.iter().map(|k| KIND_NAMES[*k as usize]).collect::<Vec<_>>(),
            "placements": self.places, "pools": self.pools, "wiring": self.wires, "protocols": self.protos,
            "message_values": self.msgs.iter().map(|m| MSGS[*m as usize]).collect::<Vec<_>>(),
            "name_styles": self.names.iter().map(|n| styled("x", *n)).collect::<Vec<_>>(),
            "capture": self.caps, "count": self.cnts, "sender_ip": self.sips, "ports": self.ports,
        })
    }
}

/// Full product of the alphabets, restricted to well-formed, runnable descriptions. A dimension
/// that does not appear in the text of a tree is pinned to its first value (no duplicates).
fn trees(a: &Alpha) -> Vec<P> {
    let mut v = vec![];
    for &kind in &a.kinds {
        for &place in &a.places {
            for &pool in &a.pools {
                for &wire in &a.wires {
                    for &proto in &a.protos {
                        for &msg in &a.msgs {
                            for &names in &a.names {
                                for &cap in &a.caps {
                                    for &cnt in &a.cnts {
                                        for &sip in &a.sips {
                                            for &port in &a.ports {
                                                let p = P { kind, place, pool, wire, proto, msg, names, cap, cnt, sip, port };
                                                if valid(&p, a) {
                                                    v.push(p);
                                                }
                                            }
                                        }
                                    }
                                }
                            }
                        }
                    }
                }
            }
        }
    }
    v
}

fn valid(p: &P, a: &Alpha) -> bool {
    if p.place == 4 && p.kind != SEND_FWD_CAP {
        return false;
    }
    if p.proto == 5 && p.kind != PING_PONG && !p.sip {
        // the preconfigured ARP names the sender's own address: the sender must have one
        return false;
    }
    if p.names == 5 && p.kind == PING_PONG {
        // both ping_pong machines are referred to by name
        return false;
    }
    if p.kind == PING_PONG {
        // no message, no capture, no count (a count on a ping_pong machine is refused), no sender ip
        return p.msg == a.msgs[0] && p.cap == a.caps[0] && p.cnt == a.cnts[0] && p.sip == a.sips[0];
    }
    if p.kind == SEND_CAP && p.wire > 1 {
        return false;
    }
    if p.cnt == 2 {
        // two senders: the capture must wait for both, and they cannot share one named address
        return p.cap == 1 && !p.sip;
    }
    // an empty message cannot be captured by content (nothing ever matches before the first datagram)
    true
}

struct Flow {
    dst: [u8; 4],
    dport: u16,
    payload: Vec<u8>,
    times: usize,
    what: String,
}

fn ip4(s: &str) -> [u8; 4] {
    let v: Vec<u8> = s.split('.').map(|x| x.parse().unwrap()).collect();
    [v[0], v[1], v[2], v[3]]
}

fn a(k: &str, v: &str) -> (String, String) {
    (k.to_string(), v.to_string())
}

fn build(p: &P) -> (Tree, Vec<Flow>) {
    let ida = styled("5", p.names);
    let idb = styled("1", p.names);
    let pool = |base: &str| -> Vec<Args> {
        match p.pool {
            0 => vec![vec![a("range", &format!("{base}.89-91"))]],
            1 => (89..=91).map(|x| vec![a("ip", &format!("{base}.{x}"))]).collect(),
            2 => vec![vec![a("range", &format!("{base}.89-90"))], vec![a("ip", &format!("{base}.91"))]],
            // the same three addresses, the middle one declared last (it joins two free ranges)
            3 => vec![
                vec![a("ip", &format!("{base}.89"))],
                vec![a("range", &format!("{base}.91-91"))],
                vec![a("ip", &format!("{base}.90"))],
            ],
            // descending
            4 => (89..=91).rev().map(|x| vec![a("ip", &format!("{base}.{x}"))]).collect(),
            // a larger pool whose gap is filled last: .87-88, .92-93, then .89-91
            _ => vec![
                vec![a("range", &format!("{base}.87-88"))],
                vec![a("range", &format!("{base}.92-93"))],
                vec![a("range", &format!("{base}.89-91"))],
            ],
        }
    };
    let mut nets = vec![TNet {
        args: vec![a("id", &ida)],
        ips: pool("123.45.67"),
    }];
    if p.place >= 1 {
        nets.push(TNet {
            args: vec![a("id", &idb)],
            ips: pool("12.34.56"),
        });
    }
    let na = vec![a("id", &ida)];
    let nb = vec![a("id", &idb)];
    let first_nets = match p.place {
        2 => vec![na.clone(), nb.clone()],
        5 => vec![nb.clone(), na.clone()],
        _ => vec![na.clone()],
    };
    let mid_nets = if p.place == 4 { vec![nb.clone(), na.clone()] } else { vec![na.clone()] };
    let last_nets = match p.place {
        3 => vec![na.clone(), nb.clone()],
        4 => vec![nb.clone()],
        _ => vec![na.clone()],
    };
    // what the first machine's `to` says (also the default gateway of a preconfigured ARP)
    let first_to = {
        let (addr, name) = match p.kind {
            SEND_CAP => ("123.45.67.91", "sink"),
            SEND_FWD_CAP => ("123.45.67.90", "relay"),
            _ => ("123.45.67.90", "pong"),
        };
        if p.wire & 1 != 0 {
            addr.to_string()
        } else {
            styled(name, p.names)
        }
    };
    let protos = |idx: usize| -> (Option<&'static str>, Vec<Args>) {
        let pr = |n: &str| vec![a("name", n)];
        match p.proto {
            0 => (None, vec![pr("IPv4"), pr("UDP")]),
            1 => (None, vec![pr("IPv4"), pr("UDP"), pr("ARP")]),
            2 => (Some("true"), vec![pr("UDP")]),
            3 => (Some("false"), vec![pr("UDP"), pr("IPv4")]),
            5 => {
                if idx == 0 {
                    let arp = vec![a("name", "ARP"), a("local", "123.45.67.89"), a("default", &first_to)];
                    (None, vec![pr("IPv4"), pr("UDP"), arp])
                } else {
                    (None, vec![pr("IPv4"), pr("UDP"), pr("ARP")])
                }
            }
            _ => {
                if idx == 0 {
                    (Some("true"), vec![pr("UDP")])
                } else {
                    (None, vec![pr("ARP"), pr("UDP"), pr("IPv4")])
                }
            }
        }
    };
    let machine = |idx: usize, base: &str, count: Option<&str>, nets: Vec<Args>, app: Args| -> TMachine {
        let (auto, protos) = protos(idx);
        let mut args = vec![a("name", &styled(base, p.names))];
        if p.names == 5 && base == "sender" {
            // names are optional: nothing refers to the sender by name
            args.clear();
        }
        if let Some(c) = count {
            args.push(a("count", c));
        }
        if let Some(x) = auto {
            args.push(a("auto-protocol", x));
        }
        TMachine {
            args,
            nets,
            protos,
            apps: vec![app],
        }
    };
    let (p1, p2) = if p.port == 0 { ("0xbeef", "0xface") } else { ("48879", "64206") };
    let (n1, n2) = (0xbeefu16, 0xfaceu16);
    let by_addr = |link: u8| p.wire & (1 << link) != 0;
    let msg = MSGS[p.msg as usize];
    let count = match p.cnt {
        0 => None,
        1 => Some("1"),
        _ => Some("2"),
    };
    let senders = if p.cnt == 2 { 2 } else { 1 };
    let sender_app = |to: String| -> Args {
        let mut v = vec![a("name", "send_message"), a("message", msg), a("to", &to), a("port", p1)];
        if p.sip {
            v.insert(1, a("ip", "123.45.67.89"));
        }
        v
    };
    let capture_app = |ip: &str, port: &str| -> Args {
        let mut v = vec![a("name", "capture")];
        match p.cap {
            0 => {}
            1 => v.push(a("type", "count")),
            _ => v.push(a("type", "message")),
        }
        v.push(a("ip", ip));
        v.push(a("port", port));
        match p.cap {
            0 => {}
            1 => v.push(a("message_count", if senders == 2 { "2" } else { "1" })),
            _ => v.push(a("message", msg)),
        }
        v
    };
    match p.kind {
        SEND_CAP => {
            let cap_ip = "123.45.67.91";
            let to = if by_addr(0) { cap_ip.to_string() } else { styled("sink", p.names) };
            let ms = vec![
                machine(0, "sender", count, first_nets, sender_app(to)),
                machine(1, "sink", None, last_nets, capture_app(cap_ip, p1)),
            ];
            let flows = vec![Flow {
                dst: ip4(cap_ip),
                dport: n1,
                payload: msg.as_bytes().to_vec(),
                times: senders,
                what: "sender -> capture".into(),
            }];
            let mut ms = ms;
            if p.names == 5 {
                ms.reverse();
            }
            (Tree { nets, machines: ms }, flows)
        }
        SEND_FWD_CAP => {
            let fwd_ip = "123.45.67.90";
            let cap_ip = if p.place == 4 { "12.34.56.89" } else { "123.45.67.91" };
            let to1 = if by_addr(0) { fwd_ip.to_string() } else { styled("relay", p.names) };
            let to2 = if by_addr(1) { cap_ip.to_string() } else { styled("sink", p.names) };
            let fwd = vec![
                a("name", "forward"),
                a("ip", fwd_ip),
                a("to", &to2),
                a("local_port", p1),
                a("remote_port", p2),
            ];
            let ms = vec![
                machine(0, "sender", count, first_nets, sender_app(to1)),
                machine(1, "relay", None, mid_nets, fwd),
                machine(2, "sink", None, last_nets, capture_app(cap_ip, p2)),
            ];
            let flows = vec![
                Flow {
                    dst: ip4(fwd_ip),
                    dport: n1,
                    payload: msg.as_bytes().to_vec(),
                    times: senders,
                    what: "sender -> forward".into(),
                },
                Flow {
                    dst: ip4(cap_ip),
                    dport: n2,
                    payload: msg.as_bytes().to_vec(),
                    times: senders,
                    what: "forward -> capture".into(),
                },
            ];
            let mut ms = ms;
            if p.names == 5 {
                ms.reverse();
            }
            (Tree { nets, machines: ms }, flows)
        }
        _ => {
            let (ping_ip, pong_ip) = ("123.45.67.89", "123.45.67.90");
            let to_pong = if by_addr(0) { pong_ip.to_string() } else { styled("pong", p.names) };
            let to_ping = if by_addr(1) { ping_ip.to_string() } else { styled("ping", p.names) };
            let ping = vec![
                a("name", "ping_pong"),
                a("starter", "true"),
                a("ip", ping_ip),
                a("to", &to_pong),
                a("local_port", p1),
                a("remote_port", p2),
            ];
            let pong = vec![
                a("name", "ping_pong"),
                a("starter", "false"),
                a("ip", pong_ip),
                a("to", &to_ping),
                a("local_port", p2),
                a("remote_port", p1),
            ];
            let ms = vec![
                machine(0, "ping", None, first_nets, ping),
                machine(1, "pong", None, last_nets, pong),
            ];
            // the starter sends 255; every receiver answers with one less until 1 has been received
            let flows = (1..=255u8)
                .rev()
                .map(|n| {
                    let to_pong = n % 2 == 1;
                    Flow {
                        dst: ip4(if to_pong { pong_ip } else { ping_ip }),
                        dport: if to_pong { n2 } else { n1 },
                        payload: vec![n],
                        times: 1,
                        what: format!("ttl {n} -> {}", if to_pong { "pong" } else { "ping" }),
                    }
                })
                .collect();
            (Tree { nets, machines: ms }, flows)
        }
    }
}

fn alpha(tier: &str, part: &str) -> Alpha {
    let q = tier == "quick";
    let all = Alpha {
        kinds: vec![SEND_CAP, SEND_FWD_CAP, PING_PONG],
        places: vec![0, 1, 2, 3, 4],
        pools: vec![0, 1, 2],
        wires: vec![0, 1, 2, 3],
        protos: vec![0, 1, 2, 3, 4],
        msgs: vec![0, 1, 2, 3, 4],
        names: vec![0, 1, 2, 3, 4, 5],
        caps: vec![0, 1, 2],
        cnts: vec![0, 1, 2],
        sips: vec![false, true],
        ports: vec![0, 1],
    };
    match (part, q) {
        // parsing does not care whether a description can run: the empty value and the
        // second-listed-network placement are in
        ("roundtrip", true) => Alpha {
            places: vec![0, 2, 4],
            pools: vec![2],
            wires: vec![0],
            protos: vec![1, 2],
            msgs: vec![0, 1, 2, 3, 4, 5],
            caps: vec![1, 2],
            cnts: vec![0, 2],
            sips: vec![false],
            ports: vec![0],
            ..all
        },
        ("roundtrip", false) => Alpha {
            places: vec![0, 2, 4, 5],
            pools: vec![1, 2],
            wires: vec![0, 3],
            protos: vec![1, 2, 4],
            msgs: vec![0, 1, 2, 3, 4, 5],
            sips: vec![false],
            ports: vec![0],
            ..all
        },
        ("reject", true) => Alpha {
            places: vec![0, 2],
            pools: vec![2],
            wires: vec![0],
            protos: vec![1, 2],
            msgs: vec![0, 2, 4],
            names: vec![0, 2, 4],
            caps: vec![1],
            cnts: vec![2],
            sips: vec![false],
            ports: vec![0],
            ..all
        },
        ("reject", false) => Alpha {
            places: vec![0, 2, 4],
            pools: vec![0, 2],
            wires: vec![0, 3],
            protos: vec![0, 1, 2],
            msgs: vec![0, 1, 2, 3, 4],
            names: vec![0, 1, 2, 3, 4],
            caps: vec![1, 2],
            cnts: vec![0, 2],
            sips: vec![false],
            ports: vec![0],
            ..all
        },
        ("run-default", true) => Alpha {
            pools: vec![2],
            names: vec![0, 2, 5],
            cnts: vec![0, 2],
            ports: vec![0],
            ..all
        },
        // every execution leaves its machines behind (about 35 KB): the size of this product is
        // chosen to stay below 5 GB of resident memory
        ("run-default", false) => Alpha {
            pools: vec![0, 2],
            names: vec![0, 2, 4, 5],
            ports: vec![0],
            ..all
        },
        // the schedule search: one tree per combination of the dimensions that change what runs
        ("run-sched", true) => Alpha {
            places: vec![0, 2, 4],
            pools: vec![0],
            wires: vec![0],
            protos: vec![0, 1, 2],
            msgs: vec![0],
            names: vec![0, 5],
            caps: vec![1],
            cnts: vec![0, 2],
            sips: vec![false],
            ports: vec![0],
            ..all
        },
        ("run-sched", false) => Alpha {
            pools: vec![0],
            wires: vec![0, 3],
            msgs: vec![0],
            names: vec![0, 5],
            caps: vec![1, 2],
            cnts: vec![0, 2],
            sips: vec![false],
            ports: vec![0],
            ..all
        },
        // [Protocol name='ARP' local='..' default='..'] (what arp_builder reads)
        (RUN_ARP, _) => Alpha {
            places: vec![0],
            pools: vec![0],
            wires: vec![0, 1],
            protos: vec![5],
            msgs: vec![0],
            names: vec![0],
            caps: vec![1],
            cnts: vec![0],
            sips: vec![true],
            ports: vec![0],
            ..all
        },
        // every spelling and order of the address pool, the rest pinned
        (RUN_POOLS, _) => Alpha {
            places: vec![0, 1],
            pools: vec![0, 1, 2, 3, 4, 5],
            wires: vec![0, 2],
            protos: vec![0],
            msgs: vec![0],
            names: vec![0],
            caps: vec![1],
            cnts: vec![0],
            sips: vec![false, true],
            ports: vec![0],
            ..all
        },
        // senders whose shared network is listed second
        ("run-second-network", _) => Alpha {
            places: vec![5],
            pools: vec![0],
            wires: vec![0, 3],
            protos: vec![0, 1, 2],
            msgs: vec![0],
            names: vec![0],
            caps: vec![1],
            cnts: vec![0],
            sips: vec![false],
            ports: vec![0],
            ..all
        },
        _ => all,
    }
}

// ---------------------------------------------------------------------------------------------
// Scratch files (core_parser takes a path)

/// Writes `s` to this thread's scratch file for `tag` and returns its path. The file is kept open
/// and overwritten in place (no truncate-to-zero, no unlink: on a file system mounted with
/// `discard` every freed block costs a round trip to the device).
fn scratch(tag: &str, s: &str) -> String {
    use std::io::{Seek, SeekFrom, Write};
    thread_local! {
        static FILES: std::cell::RefCell<HashMap<String, (std::fs::File, String)>> = std::cell::RefCell::new(HashMap::new());
    }
    static SERIAL: std::sync::atomic::AtomicU64 = std::sync::atomic::AtomicU64::new(0);
    FILES.with(|f| {
        let mut f = f.borrow_mut();
        let e = f.entry(tag.to_string()).or_insert_with(|| {
            let dir = vkit::report::scratch_dir();
            let _ = std::fs::create_dir_all(&dir);
            let n = SERIAL.fetch_add(1, std::sync::atomic::Ordering::Relaxed);
            let path = dir.join(format!("c19-{}-{tag}-{n}.ndl", std::process::id()));
            let file = std::fs::OpenOptions::new()
                .write(true)
                .create(true)
                .truncate(false)
                .open(&path)
                .expect("scratch file");
            (file, path.to_string_lossy().into_owned())
        });
        e.0.seek(SeekFrom::Start(0)).expect("scratch seek");
        e.0.write_all(s.as_bytes()).expect("scratch write");
        e.0.set_len(s.len() as u64).expect("scratch set_len");
        e.1.clone()
    })
}

fn parse_text(tag: &str, s: &str) -> Result<Result<pd::Sim, String>, vkit::PanicInfo> {
    let path = scratch(tag, s);
    let r = vkit::catch(|| core_parser(path.clone()));
    // the error text starts with the path of the scratch file: not part of the verdict
    r.map(|x| x.map_err(|e| e.replace(&path, "<file>")))
}

// ---------------------------------------------------------------------------------------------
// Part 1: round trip

const ROUNDTRIP: &str = "roundtrip";

fn roundtrip_case(ts: &[P], i: u64) -> (P, Style) {
    let n = Product::new(&STYLE_DIMS).total();
    (ts[(i / n) as usize].clone(), style(i % n))
}

fn roundtrip_run(ts: &[P], i: u64) -> CaseOutcome {
    let (p, st) = roundtrip_case(ts, i);
    let (tree, _) = build(&p);
    let s = text(&lines(&tree, &st), &st);
    let want = expected(&tree);
    match parse_text("rt", &s) {
        Err(pn) => CaseOutcome::bad(Violation::panic("core_parser", &pn)),
        Ok(Err(e)) => CaseOutcome::bad(Violation::new(
            "roundtrip",
            "core_parser",
            "well-formed-description-rejected",
            e,
        )),
        Ok(Ok(got)) => match diff(&got, &want) {
            Some((d, detail)) => CaseOutcome::bad(Violation::new("roundtrip", "core_parser", &d, detail)),
            None => CaseOutcome::ok(Some(key128(&s) as u64)),
        },
    }
}

// ---------------------------------------------------------------------------------------------
// Part 2: structural errors

const REJECT: &str = "reject";
const KNOWN_TYPES: [&str; 10] = [
    "Template",
    "Networks",
    "Network",
    "IP",
    "Machines",
    "Machine",
    "Protocols",
    "Protocol",
    "Applications",
    "Application",
];
/// Names that are no section type. `IPtype` is spelled out in the grammar's list of tags but has
/// no meaning; `Machinery`/`IPs` start with a known type.
const UNKNOWN_TYPES: [&str; 6] = ["Foo", "Router", "Net", "IPtype", "Machinery", "IPs"];

#[derive(Clone, Debug)]
enum Mut {
    /// one level deeper than its place
    Indent(usize),
    /// one level shallower than its place
    Dedent(usize),
    /// another known section type in this place
    Retype(usize, &'static str),
    Unknown(usize, &'static str),
    /// a machine without one of Networks/Protocols/Applications (header and entries removed)
    DropSection(usize),
    /// a section header with no entries (machine sections, and a Network without IP entries)
    EmptySection(usize),
    /// network block at line `.0` repeated at the end of its [Networks] section
    DupNetSameSection(usize),
    /// network block repeated in a new [Networks] section at the end of the text
    DupNetNewSection(usize),
    /// the second network declared under the id of the first
    DupNetRenamed(usize, usize),
    /// argument `.1` of line `.0` given twice; `.2` same value; `.3` directly after the original
    DupArg(usize, usize, bool, bool),
    /// a section without arguments given the same new argument twice
    DupFreshArg(usize),
}

impl Mut {
    fn class(&self) -> &'static str {
        match self {
            Mut::Indent(_) | Mut::Dedent(_) | Mut::Retype(..) => "wrong-nesting",
            Mut::Unknown(..) => "unknown-section-type",
            Mut::DropSection(_) | Mut::EmptySection(_) => "missing-required-section",
            Mut::DupNetSameSection(_) | Mut::DupNetNewSection(_) | Mut::DupNetRenamed(..) => "duplicate-network-id",
            Mut::DupArg(..) | Mut::DupFreshArg(_) => "duplicate-argument",
        }
    }
}

/// Lines `i+1..` that are nested below line `i`.
fn block_end(ls: &[Line], i: usize) -> usize {
    let mut j = i + 1;
    while j < ls.len() && ls[j].depth > ls[i].depth {
        j += 1;
    }
    j
}

fn mutants(ls: &[Line]) -> Vec<Mut> {
    let mut v = vec![];
    for (i, l) in ls.iter().enumerate() {
        v.push(Mut::Indent(i));
        if l.depth > 0 {
            v.push(Mut::Dedent(i));
        }
        for t in KNOWN_TYPES {
            if !t.eq_ignore_ascii_case(&l.ty) {
                v.push(Mut::Retype(i, t));
            }
        }
        for t in UNKNOWN_TYPES {
            v.push(Mut::Unknown(i, t));
        }
        let has_children = block_end(ls, i) > i + 1;
        if l.depth == 2 && l.ty != "IP" {
            v.push(Mut::DropSection(i));
            v.push(Mut::EmptySection(i));
        }
        if l.depth == 1 && l.ty == "Network" && has_children {
            v.push(Mut::EmptySection(i));
            v.push(Mut::DupNetSameSection(i));
            v.push(Mut::DupNetNewSection(i));
            for (j, m) in ls.iter().enumerate().skip(i + 1) {
                if m.depth == 1 && m.ty == "Network" {
                    v.push(Mut::DupNetRenamed(i, j));
                }
            }
        }
        for k in 0..l.args.len() {
            for same in [true, false] {
                v.push(Mut::DupArg(i, k, same, false));
                if k + 1 < l.args.len() {
                    v.push(Mut::DupArg(i, k, same, true));
                }
            }
        }
        if l.args.is_empty() {
            v.push(Mut::DupFreshArg(i));
        }
    }
    v
}

fn apply(ls: &[Line], m: &Mut) -> Vec<Line> {
    let mut out = ls.to_vec();
    match m {
        Mut::Indent(i) => out[*i].depth += 1,
        Mut::Dedent(i) => out[*i].depth -= 1,
        Mut::Retype(i, t) | Mut::Unknown(i, t) => out[*i].ty = t.to_string(),
        Mut::DropSection(i) => {
            out.drain(*i..block_end(ls, *i));
        }
        Mut::EmptySection(i) => {
            out.drain(*i + 1..block_end(ls, *i));
        }
        Mut::DupNetSameSection(i) => {
            let block: Vec<Line> = ls[*i..block_end(ls, *i)].to_vec();
            // end of the enclosing [Networks] section
            let mut e = *i;
            while e < ls.len() && ls[e].depth > 0 {
                e += 1;
            }
            for (k, b) in block.into_iter().enumerate() {
                out.insert(e + k, b);
            }
        }
        Mut::DupNetNewSection(i) => {
            out.push(Line {
                depth: 0,
                ty: "Networks".into(),
                args: vec![],
            });
            out.extend(ls[*i..block_end(ls, *i)].iter().cloned());
        }
        Mut::DupNetRenamed(i, j) => out[*j].args = ls[*i].args.clone(),
        Mut::DupArg(i, k, same, adjacent) => {
            let (key, val) = ls[*i].args[*k].clone();
            let val = if *same { val } else { "zz".to_string() };
            if *adjacent {
                out[*i].args.insert(*k + 1, (key, val));
            } else {
                out[*i].args.push((key, val));
            }
        }
        Mut::DupFreshArg(i) => {
            out[*i].args.push(a("x", "1"));
            out[*i].args.push(a("x", "1"));
        }
    }
    out
}

/// Two renderings per tree for the error cases: tabs/LF/trailing newline, and spaces/CRLF/none.
fn reject_style(k: usize) -> Style {
    if k == 0 {
        canonical()
    } else {
        Style {
            spaces: true,
            crlf: true,
            trailing_newline: false,
            perm: 3,
            ..canonical()
        }
    }
}

struct RejectSpace {
    ts: Vec<P>,
    /// offsets[k] = first index of (tree k / 2, style k % 2)
    offsets: Vec<u64>,
}

impl RejectSpace {
    fn new(ts: Vec<P>) -> Self {
        let mut offsets = vec![0u64];
        for p in &ts {
            let (tree, _) = build(p);
            for k in 0..2 {
                let n = mutants(&lines(&tree, &reject_style(k))).len() as u64;
                offsets.push(offsets.last().unwrap() + n);
            }
        }
        Self { ts, offsets }
    }
    fn total(&self) -> u64 {
        *self.offsets.last().unwrap()
    }
    fn case(&self, i: u64) -> (P, Style, Mut, Vec<Line>) {
        let k = self.offsets.partition_point(|o| *o <= i) - 1;
        let p = self.ts[k / 2].clone();
        let st = reject_style(k % 2);
        let ls = lines(&build(&p).0, &st);
        let m = mutants(&ls)[(i - self.offsets[k]) as usize].clone();
        let out = apply(&ls, &m);
        (p, st, m, out)
    }
}

fn reject_run(sp: &RejectSpace, i: u64) -> CaseOutcome {
    let (_, st, m, ls) = sp.case(i);
    let s = text(&ls, &st);
    let kind = format!("{m:?}");
    let kind = kind.split('(').next().unwrap_or("").to_string();
    match parse_text("rj", &s) {
        Err(pn) => CaseOutcome::bad(Violation::panic("core_parser", &pn)),
        Ok(Ok(sim)) => CaseOutcome::bad(Violation::new(
            "rejects-structural-error",
            "core_parser",
            &format!("{}-accepted/{}", m.class(), kind),
            format!(
                "{m:?} was accepted: {} networks, {} machines",
                sim.networks.len(),
                sim.machines.len()
            ),
        )),
        Ok(Err(e)) => {
            if e.trim().is_empty() {
                CaseOutcome::bad(Violation::new(
                    "rejects-structural-error",
                    "core_parser",
                    &format!("{}-rejected-without-message", m.class()),
                    format!("{m:?}"),
                ))
            } else {
                CaseOutcome::ok(Some(key128(&s) as u64))
            }
        }
    }
}

// ---------------------------------------------------------------------------------------------
// Part 3: running the described simulation

const RUN_DEFAULT: &str = "run-default";
const RUN_SECOND: &str = "run-second-network";
const RUN_ARP: &str = "run-arp-preconfigured";
const RUN_POOLS: &str = "run-address-pools";
const TIMEOUT: Duration = Duration::from_secs(10);

pub struct RunSc {
    name: String,
    path: String,
    flows: Vec<Flow>,
    /// discriminator prefix: which family of trees this is
    family: &'static str,
}

#[derive(Debug, Hash, Clone, PartialEq)]
pub struct RunObs {
    status: String,
    /// every UDP datagram seen on a wire: (destination, destination port, payload) -> times
    datagrams: Vec<(([u8; 4], u16, Vec<u8>), usize)>,
}

impl RunSc {
    fn new(name: String, tag: &str, p: &P, st: &Style, family: &'static str) -> Self {
        let (tree, flows) = build(p);
        let path = scratch(tag, &text(&lines(&tree, st), st));
        Self { name, path, flows, family }
    }
}

/// UDP datagrams on the wire, parsed by hand: IPv4 header (version 4, protocol 17), ports, payload.
fn datagrams(wire: &[sched::WireFrame]) -> BTreeMap<([u8; 4], u16, Vec<u8>), usize> {
    let mut m = BTreeMap::new();
    let ip = TypeId::of::<Ipv4>();
    for f in wire {
        let b = &f.bytes;
        if f.protocol != ip || f.verdict != elvis_core::verif::Verdict::Deliver || b.len() < 28 || b[0] >> 4 != 4 {
            continue;
        }
        let ihl = (b[0] & 0x0f) as usize * 4;
        let total = u16::from_be_bytes([b[2], b[3]]) as usize;
        if b[9] != 17 || ihl < 20 || total > b.len() || total < ihl + 8 {
            continue;
        }
        // only unfragmented datagrams (the payloads here are far below any MTU)
        if u16::from_be_bytes([b[6], b[7]]) & 0x3fff != 0 {
            continue;
        }
        let u = &b[ihl..total];
        let ulen = u16::from_be_bytes([u[4], u[5]]) as usize;
        if ulen < 8 || ulen > u.len() {
            continue;
        }
        let key = ([b[16], b[17], b[18], b[19]], u16::from_be_bytes([u[2], u[3]]), u[8..ulen].to_vec());
        *m.entry(key).or_insert(0) += 1;
    }
    m
}

impl Scenario for RunSc {
    type Obs = RunObs;
    fn name(&self) -> String {
        self.name.clone()
    }
    fn run(&self) -> (RunObs, Vec<Violation>) {
        sched::install_rand(vec![], vec![]);
        // the networks are made inside the generator: forget those of earlier executions
        sched::register_networks(&[]);
        sched::install_wire_hooks(|_| elvis_core::verif::Verdict::Deliver);
        let path = self.path.clone();
        let status = sched::block_on_paused_send(async move {
            sched::start_clock();
            generate_and_run_sim(path, Some(TIMEOUT)).await
        });
        let wire = sched::take_wire();
        let seen = datagrams(&wire);
        let mut v = vec![];
        // Panics of the real code (tokio catches them in tasks): reported here, with the family of
        // trees in the signature. A panic inside a protocol's start task is re-raised by
        // Machine::start and again by run_internet ("...: JoinError::Panic(..)"): echoes.
        for pn in vkit::take_panics() {
            if !pn.message.starts_with("VERIF-LIVELOCK") && !pn.message.contains("JoinError::Panic") {
                v.push(Violation::panic(&format!("generate_and_run_sim/{}", self.family), &pn));
            }
        }
        let status_s = match &status {
            Ok(Some(s)) => format!("{s:?}"),
            Ok(None) => "not-parsed".to_string(),
            // the panic itself is reported by the engine with its location
            Err(_) => "panicked".to_string(),
        };
        let mut missing = vec![];
        for f in &self.flows {
            let n = seen.get(&(f.dst, f.dport, f.payload.clone())).copied().unwrap_or(0);
            if n < f.times {
                missing.push(format!(
                    "{}: {} of {} datagrams to {}.{}.{}.{}:{} with payload {:?}",
                    f.what,
                    n,
                    f.times,
                    f.dst[0],
                    f.dst[1],
                    f.dst[2],
                    f.dst[3],
                    f.dport,
                    String::from_utf8_lossy(&f.payload)
                ));
            }
        }
        match status_s.as_str() {
            "Exited" | "panicked" => {}
            "not-parsed" => v.push(Violation::new(
                "runs-as-described",
                "generate_and_run_sim",
                &format!("{}/valid-description-not-parsed", self.family),
                "generate_and_run_sim returned None".to_string(),
            )),
            "TimedOut" => v.push(Violation::new(
                "runs-as-described",
                "generate_and_run_sim",
                &format!("{}/timed-out", self.family),
                format!(
                    "run ended with TimedOut after {TIMEOUT:?} of virtual time; {}",
                    if missing.is_empty() {
                        "every described datagram was put on a wire".to_string()
                    } else {
                        format!("never on a wire: {}", missing.join("; "))
                    }
                ),
            )),
            other => v.push(Violation::new(
                "runs-as-described",
                "generate_and_run_sim",
                &format!("{}/unexpected-exit-status", self.family),
                format!("run ended with {other}"),
            )),
        }
        if status_s == "Exited" && !missing.is_empty() {
            v.push(Violation::new(
                "message-arrives",
                "generate_and_run_sim",
                &format!("{}/exited-without-the-described-datagram", self.family),
                format!("run Exited but the wire never carried: {}", missing.join("; ")),
            ));
        }
        (
            RunObs {
                status: status_s,
                datagrams: seen.into_iter().collect(),
            },
            v,
        )
    }
}

fn short(p: &P) -> String {
    format!(
        "{} place {} pool {} wire {} proto {} msg {} names {} cap {} cnt {} sip {} port {}",
        KIND_NAMES[p.kind as usize], p.place, p.pool, p.wire, p.proto, p.msg, p.names, p.cap, p.cnt, p.sip as u8, p.port
    )
}

/// One tree under the default schedule, twice; the two observations must agree.
fn run_default_case(part: &'static str, ts: &[P], i: u64, nondet: &Mutex<Vec<String>>) -> CaseOutcome {
    let p = &ts[i as usize];
    // renderings rotate with the index so that the run also goes through every style
    let st = style(i.wrapping_mul(7919));
    let sc = RunSc::new(format!("{part} {i}: {}", short(p)), "run", p, &st, family_of(part));
    let r1 = sched::execute(&sc, &[]);
    let r2 = sched::execute(&sc, &[]);
    if format!("{:?}", r1.obs) != format!("{:?}", r2.obs) {
        nondet.lock().unwrap().push(format!(
            "NONDETERMINISM {}: two default executions differ: {:?} vs {:?}",
            sc.name, r1.obs, r2.obs
        ));
    }
    let mut out = CaseOutcome::ok(None);
    if r1.livelock || r2.livelock {
        out.violations.push(Violation::new("terminates", "generate_and_run_sim", "poll-cap-exceeded", sc.name.clone()));
    }
    out.violations.extend(r1.violations);
    for v in r2.violations {
        if !out.violations.iter().any(|x| x.signature() == v.signature()) {
            out.violations.push(v);
        }
    }
    if out.violations.is_empty() {
        out.nontrivial = Some(key128(p) as u64);
    }
    out
}

fn family_of(part: &str) -> &'static str {
    match part {
        RUN_SECOND => "shared-network-listed-second",
        RUN_ARP => "arp-with-local-and-default",
        _ => "plain",
    }
}

fn sched_cases(tier: &str) -> Vec<(String, P, usize, &'static str)> {
    let q = tier == "quick";
    let mut v = vec![];
    for (k, p) in trees(&alpha(tier, "run-sched")).into_iter().enumerate() {
        // ping_pong plays 255 datagrams: the one-deviation search over it is long, keep few
        if p.kind == PING_PONG && q && !(p.place == 0 && p.proto <= 1) {
            continue;
        }
        v.push((format!("run tree {k}: {}", short(&p)), p, 1, family_of("")));
    }
    for (k, p) in trees(&alpha(tier, RUN_SECOND)).into_iter().enumerate() {
        if p.kind == SEND_CAP && (q && p.proto == 0 && p.wire == 0 || !q) {
            v.push((format!("run second-network tree {k}: {}", short(&p)), p, 1, family_of(RUN_SECOND)));
        }
    }
    v
}

// ---------------------------------------------------------------------------------------------

pub fn run(report: &mut Report, tier: &str) {
    let q = tier == "quick";
    report.assume("argument values are compared in the parser's own (raw) representation: an escaped quote stays the two characters backslash-quote, also in the payload put on the wire");
    report.assume("values the grammar cannot represent (']', an unescaped quote, a run of four spaces, CR or LF) are outside the alphabet");
    report.assume("valid runnable trees: every application address comes from a pool of one of its machine's networks, all machines of a tree agree on using ARP or not, two senders are captured by count 2");
    report.assume("missing required section = a machine without Networks/Protocols/Applications, one of them without entries, a Network without IP entries (what the parser itself calls required)");

    // Part 1
    let a1 = alpha(tier, ROUNDTRIP);
    let ts = trees(&a1);
    let styles = Product::new(&STYLE_DIMS).total();
    report.set("roundtrip_alphabet", a1.describe());
    enumerate::run_into(
        report,
        ROUNDTRIP,
        &format!(
            "full product of {} generated trees x {} renderings (indent tab/4 spaces, LF/CRLF, trailing newline or none, Networks/Machines order, 6 orders of machine sections, blank line, one or several [Networks] sections, type case); parsed structure must equal the tree; non-trivial = accepted and equal, counted by distinct rendered text",
            ts.len(),
            styles
        ),
        ts.len() as u64 * styles,
        |i| roundtrip_run(&ts, i),
        |i| {
            let (p, st) = roundtrip_case(&ts, i);
            json!({"tree": short(&p), "style": format!("{st:?}"), "text": text(&lines(&build(&p).0, &st), &st)})
        },
    );


    // Part 2
    let a2 = alpha(tier, REJECT);
    report.set("reject_alphabet", a2.describe());
    let sp = RejectSpace::new(trees(&a2));
    enumerate::run_into(
        report,
        REJECT,
        &format!(
            "{} trees x 2 renderings x every structural error at every line: indent, dedent, each of the 9 other known types, {} unknown type names, machine section dropped/emptied, Network without IP, network repeated in the same / a new [Networks] section / under the first id, every argument repeated (same or other value, adjacent or at the end); result must be Err(message); non-trivial = rejected with a message, counted by distinct text",
            sp.ts.len(),
            UNKNOWN_TYPES.len()
        ),
        sp.total(),
        |i| reject_run(&sp, i),
        |i| {
            let (p, st, m, ls) = sp.case(i);
            json!({"tree": short(&p), "error": format!("{m:?}"), "class": m.class(), "text": text(&ls, &st)})
        },
    );


    // Part 3a
    let nondet = Mutex::new(vec![]);
    for part in [RUN_DEFAULT, RUN_POOLS, RUN_SECOND] {
        let a3 = alpha(tier, part);
        report.set(&format!("{part}_alphabet"), a3.describe());
        let ts = trees(&a3);
        enumerate::run_into(
            report,
            part,
            &format!(
                "every one of the {} valid trees of the alphabet run by generate_and_run_sim on a paused runtime under the default schedule, twice; Some(Exited) and every described datagram on the wire; non-trivial = both hold, counted by distinct tree",
                ts.len()
            ),
            ts.len() as u64,
            |i| run_default_case(part, &ts, i, &nondet),
            |i| {
                let p = &ts[i as usize];
                let st = style(i.wrapping_mul(7919));
                json!({"tree": short(p), "style": format!("{st:?}"), "text": text(&lines(&build(p).0, &st), &st)})
            },
        );
    }
    for m in nondet.into_inner().unwrap().into_iter().take(5) {
        report.machinery_error(m);
    }

    // Part 3b
    let wall = Duration::from_secs(if q { 20 } else { 240 });
    let mut completed = true;
    for (k, (name, p, d, fam)) in sched_cases(tier).into_iter().enumerate() {
        let sc = RunSc::new(name, &format!("sched{k}"), &p, &canonical(), fam);
        let st = sched::run_into(&sc, &Bounds::new(d).wall(wall), report);
        completed &= st.completed_bound == Some(d);
        let _ = std::fs::remove_file(&sc.path);
    }
    // the workers' scratch files
    let dir = vkit::report::scratch_dir();
    let mine = format!("c19-{}-", std::process::id());
    for e in std::fs::read_dir(&dir).into_iter().flatten().flatten() {
        if e.file_name().to_string_lossy().starts_with(&mine) {
            let _ = std::fs::remove_file(e.path());
        }
    }
    report.set("exhaustive", json!(completed));
    report.set(
        "rule",
        json!("E3 round trip and rejection over the full products described per part; E3 run of every valid tree under the default schedule (twice, observations must agree); E2 every schedule within one deviation for one tree per combination of application chain, placement, protocol mode and sender count"),
    );
}

pub fn replay(w: &Value, tier: &str) -> String {
    if let Some(name) = w["scenario"].as_str() {
        let ch: Vec<u16> = w["choices"]
            .as_array()
            .map(|a| a.iter().map(|x| x.as_u64().unwrap_or(0) as u16).collect())
            .unwrap_or_default();
        for t in [tier, "quick", "thorough"] {
            for (n, p, _, fam) in sched_cases(t) {
                if n == name {
                    let sc = RunSc::new(n, "replay", &p, &canonical(), fam);
                    let text = std::fs::read_to_string(&sc.path).unwrap_or_default();
                    return format!("{text}\n{}", sched::replay(&sc, &ch));
                }
            }
        }
        return format!("unknown scenario {name}");
    }
    let part = w["part"].as_str().unwrap_or("");
    let i = w["index"].as_u64().unwrap_or(0);
    let mut out = format!("part {part} index {i}\n");
    let show = |r: Result<Result<pd::Sim, String>, vkit::PanicInfo>| match r {
        Err(p) => format!("core_parser PANICKED at {}: {}", p.location, p.message),
        Ok(Err(e)) => format!("core_parser -> Err:\n{e}"),
        Ok(Ok(s)) => format!("core_parser -> Ok:\n{s:#?}"),
    };
    let render = |c: CaseOutcome| -> String {
        let mut s = String::new();
        for v in &c.violations {
            s.push_str(&format!("VIOLATION {} :: {}\n", v.signature(), v.detail));
        }
        if c.violations.is_empty() {
            s.push_str("no violation\n");
        }
        s
    };
    match part {
        ROUNDTRIP => {
            let ts = trees(&alpha(tier, ROUNDTRIP));
            if i >= ts.len() as u64 * Product::new(&STYLE_DIMS).total() {
                return format!("{out}index out of range for tier {tier}");
            }
            let (p, st) = roundtrip_case(&ts, i);
            let tree = build(&p).0;
            let s = text(&lines(&tree, &st), &st);
            out.push_str(&format!("tree {}\nstyle {st:?}\n--- text\n{}\n---\n", short(&p), s.escape_debug()));
            out.push_str(&show(parse_text("replay", &s)));
            out.push_str(&format!("\nexpected:\n{:#?}\n", expected(&tree)));
            out.push_str(&render(roundtrip_run(&ts, i)));
        }
        REJECT => {
            let sp = RejectSpace::new(trees(&alpha(tier, REJECT)));
            if i >= sp.total() {
                return format!("{out}index out of range for tier {tier}");
            }
            let (p, st, m, ls) = sp.case(i);
            let s = text(&ls, &st);
            out.push_str(&format!("tree {}\nerror {m:?} ({})\n--- text\n{s}\n---\n", short(&p), m.class()));
            out.push_str(&show(parse_text("replay", &s)));
            out.push('\n');
            out.push_str(&render(reject_run(&sp, i)));
        }
        RUN_DEFAULT | RUN_SECOND | RUN_ARP | RUN_POOLS => {
            let part: &'static str = [RUN_DEFAULT, RUN_SECOND, RUN_ARP, RUN_POOLS].into_iter().find(|x| *x == part).unwrap();
            let ts = trees(&alpha(tier, part));
            if i >= ts.len() as u64 {
                return format!("{out}index out of range for tier {tier}");
            }
            let p = &ts[i as usize];
            let st = style(i.wrapping_mul(7919));
            let sc = RunSc::new(format!("{part} {i}: {}", short(p)), "replay", p, &st, family_of(part));
            out.push_str(&format!("--- text\n{}\n---\n", std::fs::read_to_string(&sc.path).unwrap_or_default()));
            out.push_str(&sched::replay(&sc, &[]));
        }
        _ => out.push_str("unknown part"),
    }
    out
}
