#!/usr/bin/env python3
"""Writes /verif/MANIFEST.json from the table below (kept in one place so it stays valid)."""
import json, os, subprocess
HERE = os.path.dirname(os.path.dirname(os.path.abspath(__file__)))

E1 = "E1 explicit-state BFS over real objects (vkit::search)"
E2 = "E2 deviation-bounded schedule search over the real tokio stack (vkit::sched)"
E3 = "E3 bounded-exhaustive input enumeration (vkit::enumerate)"

# id -> (built, engine, level, technique, text, note, design_ref)
CHECKS = {
 "C01": (True, "E1 + E2 driver", "model_checking",
   "explicit-state BFS to fixpoint over two real Tcbs + deviation-bounded enumeration of driver decisions",
   "Every interleaving of writes, reads, flushes, RTO expiries and per-segment deliver/drop/duplicate choices of a two-endpoint system built from the real Tcb is enumerated to a fixpoint within small budgets; in every state the stream-prefix invariant is checked and a fair continuation must deliver, acknowledge and fall silent. Large transfers (above MSS and above the 64 KiB window) are covered by bounded-deviation enumeration around the loss-free run.",
   "Budgets (writes, drops, duplicates, timer expiries) and MTU/ISN values are those listed in the evidence parts; the network model loses/duplicates/reorders but does not corrupt. The driver transfers include 70000 bytes (above the window), late readers (the buffer fills inside a segment) and 9000 bytes at MTU 100 (150 segments in one window).", "6 C01"),

 "C02": (True, "E2 + E4 (loom)", "model_checking",
   "deviation-bounded exhaustive schedule search (task order, select branch, per-frame faults) over the real socket stack under a paused clock; exhaustive thread interleavings under loom (DPOR, preemption bound) for the socket layer's lock-protected hand-offs",
   "Socket/TcpStream/TcpListener scenarios (several write plans, read sizes, MTUs, late accept, replies, 1-3 clients, datagrams with a bystander) run on the real SocketAPI/Tcp/Udp/Ipv4/Arp/Pci/Network; every execution within d deviations from the FIFO, loss-free execution is run exactly once and judged: read lengths bounded, each stream a prefix of and finally equal to the peer's writes, datagrams intact and to the peer only.",
   "The schedule search works at poll granularity (which runnable task is polled next, an over-approximation of any multi-thread runtime at that granularity). Two polls running simultaneously on two workers are covered only where the loom part reaches: accept() against deliveries of the same connection, and concurrent ephemeral-port allocation, with the socket layer's RwLocks as scheduling points (DashMap and tokio channels are not instrumented). Deviation and preemption bounds per scenario are in the evidence.", "6 C02"),
 "C05": (True, "E2", "model_checking",
   "deviation-bounded exhaustive schedule search over Network/Pci with virtual time",
   "Configurations of 1-2 networks, 2-4 machines, 1-2 taps, MTU boundary sizes, constant/variable latency and throughputs send unicast, unknown-address, broadcast and oversize frames concurrently; every schedule and jitter choice within d deviations is executed and judged exactly under virtual time: right tap only, every other tap for broadcast, payload and sender unchanged, MTU refusal, distinct addresses, latency and throughput lower bounds, medium serialisation.",
   "Rates are configured in bytes per second and in bits per second (a multiple of 8, not a multiple, below 8). Delivery of a broadcast to the sender's own tap is not judged; construction of taps from several OS threads is outside a single-threaded explorer.", "6 C05"),
 "C06": (True, "E2", "model_checking",
   "exhaustive loss-pattern enumeration (all subsets of the first k ARP frames) x bounded schedule deviations on the real Arp",
   "For each topology/subnet/gateway configuration every subset of dropped frames among the first k ARP frames, crossed with every pair of scheduling deviations, is executed on the real Arp/Pci/Network: a resolved MAC is the owner's (or gateway's), an exchange that got through implies success, concurrent resolvers agree, unclaimed addresses fail within the retry budget and nothing hangs.",
   "k = 4 (quick) / 6 (thorough) for the subset enumeration; in addition burst-loss configurations lose the first j rounds of requests or of replies (j up to the retry budget) ahead of the choices, so that only a late exchange can succeed; horizon 3 s of virtual time.", "6 C06"),
 "C11": (True, "E1 (+ stateright cross-check)", "model_checking",
   "explicit-state BFS to fixpoint over the real Reassembly with fragments from the real fragment()",
   "All arrival orders of the fragments of several datagrams (differing in one key field each, a successor with the same key, two MTU chains that overlap), duplicates within a budget and expiry callbacks at every point are enumerated on the real reassembler against a range-cover reference; state counts are cross-checked against stateright.",
   "Three genuine defects (duplicates, overlaps, stale expiry) are open known findings; models without duplicates/overlap must be completely clean.", "6 C11"),
 "C12": (True, "E1 lock-step + E3", "model_checking",
   "lock-step product BFS of two TCP systems that differ only in ISNs + exhaustive products for the comparison primitives",
   "The C01 system is run as a pair with ISNs (100,300) and shifted ISNs placed so that 2^32 and 2^31 fall on the SYN, the first data byte and inside segments; after every action of every interleaving the ISN-relative views (segments, states, counters, delivered bytes) must be identical. mod_lt/leq/gt/geq/bounded are compared with the mathematical circular order on full boundary products, and the Segment heap order on all insertion permutations across the wrap.",
   "12 ISN pairs in quick, all 576 pairs in thorough; budgets as C01-T1 quick.", "6 C12"),
 "C15": (True, "E1 + E3 (generator); DHCP part pending", "model_checking",
   "explicit-state BFS over the real IpGenerator against a two-bitset reference + exhaustive constructor products",
   "Every sequence of fetch_ip/fetch_net/return/block operations over small windows (fixpoint for windows up to 10 addresses, depth-bounded for 16) at both ends of the address space is executed on the real generator; after every step the drained offer must equal the reference's available set and every result is judged for overlap, alignment and false exhaustion; constructors are enumerated over all ranges and masks.",
   "The DHCP lease clause (concurrent clients) is decided by a separate scenario family that is still being built.", "6 C15"),
 "C17": (True, "E1 + E3", "model_checking",
   "all states of a fault-free two-endpoint model x full attacker-segment alphabet product, each distinct outcome continued with the legitimate peer",
   "From every reachable state of a fault-free model (all nine statuses) one segment of the product 64 flag sets x 8 seq x 6 ack x 4 window x 3 length is injected by the real segment_arrives (thorough: also two in a row and a 70000-byte sweep past an injected sequence number); no call may unwind, first transmissions stay inside the reference window, table-6-unacceptable segments change neither state nor delivered data, and every distinct resulting state is continued with the real peer.",
   "Acceptability is RFC 9293 table 6; Elvis deliberately accepts RCV.NXT-1 (open known finding). Two victim sets: ISNs (100, 300) with the full alphabet and ISNs (0xA0000000, 0x90000000) with the reduced one, so that each side is once the endpoint whose own numbers are above its peer's and in the upper half of the space. The window clause is judged against an implementation-independent reference (an acceptable in-order segment acknowledging something in [SND.UNA, SND.NXT] sets the window; the segment that completes the handshake sets it unconditionally), not against the endpoint's own SND.WND/WL1/WL2.", "6 C17"),
 "C03": (True, "E1", "model_checking",
   "explicit-state BFS to fixpoint over two real Tcbs with close / simultaneous open / old duplicate SYN",
   "All interleavings of opens, closes (either or both sides, in every state), data, one drop or duplicate and RTO expiries are enumerated on the real Tcb; every call is checked against the RFC 9293 figure-5 transition relation, every state against sequence-space agreement, and from every distinct state a fair continuation in which both applications close must release both TCBs without a reset and with all data delivered before end-of-stream.",
   "Budgets as listed per model in the evidence; a refused close() counts as not issued; Tcp session-table code (Tcp::open/listen/demux) is exercised by C02, not here.", "6 C03"),
 "C07": (True, "E1 (+ E3 for constructors)", "model_checking",
   "explicit-state BFS over a pool of real Messages against plain byte vectors",
   "Every sequence of Message operations up to the depth bound over a pool of three messages (all range forms, all cut/remove positions, clone/move aliasing, empty chunks) is executed on the real type and compared with Vec<u8> after every step on every slot, including messages that were not operated on.",
   "Depth bounds and the <= 8 byte length cap are in the evidence; seeded initial pools put three-chunk and sub-window layouts within one step.", "6 C07"),
 "C08": (True, "E3", "exploration",
   "bounded-exhaustive enumeration of full field-alphabet products against etherparse and round-trip oracles",
   "Full Cartesian products of boundary values of every header field (all 64 TCP flag sets, all TOS combinations, extreme lengths, 48-bit MACs, DNS names, DHCP types and strings) are encoded and decoded with the real codecs; value->bytes->value, accepted-bytes->value->bytes and byte-identity with etherparse are checked on every case.",
   "Alphabets are boundary values, not all 2^n values, per field (listed in the evidence); checksum bytes are masked here (C18 owns them); etherparse 0.10.1 is trusted as the RFC reference.", "6 C08"),
 "C09": (True, "E1 + E3", "model_checking",
   "explicit-state BFS over every routing table on a universe of colliding networks + exhaustive arithmetic products",
   "Every table over a universe of nested/adjacent/extreme networks is reached by every add/remove route (3^10 states, fixpoint) and in each state every boundary address is looked up against a linear-scan longest-prefix reference; subnet arithmetic (contains, overlaps, range conversion, masks, CIDR text) is checked on full products over all 33 mask lengths.",
   "Universe of 10 (quick) / 13 (thorough) networks; thorough also sweeps all 2^32 lookup addresses on one table.", "6 C09"),
 "C10": (True, "E3", "exploration",
   "bounded-exhaustive enumeration of (payload length, MTU, flags, offset) and MTU chains",
   "Every payload length and MTU in a dense window (all residues of (MTU-20) mod 8), extreme lengths, DF/MF/offset combinations and every decreasing MTU triple are fragmented with the real function and judged against the original datagram: fit, alignment, contiguity, content, MF placement, field preservation.",
   "quick: lengths 0..=600 x MTU 68..=700; thorough: 0..=2200 x 68..=1600 plus chains; ihl=5 only (Elvis supports no options).", "6 C10"),
 "C14": (True, "E3 (decoders, NDL parser) + E2 (crafted frames into a full stack)", "exploration",
   "bounded-exhaustive mutation enumeration of valid packets and NDL files fed to the real decoders/parser, plus crafted frames injected into a running full stack under the schedule explorer",
   "Every truncation, every byte value at every position, structural-field pairs, 2-byte prefixes and extreme length products of valid seed packets go through the six real decoders; every truncation, token/character/line edit and every token string of length <= 4 goes through the real NDL parser; 38 crafted frames (outer layers valid, one layer malformed) are injected into a network carrying an established TCP stream, a UDP listener, DHCP client/server, DNS server and an ARP router: nothing may unwind, the malformed frame reaches no application, the stream still delivers its next write and a following valid datagram arrives.",
   "Alphabets are listed in the evidence; only valid UTF-8 texts are given to the NDL parser (the statement quantifies over texts).", "6 C14"),
 "C15": (True, "E1 + E3 (generator), E2 (DHCP), E4 (loom, concurrent Discovers)", "model_checking",
   "explicit-state BFS over the real IpGenerator against a two-bitset reference + deviation-bounded schedule/duplication search over real DhcpServer/DhcpClient",
   "Every sequence of fetch_ip/fetch_net/return/block operations over small windows at both ends of the address space is executed on the real generator and compared with a reference after every step; constructors are enumerated over all ranges and masks. N clients against a pool of N (N = 1..3) start simultaneously under frame duplication/delay and task-order deviations: leases are pairwise distinct, inside the pool, equal to the acknowledged address, and a released address is leased to a late client.",
   "Windows of <= 10 addresses reach a fixpoint, 16-address windows are depth-bounded; availability after a duplicated DISCOVER (which burns an offer) is not judged.", "6 C15"),
 "C16": (True, "E2", "model_checking",
   "deviation-bounded schedule search over generated router topologies with the real ArpRouter/Arp/Ipv4",
   "Lines of 1-3 routers, stars of 3-4 subnets and a 3-router ring with correct, missing and looping static routes carry one UDP datagram per execution between every listed host pair; IPv4 frames are parsed off the wire: along the configured path the TTL falls by exactly one per router, the datagram reaches the destination host only, a loop or black hole ends after at most the initial TTL hops and the networks fall silent.",
   "d <= 1 (quick) / 2 (thorough) over task order and frames held back; hosts use a /32 mask with a default gateway as in the repository's own simulation. On correct routes the destination answers and the reply is judged by the same clauses in the other direction, also across two routers that share both host networks (the way back uses the other router); a further variant addresses the datagram to an address of the destination subnet that no machine owns, with wildcard listeners on every host.", "6 C16"),
 "C13": (True, "E2 + E4 (loom)", "model_checking",
   "deviation-bounded schedule search with run_internet_with_timeout itself as a task of the explored runtime",
   "Machine sets from 0 machines to three-machine SendMessage/Forward/Capture chains, plus 17 sets of the other built-in protocols and applications (DHCP, DNS, socket, basic, streaming; pairs, servers alone, clients alone) on full stacks with ARP; harness applications that are slow to initialise, never initialise, return, hang, or request shutdown early/late/concurrently (incl. 20 at one instant) are run in every schedule within d deviations under a paused clock; a global event order shows that no frame or demux precedes the last initialisation, the status is the first request's (or TimedOut), and the call returns within timeout + 1 s.",
   "A request at exactly the timeout instant may win or lose; the built-in Capture's own request is accepted as a winner where present.", "6 C13"),
 "C04": (True, "E2 + E4 (loom)", "model_checking",
   "complete enumeration of binding configurations x deviation-bounded schedule search, wire-driven reference demultiplexer; exhaustive thread interleavings under loom (DPOR, preemption bound) of the UDP and socket listen tables (DashMap shard locks made loom-visible)",
   "Every subset (size <= 3) of five candidate bindings (own address x2 ports, wildcard, another machine's address, limited broadcast) on a receiving machine, crossed with companions on a second machine, with/without ARP and with/without a MAC in the sender's route, receives nine datagrams to {A1, A2, broadcast} x {P, Q, R}; for every datagram on the wire and every tap it reached a ten-line reference names the one recorder that must get it, and the recorders' logs must equal that multiset (payload, source and destination included); second binds must be refused.",
   "quick: 26 x 3 x 3 configurations; thorough: 26 x 26 x 3; d <= 1.", "6 C04"),
 "C19": (True, "E3 + E2", "model_checking",
   "complete enumeration of description trees x renderings for parse round trip and structural-error rejection, plus schedule-explored runs of the described simulations",
   "Description trees (3 application chains x network placements x address pools x wiring by name/address x protocol modes x argument values with spaces, escaped quotes, '=' and '[' x capture modes x counts) are rendered 768 ways (tabs/4 spaces, LF/CRLF, section orders, ...) and must parse back to the same structure; every structural error class applied at every line must be rejected with a message; every valid tree is run through generate_and_run_sim under a paused clock (a subset in every schedule within one deviation): the run ends Exited and the wire shows each sender's payload travelling to the named receiver.",
   "Values the grammar cannot represent (']', bare quote, four spaces, CR/LF) are outside the alphabet; std HashMap order in the generator is not controllable, every default execution is run twice and must agree; each execution leaks ~35 KB (machines are built inside the generator), which bounds the run counts. A separate part runs 96 descriptions over six spellings and orders of the address pool (ranges, single addresses, descending, a gap filled last).", "6 C19"),
 "C20": (True, "E2", "model_checking",
   "deviation-bounded schedule and frame-delay search over the real DnsClient/DnsServer on the socket stack",
   "Record sets (1-3 names incl. every printable character and the 24/25-byte names, addresses 0.0.0.0 and 255.255.255.255) and 1-3 clients running lookup scripts (same name twice, crossing names) are executed in every schedule within d deviations with frames held back so that replies arrive in any order: every call returns the registered address, every query has a reply to the same endpoint echoing id and name, and a repeated lookup puts no frame on the wire.",
   "The authoritative server is sized to the number of distinct lookups so that it ends by itself. Record sets also cover names that differ only in letter case, a non-ASCII name next to the name its UTF-8 bytes spell in Latin-1, and clients that start several lookups at the same time while ARP is still unresolved.", "6 C20"),
 "C18": (True, "E3 (compute_checksum build)", "exploration",
   "bounded-exhaustive enumeration in the compute_checksum build against an RFC 1071 reference and etherparse, plus all single and double bit flips",
   "In a separate build with checksums enabled every emitted IPv4/UDP/TCP checksum over the field products (odd/empty/maximal payloads, sums crafted to 0xffff) must verify under an independent RFC 1071 sum and agree with etherparse, the decoders must accept etherparse-built packets, and every single- and double-bit corruption the checksum can detect must be rejected.",
   "Flip windows cover all header bits, first/last 8 payload bytes and pseudo-header addresses of ~100-200 emitted packets.", "6 C18"),
}
REASON_UNBUILT = "check not built yet in this session (see DESIGN.md section 6 for the planned check)"

def main():
    props = [json.loads(l) for l in open(os.path.join(HERE, "properties.jsonl"))]
    checks, na = [], []
    for p in props:
        pid = p["id"]
        c = CHECKS.get(pid)
        if not c or not c[0]:
            na.append({"property_id": pid, "reason": REASON_UNBUILT if not c else c[5]})
            continue
        _, engine, level, technique, text, note, ref = c
        checks.append({
            "property_id": pid,
            "quick_cmd": f"./check {pid} --tier quick",
            "thorough_cmd": f"./check {pid} --tier thorough",
            "evidence_file": f"/verif/evidence/{pid}.json",
            "replay_cmd_template": f"./check {pid} --replay {{path}}",
            "engine": engine,
            "level_claimed": {"category": level, "text": text, "design_ref": "DESIGN.md section " + ref},
            "level_note": note,
            "technique": technique,
        })
    hooks = subprocess.run(["git", "-C", "/repo", "log", "--format=%h %s", "--grep=^verif hooks"],
                           capture_output=True, text=True).stdout.strip().splitlines()
    m = {
        "version": 1,
        "setup_cmd": "./setup.sh",
        "hooks": {
            "guard": "cargo features `verif` (hooks, add-only) and `verif_loom` (= verif + loom's RwLock for the socket layer through the crate::vsync alias) of elvis-core",
            "enable": "harness crates depend on elvis-core by path with features=[\"verif\"]; tokio and dashmap are patched to /verif/vendor/tokio and /verif/vendor/dashmap via [patch.crates-io] in /verif/harness/Cargo.toml (dashmap is unchanged unless its feature verif_loom is on, which only the vloom binary enables)",
            "baseline_off_cmd": "/verif/baseline.sh",
            "source_commits": [h.split()[0] for h in hooks],
            "add_only": True,
        },
        "engines": [
            {"name": "E1", "path": "harness/vkit/src/search.rs", "kind_free_text": E1,
             "serves_properties": ["C01", "C03", "C07", "C09", "C11", "C12", "C15", "C17"]},
            {"name": "E2", "path": "harness/vkit/src/sched.rs", "kind_free_text": E2 + "; vendored tokio 1.53.1 with a task chooser and a select-branch chooser in /verif/vendor/tokio",
             "serves_properties": ["C01", "C02", "C04", "C05", "C06", "C13", "C14", "C15", "C16", "C19", "C20"]},
            {"name": "E3", "path": "harness/vkit/src/enumerate.rs", "kind_free_text": E3,
             "serves_properties": ["C08", "C09", "C10", "C12", "C14", "C18", "C19"]},
            {"name": "E4", "path": "harness/vloom/src/main.rs", "kind_free_text": "loom 0.7.2: every interleaving of 2-4 real threads over the socket layer's locks (DPOR, preemption bound 3 quick / unbounded thorough), one sub-process per scenario (harness/vkit/src/loomrun.rs); scheduling points are the socket layer's RwLocks (loom's under elvis-core feature verif_loom) and DashMap's shard locks (vendored dashmap with a spin lock over a loom atomic)",
             "serves_properties": ["C02", "C04", "C13", "C15"]},
        ],
        "checks": checks,
        "not_applicable": na,
        "notes": "All checks enter through ./check <ID> --tier quick|thorough; known genuine defects are listed in known_findings.json (open entries print KNOWN-FINDING and exit 0; fixed entries suppress nothing).",
    }
    json.dump(m, open(os.path.join(HERE, "MANIFEST.json"), "w"), indent=1)
    print("claimed", [c["property_id"] for c in checks], "not_applicable", len(na))

if __name__ == "__main__":
    main()
