//! C02 - Socket I/O across the full stack is intact, ordered and bounded.
//!
//! Real SocketAPI / Tcp / Udp / Ipv4 / Arp / Pci / Network; harness applications use
//! TcpListener / TcpStream / Socket exactly as the repository's own applications do.

use crate::stack::*;
use elvis_core::{
    message::Message,
    protocol::{DemuxError, StartError},
    protocols::{
        socket_api::socket::{ProtocolFamily, SocketType},
        Endpoint, SocketAPI, TcpListener, TcpStream,
    },
    run_internet_with_timeout, Control, ExitStatus, Machine, Protocol, Session, Shutdown,
};
use serde_json::json;
use std::{
    sync::{
        atomic::{AtomicUsize, Ordering},
        Arc,
    },
    time::Duration,
};
use tokio::sync::Barrier;
use vkit::{
    sched::{self, Bounds, Scenario, KIND_FRAME},
    Report, Violation,
};

const PORT: u16 = 80;
const SERVER: u8 = 1;

/// Byte at stream position `pos` written by participant `who` (server = 0, clients 1..):
/// the value range identifies the writer, the value the position (mod 60).
fn byte_of(who: u8, pos: usize) -> u8 {
    who * 60 + (pos % 60) as u8
}
fn writer_of(b: u8) -> u8 {
    b / 60
}
fn stream(who: u8, len: usize) -> Vec<u8> {
    (0..len).map(|p| byte_of(who, p)).collect()
}

#[derive(Clone, Debug)]
pub struct StreamCfg {
    pub name: String,
    pub mtu: Option<u16>,
    pub arp: bool,
    /// sizes of the successive client writes
    pub writes: Vec<usize>,
    /// virtual-time gap between client writes in ms (0 = back to back)
    pub gap_ms: u64,
    /// sizes of the server's reply writes (sent after it has read everything)
    pub replies: Vec<usize>,
    /// 0 = TcpStream::read(), n = read_exact(n)
    pub read_size: usize,
    pub clients: u8,
    /// the server calls accept this long after the barrier
    pub accept_delay_ms: u64,
    pub faults: bool,
    pub horizon_ms: u64,
}

struct Shared {
    log: Log,
    remaining: AtomicUsize,
}

struct ServerApp {
    cfg: StreamCfg,
    sh: Arc<Shared>,
}

struct ClientApp {
    cfg: StreamCfg,
    id: u8,
    sh: Arc<Shared>,
}

async fn read_total(
    s: &mut TcpStream,
    who: u8,
    read_size: usize,
    total: usize,
    log: &Log,
) -> Result<Vec<u8>, String> {
    let mut got = vec![];
    while got.len() < total {
        let r = if read_size == 0 {
            s.read().await
        } else {
            s.read_exact(read_size).await
        };
        match r {
            Ok(b) => {
                log.push(Ev::Read {
                    who,
                    asked: read_size,
                    got: b.clone(),
                });
                got.extend(b);
            }
            Err(e) => return Err(format!("{e:?}")),
        }
    }
    Ok(got)
}

fn finish(sh: &Shared, shutdown: &Shutdown) {
    if sh.remaining.fetch_sub(1, Ordering::SeqCst) == 1 {
        shutdown.shut_down();
    }
}

#[async_trait::async_trait]
impl Protocol for ServerApp {
    async fn start(
        &self,
        shutdown: Shutdown,
        initialized: Arc<Barrier>,
        machine: Arc<Machine>,
    ) -> Result<(), StartError> {
        let mut listener = TcpListener::bind(Endpoint::new(ip(SERVER), PORT), machine)
            .await
            .map_err(|_| StartError::Other)?;
        initialized.wait().await;
        if self.cfg.accept_delay_ms > 0 {
            tokio::time::sleep(Duration::from_millis(self.cfg.accept_delay_ms)).await;
        }
        let total: usize = self.cfg.writes.iter().sum();
        for _ in 0..self.cfg.clients {
            let mut stream = match listener.accept().await {
                Ok(s) => s,
                Err(e) => {
                    self.sh.log.push(Ev::Error {
                        who: 0,
                        what: format!("accept: {e:?}"),
                    });
                    return Ok(());
                }
            };
            let sh = self.sh.clone();
            let cfg = self.cfg.clone();
            let shutdown = shutdown.clone();
            tokio::spawn(async move {
                match read_total(&mut stream, 0, cfg.read_size, total, &sh.log).await {
                    Ok(_) => {
                        let mut pos = 0;
                        for n in &cfg.replies {
                            let b: Vec<u8> = (pos..pos + n).map(|p| byte_of(0, p)).collect();
                            pos += n;
                            sh.log.push(Ev::Wrote {
                                who: 0,
                                bytes: b.clone(),
                            });
                            let _ = stream.write(b).await;
                        }
                        sh.log.push(Ev::Done { who: 0 });
                    }
                    Err(e) => sh.log.push(Ev::Error {
                        who: 0,
                        what: format!("server read: {e}"),
                    }),
                }
                finish(&sh, &shutdown);
                // keep the stream alive until the run ends
                std::future::pending::<()>().await;
            });
        }
        Ok(())
    }
    fn demux(
        &self,
        _m: Message,
        _c: Arc<dyn Session>,
        _ctl: Control,
        _mach: Arc<Machine>,
    ) -> Result<(), DemuxError> {
        Ok(())
    }
}

#[async_trait::async_trait]
impl Protocol for ClientApp {
    async fn start(
        &self,
        shutdown: Shutdown,
        initialized: Arc<Barrier>,
        machine: Arc<Machine>,
    ) -> Result<(), StartError> {
        initialized.wait().await;
        let mut stream = match TcpStream::connect(Endpoint::new(ip(SERVER), PORT), machine).await {
            Ok(s) => s,
            Err(e) => {
                self.sh.log.push(Ev::Error {
                    who: self.id,
                    what: format!("connect: {e:?}"),
                });
                return Ok(());
            }
        };
        let mut pos = 0;
        for (i, n) in self.cfg.writes.iter().enumerate() {
            if i > 0 && self.cfg.gap_ms > 0 {
                tokio::time::sleep(Duration::from_millis(self.cfg.gap_ms)).await;
            }
            let b: Vec<u8> = (pos..pos + n).map(|p| byte_of(self.id, p)).collect();
            pos += n;
            self.sh.log.push(Ev::Wrote {
                who: self.id,
                bytes: b.clone(),
            });
            let _ = stream.write(b).await;
        }
        let total: usize = self.cfg.replies.iter().sum();
        if total > 0 {
            match read_total(&mut stream, self.id, self.cfg.read_size, total, &self.sh.log).await {
                Ok(_) => {}
                Err(e) => self.sh.log.push(Ev::Error {
                    who: self.id,
                    what: format!("client read: {e}"),
                }),
            }
        }
        self.sh.log.push(Ev::Done { who: self.id });
        finish(&self.sh, &shutdown);
        std::future::pending::<()>().await;
        Ok(())
    }
    fn demux(
        &self,
        _m: Message,
        _c: Arc<dyn Session>,
        _ctl: Control,
        _mach: Arc<Machine>,
    ) -> Result<(), DemuxError> {
        Ok(())
    }
}

pub struct StreamSc(pub StreamCfg);

#[derive(Debug, Hash)]
pub struct StreamObs {
    status: String,
    /// per reader: the concatenation of what it read, as (writer id, position) runs
    reads: Vec<(u8, Vec<u8>)>,
    read_lens: Vec<(u8, usize, usize)>,
    errors: Vec<String>,
}

/// Names how `got` deviates from the expected stream `want` (the peer's concatenated writes).
fn classify(got: &[u8], want: &[u8], write_sizes: &[usize]) -> &'static str {
    if got.len() <= want.len() && got == &want[..got.len()] {
        return "bytes-missing-at-end";
    }
    // a permutation of whole writes?
    let mut chunks = vec![];
    let mut p = 0;
    for n in write_sizes {
        chunks.push(&want[p..p + n]);
        p += n;
    }
    let mut rest = got;
    let mut used = vec![false; chunks.len()];
    let mut whole = true;
    while !rest.is_empty() {
        let mut hit = false;
        for (i, c) in chunks.iter().enumerate() {
            if !used[i] && !c.is_empty() && rest.starts_with(c) {
                used[i] = true;
                rest = &rest[c.len()..];
                hit = true;
                break;
            }
        }
        if !hit {
            whole = false;
            break;
        }
    }
    if whole {
        return "stream-is-permutation-of-whole-writes";
    }
    let mut a = got.to_vec();
    a.sort();
    let mut b = want[..got.len().min(want.len())].to_vec();
    b.sort();
    if got.len() > want.len() {
        "more-bytes-than-written"
    } else if a == b {
        "bytes-reordered-inside-writes"
    } else if got.iter().any(|x| writer_of(*x) != writer_of(want[0])) {
        "foreign-bytes-in-stream"
    } else {
        "bytes-lost-or-duplicated-in-the-middle"
    }
}

impl Scenario for StreamSc {
    type Obs = StreamObs;
    fn name(&self) -> String {
        self.0.name.clone()
    }
    fn poll_cap(&self) -> u64 {
        1_000_000
    }
    fn run(&self) -> (StreamObs, Vec<Violation>) {
        let cfg = self.0.clone();
        sched::install_rand(vec![1000, 5000, 9000, 13000, 17000, 21000, 25000, 29000], vec![]);
        let net = network(cfg.mtu);
        sched::register_networks(&[&net]);
        install_frame_choices(fault_menu(cfg.faults));
        let sh = Arc::new(Shared {
            log: Log::default(),
            remaining: AtomicUsize::new(cfg.clients as usize * 2),
        });
        let mut machines = vec![socket_host(
            &net,
            ip(SERVER),
            cfg.arp,
            ServerApp {
                cfg: cfg.clone(),
                sh: sh.clone(),
            },
        )];
        for c in 0..cfg.clients {
            machines.push(socket_host(
                &net,
                ip(10 + c),
                cfg.arp,
                ClientApp {
                    cfg: cfg.clone(),
                    id: c + 1,
                    sh: sh.clone(),
                },
            ));
        }
        let horizon = Duration::from_millis(cfg.horizon_ms);
        sched::register_machines(&machines);
        let status = sched::block_on_paused_send(async move {
            sched::start_clock();
            run_internet_with_timeout(&machines, horizon).await
        });
        let log = sh.log.take();
        let mut viols = vec![];
        let status = match status {
            Ok(s) => format!("{s:?}"),
            Err(e) => format!("main task failed: {e}"),
        };
        // reassemble per reader
        let mut reads: Vec<(u8, Vec<u8>)> = vec![];
        let mut read_lens = vec![];
        let mut errors = vec![];
        for (_, e) in &log {
            match e {
                Ev::Read { who, asked, got } => {
                    read_lens.push((*who, *asked, got.len()));
                    if *asked > 0 && got.len() > *asked {
                        viols.push(Violation::new(
                            "read-bound",
                            "Socket::recv",
                            "recv-returned-more-than-n",
                            format!("reader {who} asked for {asked} bytes and got {}", got.len()),
                        ));
                    }
                    if *who == 0 {
                        // the server handles one connection per task; attribute by writer range
                        let w = got.first().map(|b| writer_of(*b)).unwrap_or(0);
                        match reads.iter_mut().find(|r| r.0 == 100 + w) {
                            Some(r) => r.1.extend(got),
                            None => reads.push((100 + w, got.clone())),
                        }
                    } else {
                        match reads.iter_mut().find(|r| r.0 == *who) {
                            Some(r) => r.1.extend(got),
                            None => reads.push((*who, got.clone())),
                        }
                    }
                }
                Ev::Error { who, what } => errors.push(format!("{who}: {what}")),
                _ => {}
            }
        }
        reads.sort();
        let total_w: usize = cfg.writes.iter().sum();
        let total_r: usize = cfg.replies.iter().sum();
        // every stream read so far must be a prefix of what its peer wrote
        for (tag, got) in &reads {
            let (want, sizes, desc) = if *tag >= 100 {
                (
                    stream(tag - 100, total_w),
                    &cfg.writes,
                    format!("server reading from client {}", tag - 100),
                )
            } else {
                (stream(0, total_r), &cfg.replies, format!("client {tag} reading replies"))
            };
            if !(got.len() <= want.len() && got[..] == want[..got.len()]) {
                viols.push(Violation::new(
                    "stream-intact",
                    "TcpStream::read",
                    classify(got, &want, sizes),
                    format!(
                        "{desc}: read {} expected a prefix of {}",
                        crate::tcpmodel::trunc(got),
                        crate::tcpmodel::trunc(&want)
                    ),
                ));
            }
        }
        // at the horizon everything must have arrived: the run ends by the last participant's
        // shutdown request, not by the timeout
        if viols.is_empty() {
            if status != "Exited" {
                let got_w: usize = reads.iter().filter(|r| r.0 >= 100).map(|r| r.1.len()).sum();
                viols.push(Violation::new(
                    "stream-complete",
                    "run",
                    if !errors.is_empty() {
                        "application-saw-error"
                    } else if got_w < total_w * cfg.clients as usize {
                        "bytes-missing-at-horizon"
                    } else {
                        "replies-missing-at-horizon"
                    },
                    format!(
                        "status {status}; server got {got_w} of {} bytes; errors {:?}",
                        total_w * cfg.clients as usize,
                        errors
                    ),
                ));
            }
        }
        (
            StreamObs {
                status,
                reads,
                read_lens,
                errors,
            },
            viols,
        )
    }
}

pub fn stream_cfgs(tier: &str) -> Vec<(StreamCfg, Bounds)> {
    let base = StreamCfg {
        name: String::new(),
        mtu: Some(1500),
        arp: true,
        writes: vec![4, 4, 4],
        gap_ms: 0,
        replies: vec![],
        read_size: 5,
        clients: 1,
        accept_delay_ms: 0,
        faults: false,
        horizon_ms: 1500,
    };
    let mut v = vec![];
    let mut add = |name: &str, f: &dyn Fn(&mut StreamCfg), d: usize, frame_cap: usize| {
        let mut c = base.clone();
        f(&mut c);
        c.name = name.to_string();
        let wall = if tier == "quick" { 150 } else { 900 };
        v.push((
            c,
            Bounds::new(d)
                .cap(KIND_FRAME, frame_cap)
                .wall(Duration::from_secs(wall)),
        ));
    };
    let q = tier == "quick";
    add("w[4,4,4] read_exact(5) arp", &|_| {}, if q { 2 } else { 3 }, 0);
    add(
        "w[4,4,4] read_exact(5) arp, frame faults",
        &|c| c.faults = true,
        2,
        2,
    );
    add(
        "w[1,1500,1] read_exact(64) mtu100, frame faults",
        &|c| {
            c.writes = vec![1, 1500, 1];
            c.read_size = 64;
            c.mtu = Some(100);
            c.faults = true;
        },
        1,
        1,
    );
    add(
        "w[3,3] replies[2,2] read() both directions",
        &|c| {
            c.writes = vec![3, 3];
            c.replies = vec![2, 2];
            c.read_size = 0;
        },
        2,
        0,
    );
    add(
        "w[2,2] accept 300 ms late, read_exact(1)",
        &|c| {
            c.writes = vec![2, 2];
            c.accept_delay_ms = 300;
            c.read_size = 1;
        },
        if q { 1 } else { 2 },
        0,
    );
    add(
        "w[4,4,4] 60 ms apart, accept 400 ms late, read_exact(12)",
        &|c| {
            c.writes = vec![4, 4, 4];
            c.gap_ms = 60;
            c.accept_delay_ms = 400;
            c.read_size = 12;
        },
        1,
        0,
    );
    // more than one 64 KiB window of text queued at once: the sender is window-limited and the
    // receiving session handles more than a buffer's worth in one pass (default schedule only in
    // the quick tier: one execution is ~300 segments)
    add(
        "40 x w[5000] back to back, read_exact(4096), 200 kB",
        &|c| {
            c.writes = vec![5000; 40];
            c.read_size = 4096;
            c.horizon_ms = 3000;
        },
        if q { 0 } else { 1 },
        0,
    );
    if !q {
        add(
            "w[3000] read_exact(4096) mtu1500, frame faults",
            &|c| {
                c.writes = vec![3000];
                c.read_size = 4096;
                c.faults = true;
            },
            1,
            1,
        );
        add(
            "20 x w[2] back to back, read_exact(64)",
            &|c| {
                c.writes = vec![2; 20];
                c.read_size = 64;
            },
            1,
            0,
        );
        add(
            "w[4] sleep 50 ms w[4], read_exact(5), frame faults",
            &|c| {
                c.writes = vec![4, 4];
                c.gap_ms = 50;
                c.faults = true;
            },
            2,
            1,
        );
        add(
            "3 clients w[2,2] one listener, no arp",
            &|c| {
                c.clients = 3;
                c.writes = vec![2, 2];
                c.arp = false;
                c.read_size = 4;
            },
            1,
            0,
        );
        add(
            "2 clients w[3] replies[3] arp",
            &|c| {
                c.clients = 2;
                c.writes = vec![3];
                c.replies = vec![3];
                c.read_size = 0;
            },
            1,
            0,
        );
    }
    v
}

// ---------------------------------------------------------------------------------------------
// Datagram sockets: each datagram intact or not at all, to the connected peer only.

#[derive(Clone, Debug)]
pub struct DgramCfg {
    pub name: String,
    pub sizes: Vec<usize>,
    pub faults: bool,
    pub arp: bool,
}

struct DgServer {
    sh: Arc<Shared>,
    expect: usize,
}
struct DgClient {
    cfg: DgramCfg,
    sh: Arc<Shared>,
}
struct DgBystander {
    sh: Arc<Shared>,
}

#[async_trait::async_trait]
impl Protocol for DgServer {
    async fn start(
        &self,
        shutdown: Shutdown,
        initialized: Arc<Barrier>,
        machine: Arc<Machine>,
    ) -> Result<(), StartError> {
        let api = machine.protocol::<SocketAPI>().unwrap();
        let mut l = api
            .new_socket(ProtocolFamily::INET, SocketType::Datagram, machine.clone())
            .await
            .map_err(|_| StartError::Other)?;
        l.bind(Endpoint::new(ip(SERVER), PORT))
            .map_err(|_| StartError::Other)?;
        l.listen(10).map_err(|_| StartError::Other)?;
        initialized.wait().await;
        let mut s = match l.accept().await {
            Ok(s) => s,
            Err(e) => {
                self.sh.log.push(Ev::Error {
                    who: 0,
                    what: format!("accept: {e:?}"),
                });
                return Ok(());
            }
        };
        for _ in 0..self.expect {
            match s.recv_msg().await {
                Ok(m) => self.sh.log.push(Ev::Read {
                    who: 0,
                    asked: 0,
                    got: m.to_vec(),
                }),
                Err(e) => {
                    self.sh.log.push(Ev::Error {
                        who: 0,
                        what: format!("recv: {e:?}"),
                    });
                    break;
                }
            }
        }
        self.sh.log.push(Ev::Done { who: 0 });
        // linger so that late duplicates can still be observed
        tokio::time::sleep(Duration::from_millis(400)).await;
        loop {
            s.set_blocking(false);
            match s.recv_msg().await {
                Ok(m) => self.sh.log.push(Ev::Read {
                    who: 0,
                    asked: 0,
                    got: m.to_vec(),
                }),
                Err(_) => break,
            }
        }
        shutdown.shut_down();
        Ok(())
    }
    fn demux(&self, _m: Message, _c: Arc<dyn Session>, _ctl: Control, _mach: Arc<Machine>) -> Result<(), DemuxError> {
        Ok(())
    }
}

#[async_trait::async_trait]
impl Protocol for DgClient {
    async fn start(
        &self,
        _shutdown: Shutdown,
        initialized: Arc<Barrier>,
        machine: Arc<Machine>,
    ) -> Result<(), StartError> {
        let api = machine.protocol::<SocketAPI>().unwrap();
        let mut s = api
            .new_socket(ProtocolFamily::INET, SocketType::Datagram, machine.clone())
            .await
            .map_err(|_| StartError::Other)?;
        initialized.wait().await;
        if let Err(e) = s.connect(Endpoint::new(ip(SERVER), PORT)).await {
            self.sh.log.push(Ev::Error {
                who: 1,
                what: format!("connect: {e:?}"),
            });
            return Ok(());
        }
        for (i, n) in self.cfg.sizes.iter().enumerate() {
            // datagram i carries its index in every byte pair so that datagrams are distinguishable
            let b: Vec<u8> = (0..*n).map(|p| (i as u8) * 16 + (p % 16) as u8).collect();
            self.sh.log.push(Ev::Wrote {
                who: 1,
                bytes: b.clone(),
            });
            let _ = s.send(b);
            tokio::task::yield_now().await;
        }
        std::future::pending::<()>().await;
        Ok(())
    }
    fn demux(&self, _m: Message, _c: Arc<dyn Session>, _ctl: Control, _mach: Arc<Machine>) -> Result<(), DemuxError> {
        Ok(())
    }
}

#[async_trait::async_trait]
impl Protocol for DgBystander {
    async fn start(
        &self,
        _shutdown: Shutdown,
        initialized: Arc<Barrier>,
        machine: Arc<Machine>,
    ) -> Result<(), StartError> {
        // a third party listening on the same port of its own address: must receive nothing
        let api = machine.protocol::<SocketAPI>().unwrap();
        let mut l = api
            .new_socket(ProtocolFamily::INET, SocketType::Datagram, machine.clone())
            .await
            .map_err(|_| StartError::Other)?;
        l.bind(Endpoint::new(ip(30), PORT)).map_err(|_| StartError::Other)?;
        l.listen(10).map_err(|_| StartError::Other)?;
        initialized.wait().await;
        if let Ok(mut s) = l.accept().await {
            if let Ok(m) = s.recv_msg().await {
                self.sh.log.push(Ev::Read {
                    who: 9,
                    asked: 0,
                    got: m.to_vec(),
                });
            }
        }
        Ok(())
    }
    fn demux(&self, _m: Message, _c: Arc<dyn Session>, _ctl: Control, _mach: Arc<Machine>) -> Result<(), DemuxError> {
        Ok(())
    }
}

// ---------------------------------------------------------------------------------------------
// Two stream sockets of one machine bound to the same local endpoint connect to the same remote
// endpoint at the same time (while ARP is still unresolved, so the first connect is suspended
// when the second starts). At most one may succeed, and what the successful one writes arrives.

struct TwinServer {
    sh: Arc<Shared>,
}
struct TwinClient {
    sh: Arc<Shared>,
}

#[async_trait::async_trait]
impl Protocol for TwinServer {
    async fn start(&self, shutdown: Shutdown, initialized: Arc<Barrier>, machine: Arc<Machine>) -> Result<(), StartError> {
        let mut listener = TcpListener::bind(Endpoint::new(ip(SERVER), PORT), machine)
            .await
            .map_err(|_| StartError::Other)?;
        initialized.wait().await;
        let sh = self.sh.clone();
        // whoever connects: read what it sends
        tokio::spawn(async move {
            while let Ok(mut st) = listener.accept().await {
                let sh = sh.clone();
                tokio::spawn(async move {
                    if let Ok(b) = st.read_exact(4).await {
                        sh.log.push(Ev::Read { who: 0, asked: 4, got: b });
                    }
                });
            }
        });
        tokio::time::sleep(Duration::from_millis(2500)).await;
        shutdown.shut_down();
        Ok(())
    }
    fn demux(&self, _m: Message, _c: Arc<dyn Session>, _ctl: Control, _mach: Arc<Machine>) -> Result<(), DemuxError> {
        Ok(())
    }
}

#[async_trait::async_trait]
impl Protocol for TwinClient {
    async fn start(&self, _shutdown: Shutdown, initialized: Arc<Barrier>, machine: Arc<Machine>) -> Result<(), StartError> {
        let api = machine.protocol::<SocketAPI>().unwrap();
        initialized.wait().await;
        for k in 0..2u8 {
            let (api, machine, sh) = (api.clone(), machine.clone(), self.sh.clone());
            tokio::spawn(async move {
                let Ok(mut s) = api.new_socket(ProtocolFamily::INET, SocketType::Stream, machine.clone()).await else {
                    return;
                };
                if s.bind(Endpoint::new(ip(10), 5555)).is_err() {
                    sh.log.push(Ev::Note { who: k + 1, what: "bind refused".into() });
                    return;
                }
                match s.connect(Endpoint::new(ip(SERVER), PORT)).await {
                    Ok(_) => {
                        sh.log.push(Ev::Note { who: k + 1, what: "connected".into() });
                        let b = vec![0xA0 + k; 4];
                        sh.log.push(Ev::Wrote { who: k + 1, bytes: b.clone() });
                        let _ = s.send(b);
                        // keep the socket alive
                        std::future::pending::<()>().await;
                    }
                    Err(e) => sh.log.push(Ev::Note { who: k + 1, what: format!("connect failed: {e:?}") }),
                }
            });
        }
        std::future::pending::<()>().await;
        Ok(())
    }
    fn demux(&self, _m: Message, _c: Arc<dyn Session>, _ctl: Control, _mach: Arc<Machine>) -> Result<(), DemuxError> {
        Ok(())
    }
}

pub struct TwinSc {
    pub arp: bool,
}

impl Scenario for TwinSc {
    type Obs = (String, Vec<String>);
    fn name(&self) -> String {
        format!("two sockets bound to one endpoint connect to one remote at once, arp={}", self.arp)
    }
    fn run(&self) -> (Self::Obs, Vec<Violation>) {
        sched::install_rand(vec![1000, 5000, 9000, 13000], vec![]);
        let net = network(Some(1500));
        sched::register_networks(&[&net]);
        install_frame_choices(fault_menu(false));
        let sh = Arc::new(Shared {
            log: Log::default(),
            remaining: AtomicUsize::new(0),
        });
        let machines = vec![
            socket_host(&net, ip(SERVER), self.arp, TwinServer { sh: sh.clone() }),
            socket_host(&net, ip(10), self.arp, TwinClient { sh: sh.clone() }),
        ];
        sched::register_machines(&machines);
        let status = sched::block_on_paused_send(async move {
            sched::start_clock();
            run_internet_with_timeout(&machines, Duration::from_millis(4000)).await
        });
        let status = match status {
            Ok(s) => format!("{s:?}"),
            Err(e) => e,
        };
        let log = sh.log.take();
        let mut viols = vec![];
        let connected: Vec<u8> = log
            .iter()
            .filter_map(|(_, e)| match e {
                Ev::Note { who, what } if what == "connected" => Some(*who),
                _ => None,
            })
            .collect();
        let wrote: Vec<Vec<u8>> = log.iter().filter_map(|(_, e)| match e { Ev::Wrote { bytes, .. } => Some(bytes.clone()), _ => None }).collect();
        let read: Vec<Vec<u8>> = log.iter().filter_map(|(_, e)| match e { Ev::Read { who: 0, got, .. } => Some(got.clone()), _ => None }).collect();
        if connected.len() > 1 {
            viols.push(Violation::new(
                "one-binding-one-connection",
                "Socket::connect",
                "both-sockets-of-one-binding-connected",
                format!("sockets {connected:?} share (10.0.0.10:5555 -> server) and both connects succeeded"),
            ));
        }
        for w in &wrote {
            if !read.contains(w) {
                viols.push(Violation::new(
                    "stream-intact",
                    "Socket::send",
                    "bytes-of-the-connected-socket-never-arrived",
                    format!("a connected socket wrote {w:?}; the server read {read:?} (status {status})"),
                ));
            }
        }
        for r in &read {
            if !wrote.contains(r) {
                viols.push(Violation::new(
                    "stream-intact",
                    "TcpStream::read",
                    "server-read-bytes-nobody-wrote",
                    format!("server read {r:?}, written {wrote:?}"),
                ));
            }
        }
        let notes: Vec<String> = log
            .iter()
            .filter_map(|(_, e)| match e {
                Ev::Note { who, what } => Some(format!("{who}:{what}")),
                _ => None,
            })
            .collect();
        ((status, notes), viols)
    }
}

pub struct DgramSc(pub DgramCfg);

impl Scenario for DgramSc {
    type Obs = (String, Vec<Vec<u8>>);
    fn name(&self) -> String {
        self.0.name.clone()
    }
    fn run(&self) -> (Self::Obs, Vec<Violation>) {
        let cfg = self.0.clone();
        sched::install_rand(vec![], vec![]);
        let net = network(Some(1500));
        sched::register_networks(&[&net]);
        install_frame_choices(fault_menu(cfg.faults));
        let sh = Arc::new(Shared {
            log: Log::default(),
            remaining: AtomicUsize::new(0),
        });
        let machines = vec![
            socket_host(
                &net,
                ip(SERVER),
                cfg.arp,
                DgServer {
                    sh: sh.clone(),
                    expect: cfg.sizes.len(),
                },
            ),
            socket_host(
                &net,
                ip(10),
                cfg.arp,
                DgClient {
                    cfg: cfg.clone(),
                    sh: sh.clone(),
                },
            ),
            socket_host(&net, ip(30), cfg.arp, DgBystander { sh: sh.clone() }),
        ];
        sched::register_machines(&machines);
        let status = sched::block_on_paused_send(async move {
            sched::start_clock();
            run_internet_with_timeout(&machines, Duration::from_millis(1500)).await
        });
        let status = match status {
            Ok(s) => format!("{s:?}"),
            Err(e) => e,
        };
        let log = sh.log.take();
        let wire = sched::take_wire();
        let dups = wire
            .iter()
            .filter(|f| matches!(f.verdict, elvis_core::verif::Verdict::Duplicate(_)))
            .count();
        let mut sent: Vec<Vec<u8>> = vec![];
        let mut got: Vec<Vec<u8>> = vec![];
        let mut viols = vec![];
        for (_, e) in &log {
            match e {
                Ev::Wrote { bytes, .. } => sent.push(bytes.clone()),
                Ev::Read { who: 0, got: g, .. } => got.push(g.clone()),
                Ev::Read { who: 9, got: g, .. } => viols.push(Violation::new(
                    "datagram-peer-only",
                    "Socket::recv_msg",
                    "third-party-received-datagram",
                    format!("bystander received {} bytes", g.len()),
                )),
                _ => {}
            }
        }
        for g in &got {
            let n_sent = sent.iter().filter(|s| *s == g).count();
            if n_sent == 0 {
                viols.push(Violation::new(
                    "datagram-intact",
                    "Socket::recv_msg",
                    "received-datagram-equals-no-sent-one",
                    format!("received {} which was never sent", crate::tcpmodel::trunc(g)),
                ));
                continue;
            }
            let n_got = got.iter().filter(|x| *x == g).count();
            if n_got > n_sent + dups {
                viols.push(Violation::new(
                    "datagram-intact",
                    "Socket::recv_msg",
                    "datagram-multiplied",
                    format!("datagram of {} bytes received {n_got} times, sent {n_sent}, {dups} injected duplicates", g.len()),
                ));
            }
        }
        (
            (status, got),
            viols,
        )
    }
}

pub fn dgram_cfgs(tier: &str) -> Vec<(DgramCfg, Bounds)> {
    let q = tier == "quick";
    let wall = Duration::from_secs(if q { 150 } else { 900 });
    vec![
        (
            DgramCfg {
                name: "datagrams [0,1,1472] arp".into(),
                sizes: vec![0, 1, 1472],
                faults: false,
                arp: true,
            },
            Bounds::new(if q { 1 } else { 2 }).wall(wall),
        ),
        (
            DgramCfg {
                name: "datagrams [1,1] no arp, frame faults".into(),
                sizes: vec![1, 1],
                faults: true,
                arp: false,
            },
            Bounds::new(if q { 1 } else { 2 }).cap(KIND_FRAME, 1).wall(wall),
        ),
    ]
}

pub fn run(report: &mut Report, tier: &str) {
    report.assume("one task poll is atomic: the explorer enumerates the orders in which an executor may start polls (this over-approximates every multi-thread runtime at poll granularity) but not two polls running simultaneously");
    report.assume("frame faults: drop, duplicate (now or 120 ms later), delay 1 ms or 150 ms, at most 2 per execution");
    for (cfg, b) in stream_cfgs(tier) {
        sched::run_into(&StreamSc(cfg), &b, report);
    }
    for (cfg, b) in dgram_cfgs(tier) {
        sched::run_into(&DgramSc(cfg), &b, report);
    }
    for arp in [true, false] {
        let d = if tier == "quick" { 1 } else { 2 };
        sched::run_into(&TwinSc { arp }, &Bounds::new(d).wall(Duration::from_secs(300)), report);
    }
    vkit::loomrun::run_into(&loom_scenarios(tier), report);
    report.set("exhaustive", json!(true));
    report.set("rule", json!("every execution of each scenario that deviates from the default (FIFO task order, declaration-order select, all frames delivered) in at most d choices, each executed once on the real stack under a paused clock; states = executions, transitions = choice points answered"));
}

/// Two polls running at the same time on two workers: the hand-over of a connection's
/// stored messages in `accept()` against deliveries by the connection's task, and
/// sockets of one machine picking ephemeral ports together.
fn loom_scenarios(tier: &str) -> Vec<vkit::loomrun::LoomScenario> {
    let thorough = tier == "thorough";
    let (maxb, maxd, bound, wall) = if thorough { (3, 3, 0, 900) } else { (2, 2, 3, 120) };
    let mut v = vec![];
    for before in 0..=maxb {
        for during in 1..=maxd {
            for ann in ["announce", "none"] {
                v.push(format!("accept:{before}:{during}:{ann}"));
            }
        }
    }
    v.push("sockbind:stream".into());
    v.push("ephemeral:2".into());
    v.push("ephemeral:3".into());
    if thorough {
        v.push("ephemeral:4".into());
    }
    v.into_iter()
        .map(|name| vkit::loomrun::LoomScenario {
            name,
            preemptions: bound,
            wall: std::time::Duration::from_secs(wall),
        })
        .collect()
}

pub fn replay(w: &serde_json::Value, tier: &str) -> String {
    if let Some(s) = vkit::loomrun::replay(w) {
        return s;
    }
    let name = w["scenario"].as_str().unwrap_or("");
    let ch: Vec<u16> = w["choices"]
        .as_array()
        .map(|a| a.iter().map(|x| x.as_u64().unwrap() as u16).collect())
        .unwrap_or_default();
    for arp in [true, false] {
        let sc = TwinSc { arp };
        if sc.name() == name {
            return sched::replay(&sc, &ch);
        }
    }
    for t in ["quick", "thorough", tier] {
        for (c, _) in stream_cfgs(t) {
            if c.name == name {
                return sched::replay(&StreamSc(c), &ch);
            }
        }
        for (c, _) in dgram_cfgs(t) {
            if c.name == name {
                return sched::replay(&DgramSc(c), &ch);
            }
        }
    }
    format!("unknown scenario {name}")
}
