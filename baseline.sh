#!/bin/bash
# Runs the repository's pinned test suite with the verif feature OFF (the default build).
# Usage: ./baseline.sh [repo-dir]   (default /repo)
R=${1:-/repo}
cd "$R/sim" || exit 2
export CARGO_NET_OFFLINE=true
if command -v cargo-nextest >/dev/null 2>&1 && [ -f /w/lib/nextest.toml ]; then
  cargo nextest run --workspace --no-fail-fast --tool-config-file pb:/w/lib/nextest.toml --profile pb --test-threads 8 --offline
else
  cargo test --workspace --no-fail-fast --offline
fi
