//! C13 - A simulation starts behind a barrier and ends with the requested status.

use elvis::{
    applications::{
        dns_test_client::DnsTestClient, dns_test_server::DnsTestServer,
        streaming_client::StreamingClient, streaming_server::VideoServer, BasicClient, BasicServer,
        web_server::WebServerType, BareBonesServer, Capture, DhcpServer, Forward, PingPong,
        SendMessage, SocketClient, SocketServer, TcpListenerServer, WebServer,
    },
    ip_generator::IpRange,
};
use elvis_core::{
    message::Message,
    protocol::{DemuxError, StartError},
    protocols::{
        dhcp::dhcp_client::DhcpClient,
        ipv4::{Ipv4, Ipv4Address, Recipient},
        socket_api::socket::SocketType,
        Arp, DnsClient, DnsServer, Endpoint, Endpoints, Pci, SocketAPI, Tcp, Udp,
    },
    Transport,
    run_internet_with_timeout, Control, ExitStatus, IpTable, Machine, Network, Protocol, Session,
    Shutdown,
};
use serde_json::json;
use std::{
    sync::{
        atomic::{AtomicU64, Ordering},
        Arc, Mutex,
    },
    time::Duration,
};
use tokio::sync::Barrier;
use vkit::{
    sched::{self, Bounds, Scenario},
    Report, Violation,
};

#[derive(Debug, Clone, PartialEq, Eq, Hash)]
enum Ev {
    InitDone(u8),
    PassedBarrier(u8),
    /// protocol ("arp"/"ipv4"/"other") and sender MAC of a frame handed to the network
    Frame(&'static str, u64),
    Demux(u8),
    Request(u8, Option<u32>),
}

#[derive(Default)]
struct Book {
    seq: AtomicU64,
    ev: Mutex<Vec<(u64, Duration, Ev)>>,
}
impl Book {
    fn push(&self, e: Ev) {
        let s = self.seq.fetch_add(1, Ordering::SeqCst);
        self.ev.lock().unwrap().push((s, sched::vnow(), e));
    }
}

#[derive(Clone, Debug, PartialEq)]
pub enum After {
    /// request shutdown at this virtual time (ms after the barrier) with this status (None = Exited)
    ShutdownAt(u64, Option<u32>),
    /// return from start without ever requesting shutdown
    Return,
    /// never return from start
    Hang,
}

#[derive(Clone, Debug)]
pub struct SlowCfg {
    pub yields: usize,
    /// false: the application never reaches the barrier (its initialisation never finishes)
    pub reaches_barrier: bool,
    pub after: After,
}

struct Slow<const N: usize> {
    cfg: SlowCfg,
    book: Arc<Book>,
}

#[async_trait::async_trait]
impl<const N: usize> Protocol for Slow<N> {
    async fn start(&self, shutdown: Shutdown, initialized: Arc<Barrier>, _m: Arc<Machine>) -> Result<(), StartError> {
        for _ in 0..self.cfg.yields {
            tokio::task::yield_now().await;
        }
        if !self.cfg.reaches_barrier {
            std::future::pending::<()>().await;
        }
        self.book.push(Ev::InitDone(N as u8));
        initialized.wait().await;
        self.book.push(Ev::PassedBarrier(N as u8));
        match self.cfg.after {
            After::ShutdownAt(ms, status) => {
                if ms > 0 {
                    tokio::time::sleep(Duration::from_millis(ms)).await;
                }
                self.book.push(Ev::Request(N as u8, status));
                match status {
                    Some(s) => shutdown.shut_down_with_status(ExitStatus::Status(s)),
                    None => shutdown.shut_down(),
                }
            }
            After::Return => {}
            After::Hang => std::future::pending::<()>().await,
        }
        Ok(())
    }
    fn demux(&self, _m: Message, _c: Arc<dyn Session>, _ctl: Control, _mach: Arc<Machine>) -> Result<(), DemuxError> {
        self.book.push(Ev::Demux(N as u8));
        Ok(())
    }
}

#[derive(Clone, Debug, PartialEq)]
pub enum Traffic {
    None,
    /// SendMessage -> Capture over UDP (Capture requests Status(9) when the message arrives)
    SendCapture { arp: bool },
    /// SendMessage -> Forward -> Capture
    SendForwardCapture { arp: bool },
    PingPong,
    /// a client/server pair of built-in protocols and applications on full stacks with ARP
    /// (no MAC in any route), every machine also carrying slow harness applications; only the
    /// barrier and the bounded return are judged
    Zoo(&'static str),
}

#[derive(Clone, Debug)]
pub struct BarrierCfg {
    pub name: String,
    pub timeout_ms: u64,
    pub traffic: Traffic,
    /// harness applications, spread over the machines round-robin (machine count = max(1, traffic machines))
    pub slows: Vec<SlowCfg>,
    pub zero_machines: bool,
    pub burst: usize,
}

pub struct BarrierSc(pub BarrierCfg);

#[derive(Debug, Hash)]
pub struct BarrierObs {
    status: String,
    elapsed_ms: u64,
    order: Vec<Ev>,
}

struct Burst {
    n: usize,
    book: Arc<Book>,
}
#[async_trait::async_trait]
impl Protocol for Burst {
    async fn start(&self, shutdown: Shutdown, initialized: Arc<Barrier>, _m: Arc<Machine>) -> Result<(), StartError> {
        self.book.push(Ev::InitDone(200));
        initialized.wait().await;
        tokio::time::sleep(Duration::from_millis(10)).await;
        // n requesters at the same instant, each from its own task
        for i in 0..self.n {
            let (sd, book) = (shutdown.clone(), self.book.clone());
            tokio::spawn(async move {
                book.push(Ev::Request(100 + i as u8, Some(100 + i as u32)));
                sd.shut_down_with_status(ExitStatus::Status(100 + i as u32));
            });
        }
        Ok(())
    }
    fn demux(&self, _m: Message, _c: Arc<dyn Session>, _ctl: Control, _mach: Arc<Machine>) -> Result<(), DemuxError> {
        Ok(())
    }
}

fn with_slows(mut m: Machine, idx: usize, n_machines: usize, cfg: &BarrierCfg, book: &Arc<Book>) -> Machine {
    for (i, s) in cfg.slows.iter().enumerate() {
        if i % n_machines != idx {
            continue;
        }
        let (c, b) = (s.clone(), book.clone());
        m = match i {
            0 => m.with(Slow::<0> { cfg: c, book: b }),
            1 => m.with(Slow::<1> { cfg: c, book: b }),
            2 => m.with(Slow::<2> { cfg: c, book: b }),
            _ => m.with(Slow::<3> { cfg: c, book: b }),
        };
    }
    m
}

impl Scenario for BarrierSc {
    type Obs = BarrierObs;
    fn name(&self) -> String {
        self.0.name.clone()
    }
    fn run(&self) -> (BarrierObs, Vec<Violation>) {
        let cfg = self.0.clone();
        sched::install_rand(vec![], vec![]);
        let net = Network::basic();
        sched::register_networks(&[&net]);
        let book = Arc::new(Book::default());
        let b2 = book.clone();
        sched::install_wire_hooks(move |f| {
            let proto = if f.protocol == std::any::TypeId::of::<Arp>() {
                "arp"
            } else if f.protocol == std::any::TypeId::of::<Ipv4>() {
                "ipv4"
            } else {
                "other"
            };
            b2.push(Ev::Frame(proto, f.sender));
            elvis_core::verif::Verdict::Deliver
        });
        let ip = |n: u8| Ipv4Address::new([10, 0, 0, n]);
        let table = |arp: bool, mac: u64| -> IpTable<Recipient> {
            if arp {
                [("0.0.0.0/0", Recipient::new(0, None))].into_iter().collect()
            } else {
                [("0.0.0.0/0", Recipient::with_mac(0, mac))].into_iter().collect()
            }
        };
        let stack = |arp: bool, mac: u64| {
            let m = Machine::new()
                .with(Udp::new())
                .with(Ipv4::new(table(arp, mac)))
                .with(Pci::new([net.clone()]));
            if arp {
                m.with(Arp::new())
            } else {
                m
            }
        };
        let mut machines: Vec<Arc<Machine>> = vec![];
        if !cfg.zero_machines {
            match &cfg.traffic {
                Traffic::None => {
                    let n = 1.max(cfg.slows.len().min(2));
                    for i in 0..n {
                        let mut m = with_slows(Machine::new(), i, n, &cfg, &book);
                        if i == 0 && cfg.burst > 0 {
                            m = m.with(Burst { n: cfg.burst, book: book.clone() });
                        }
                        machines.push(m.arc());
                    }
                }
                Traffic::SendCapture { arp } => {
                    let dst = Endpoint::new(ip(2), 700);
                    let a = stack(*arp, 1).with(SendMessage::new(vec![Message::new("hello")], dst).local_ip(ip(1)));
                    let b = stack(*arp, 0).with(Capture::new(dst, 1).exit_status(9));
                    machines.push(with_slows(a, 0, 2, &cfg, &book).arc());
                    machines.push(with_slows(b, 1, 2, &cfg, &book).arc());
                }
                Traffic::SendForwardCapture { arp } => {
                    let mid = Endpoint::new(ip(2), 700);
                    let dst = Endpoint::new(ip(3), 700);
                    let a = stack(*arp, 1).with(SendMessage::new(vec![Message::new("hello")], mid).local_ip(ip(1)));
                    let f = stack(*arp, 2).with(Forward::new(Endpoints::new(mid, dst)));
                    let c = stack(*arp, 1).with(Capture::new(dst, 1).exit_status(9));
                    machines.push(with_slows(a, 0, 3, &cfg, &book).arc());
                    machines.push(with_slows(f, 1, 3, &cfg, &book).arc());
                    machines.push(with_slows(c, 2, 3, &cfg, &book).arc());
                }
                Traffic::Zoo(kind) => {
                    let full = |addr: Ipv4Address| {
                        Machine::new()
                            .with(Udp::new())
                            .with(Tcp::new())
                            .with(Ipv4::new(table(true, 0)))
                            .with(Pci::new([net.clone()]))
                            .with(Arp::new())
                            .with(SocketAPI::new(Some(addr)))
                    };
                    let srv = Endpoint::new(ip(1), 0xbeef);
                    let ms: Vec<Machine> = match *kind {
                        "dhcp" => vec![
                            stack(true, 0).with(DhcpServer::new(ip(1), IpRange::new(ip(10), ip(20)))),
                            stack(true, 0).with(DhcpClient::new(ip(1))),
                        ],
                        "dns" => vec![
                            full(Ipv4Address::DNS_AUTH).with(DnsServer::new(1)),
                            // the address the DNS server's built-in table has for testserver.com
                            full(Ipv4Address::new([123, 45, 67, 15])).with(DnsTestServer::new(0xbeef, SocketType::Datagram)),
                            full(ip(2)).with(DnsClient::new()).with(DnsTestClient::new(0xbeef, SocketType::Datagram)),
                        ],
                        "socket-tcp" | "socket-udp" => {
                            let t = if *kind == "socket-tcp" { SocketType::Stream } else { SocketType::Datagram };
                            vec![
                                full(ip(1)).with(SocketServer::new().transport(t).num_clients(1).output(false)),
                                full(ip(2)).with(SocketClient::new(1, ip(1), 0xbeef, t, false, 0)),
                            ]
                        }
                        "basic-tcp" | "basic-udp" => {
                            let t = if *kind == "basic-tcp" { Transport::Tcp } else { Transport::Udp };
                            vec![
                                full(ip(1)).with(BasicServer::new(srv, t, false, 1)),
                                full(ip(2)).with(BasicClient::new(1, srv, ip(2), t, false, 0)),
                            ]
                        }
                        // servers nobody talks to: machines that never finish
                        "tcp-listener alone" => vec![
                            full(ip(1)).with(TcpListenerServer::new(srv, Endpoint::new(ip(2), 70))),
                        ],
                        "dns-test-server alone" => vec![
                            full(Ipv4Address::DNS_AUTH).with(DnsServer::new(1)),
                            full(ip(1)).with(DnsTestServer::new(0xbeef, SocketType::Stream)),
                        ],
                        "socket-server alone" => vec![
                            full(ip(1)).with(SocketServer::new().transport(SocketType::Stream).num_clients(1).output(false)),
                        ],
                        "basic-server alone" => vec![full(ip(1)).with(BasicServer::new(srv, Transport::Tcp, false, 1))],
                        "video-server alone" => vec![full(ip(1)).with(VideoServer::new(srv))],
                        "dhcp-server alone" => vec![
                            stack(true, 0).with(DhcpServer::new(ip(1), IpRange::new(ip(10), ip(20)))),
                        ],
                        "barebones-server alone" => vec![full(ip(1)).with(BareBonesServer::new(srv))],
                        "web-server alone" => vec![full(ip(1)).with(WebServer::new(WebServerType::Yahoo, None))],
                        // clients whose server does not exist
                        "socket-client alone" => vec![
                            full(ip(2)).with(SocketClient::new(1, ip(1), 0xbeef, SocketType::Stream, false, 0)),
                        ],
                        "dhcp-client alone" => vec![stack(true, 0).with(DhcpClient::new(ip(1)))],
                        "streaming-client alone" => vec![full(ip(2)).with(StreamingClient::new(srv))],
                        "streaming" => vec![
                            full(ip(1)).with(VideoServer::new(srv)),
                            full(ip(2)).with(StreamingClient::new(srv)),
                        ],
                        other => panic!("unknown zoo kind {other}"),
                    };
                    let n = ms.len();
                    for (i, m) in ms.into_iter().enumerate() {
                        machines.push(with_slows(m, i, n, &cfg, &book).arc());
                    }
                }
                Traffic::PingPong => {
                    let e1 = Endpoint::new(ip(1), 700);
                    let e2 = Endpoint::new(ip(2), 700);
                    let a = stack(false, 1).with(PingPong::new(true, Endpoints::new(e1, e2)));
                    let b = stack(false, 0).with(PingPong::new(false, Endpoints::new(e2, e1)));
                    machines.push(with_slows(a, 0, 2, &cfg, &book).arc());
                    machines.push(with_slows(b, 1, 2, &cfg, &book).arc());
                }
            }
        }
        let timeout = Duration::from_millis(cfg.timeout_ms);
        let returns = Arc::new(AtomicU64::new(0));
        let r2 = returns.clone();
        sched::register_machines(&machines);
        let res = sched::block_on_paused_send(async move {
            sched::start_clock();
            let st = run_internet_with_timeout(&machines, timeout).await;
            r2.fetch_add(1, Ordering::SeqCst);
            (st, sched::vnow())
        });
        let mut viols = vec![];
        let (status, elapsed) = match res {
            Ok((s, t)) => (Some(s), t),
            Err(e) => {
                viols.push(Violation::new("returns-once", "run_internet_with_timeout", "main-task-failed", e));
                (None, Duration::ZERO)
            }
        };
        let ev = book.ev.lock().unwrap().clone();
        // --- barrier -------------------------------------------------------------------------
        let n_finishing = cfg.slows.iter().filter(|s| s.reaches_barrier).count()
            + if cfg.burst > 0 { 1 } else { 0 };
        let all_reach = cfg.slows.iter().all(|s| s.reaches_barrier);
        let last_init = ev.iter().filter(|e| matches!(e.2, Ev::InitDone(_))).map(|e| e.0).max();
        let inits = ev.iter().filter(|e| matches!(e.2, Ev::InitDone(_))).count();
        let first_frame_ev = ev.iter().find(|e| matches!(e.2, Ev::Frame(..)));
        let first_frame = first_frame_ev.map(|e| e.0);
        // who sent it: MACs are handed out in machine order
        let roles: Vec<&str> = match cfg.traffic {
            Traffic::None => vec!["harness-only"; 4],
            Traffic::SendCapture { .. } => vec!["SendMessage", "Capture"],
            Traffic::SendForwardCapture { .. } => vec!["SendMessage", "Forward", "Capture"],
            Traffic::PingPong => vec!["PingPong", "PingPong"],
            Traffic::Zoo(_) => vec!["server", "client", "client"],
        };
        let frame_origin = match first_frame_ev.map(|e| &e.2) {
            Some(Ev::Frame(p, mac)) => format!("{p}-frame-from-{}-machine", roles.get(*mac as usize).copied().unwrap_or("unknown")),
            _ => "none".to_string(),
        };
        let first_demux = ev.iter().find(|e| matches!(e.2, Ev::Demux(_))).map(|e| e.0);
        for (what, first) in [("frame-on-the-wire", first_frame), ("application-demux", first_demux)] {
            if let Some(f) = first {
                let early = !all_reach || inits < n_finishing || last_init.map(|l| f < l).unwrap_or(false);
                if early {
                    viols.push(Violation::new(
                        "barrier",
                        "Protocol::start",
                        &format!(
                            "{what}-before-all-initialised:{}",
                            if what == "frame-on-the-wire" { frame_origin.clone() } else { "demux".into() }
                        ),
                        format!(
                            "first {what} at event #{f}; {inits}/{n_finishing} harness applications had finished initialising (last at #{last_init:?}); never-initialising applications present: {}",
                            !all_reach
                        ),
                    ));
                }
            }
        }
        // --- status --------------------------------------------------------------------------
        let zoo = matches!(cfg.traffic, Traffic::Zoo(_));
        if let (Some(status), false) = (&status, zoo) {
            let mut requests: Vec<(u64, Duration, Option<u32>)> = ev
                .iter()
                .filter_map(|e| match e.2 {
                    Ev::Request(_, s) => Some((e.0, e.1, s)),
                    _ => None,
                })
                .collect();
            requests.sort();
            let capture_expected = !matches!(cfg.traffic, Traffic::None | Traffic::PingPong);
            let first = requests.first();
            let as_status = |s: Option<u32>| match s {
                Some(n) => ExitStatus::Status(n),
                None => ExitStatus::Exited,
            };
            match first {
                Some((_, t, s)) if *t < timeout => {
                    // a built-in application may legitimately have asked earlier (Capture: Status 9)
                    let ok = *status == as_status(*s) || (capture_expected && *status == ExitStatus::Status(9));
                    if !ok {
                        let pos = requests.iter().position(|r| as_status(r.2) == *status);
                        viols.push(Violation::new(
                            "first-request-wins",
                            "run_internet",
                            &match pos {
                                Some(p) if p > 0 => "later-request-won".to_string(),
                                _ => format!("status-{}", if *status == ExitStatus::TimedOut { "timed-out" } else { "other" }),
                            },
                            format!("returned {status:?}; requests in order: {:?}", requests.iter().map(|r| (r.1, r.2)).collect::<Vec<_>>()),
                        ));
                    }
                }
                Some((_, t, _)) if *t == timeout => {}
                _ => {
                    // no request before the timeout
                    let ok = *status == ExitStatus::TimedOut
                        || (capture_expected && *status == ExitStatus::Status(9))
                        || (cfg.traffic == Traffic::PingPong && *status == ExitStatus::Exited)
                        // every machine finished and nobody holds a Shutdown any more: Exited
                        || (*status == ExitStatus::Exited && cfg.slows.iter().all(|s| s.reaches_barrier && s.after == After::Return) && cfg.traffic == Traffic::None && elapsed >= timeout);
                    if !ok {
                        viols.push(Violation::new(
                            "timed-out-status",
                            "run_internet",
                            "no-request-before-timeout-but-not-timed-out",
                            format!("returned {status:?} after {elapsed:?}, timeout {timeout:?}, requests {requests:?}"),
                        ));
                    }
                }
            }
        }
        if status.is_some() {
            if elapsed > timeout + Duration::from_millis(1000) {
                viols.push(Violation::new(
                    "bounded-return",
                    "run_internet_with_timeout",
                    "returned-later-than-timeout-plus-one-second",
                    format!("returned after {elapsed:?}, timeout {timeout:?}"),
                ));
            }
        }
        if returns.load(Ordering::SeqCst) != 1 && status.is_some() {
            viols.push(Violation::new("returns-once", "run_internet_with_timeout", "returned-not-exactly-once", String::new()));
        }
        let order: Vec<Ev> = ev.iter().map(|e| e.2.clone()).filter(|e| !matches!(e, Ev::Frame(..) | Ev::Demux(_))).collect();
        (
            BarrierObs {
                status: format!("{status:?}"),
                elapsed_ms: elapsed.as_millis() as u64,
                order,
            },
            viols,
        )
    }
}

pub fn cfgs(tier: &str) -> Vec<(BarrierCfg, Bounds)> {
    let q = tier == "quick";
    let wall = Duration::from_secs(if q { 150 } else { 900 });
    let slow = |y: usize, after: After| SlowCfg {
        yields: y,
        reaches_barrier: true,
        after,
    };
    let mut v = vec![];
    let mut add = |name: &str, timeout_ms: u64, traffic: Traffic, slows: Vec<SlowCfg>, d: usize| {
        v.push((
            BarrierCfg {
                name: name.into(),
                timeout_ms,
                traffic,
                slows,
                zero_machines: false,
                burst: 0,
            },
            Bounds::new(d).wall(wall),
        ));
    };
    let d = if q { 2 } else { 4 };
    add("1 machine: shutdown Status(3) at 10 ms, timeout 50 ms", 50, Traffic::None, vec![slow(1, After::ShutdownAt(10, Some(3)))], d);
    add("2 requesters: Status(1)@10ms (3 yields) vs Exited@10ms, timeout 1 s", 1000, Traffic::None,
        vec![slow(3, After::ShutdownAt(10, Some(1))), slow(0, After::ShutdownAt(10, None))], d);
    add("3 requesters: timeout-1 / timeout / timeout+1 ms, timeout 50 ms", 50, Traffic::None,
        vec![slow(0, After::ShutdownAt(49, Some(1))), slow(1, After::ShutdownAt(50, Some(2))), slow(3, After::ShutdownAt(51, Some(3)))], d);
    add("never requests: one returns, one hangs, timeout 50 ms", 50, Traffic::None,
        vec![slow(0, After::Return), slow(1, After::Hang)], d);
    add("one application never reaches the barrier, timeout 50 ms", 50, Traffic::None,
        vec![slow(0, After::ShutdownAt(0, Some(5))), SlowCfg { yields: 1, reaches_barrier: false, after: After::Return }], d);
    add("SendMessage -> Capture (route has MAC), slow harness apps on both machines", 1000,
        Traffic::SendCapture { arp: false }, vec![slow(3, After::Return), slow(1, After::Return)], if q { 1 } else { 3 });
    add("SendMessage -> Capture with ARP, slow harness apps", 1000,
        Traffic::SendCapture { arp: true }, vec![slow(3, After::Return), slow(0, After::Return)], if q { 1 } else { 3 });
    add("SendMessage -> Forward -> Capture (routes have MACs), slow harness apps", 1000,
        Traffic::SendForwardCapture { arp: false }, vec![slow(3, After::Return), slow(1, After::Return), slow(0, After::Return)], if q { 1 } else { 2 });
    add("SendMessage -> Forward -> Capture with ARP, slow harness apps", 1000,
        Traffic::SendForwardCapture { arp: true }, vec![slow(3, After::Return), slow(1, After::Return), slow(0, After::Return)], if q { 1 } else { 2 });
    add("PingPong, slow harness app, timeout 1 s", 1000, Traffic::PingPong, vec![slow(3, After::Return)], if q { 1 } else { 2 });
    for kind in [
        "dhcp", "dns", "socket-tcp", "socket-udp", "basic-tcp", "basic-udp", "streaming",
        "tcp-listener alone", "dns-test-server alone", "socket-server alone", "basic-server alone",
        "video-server alone", "dhcp-server alone", "barebones-server alone",
        "socket-client alone", "dhcp-client alone", "streaming-client alone",
    ] {
        add(
            &format!("built-ins behind the barrier: {kind}, ARP everywhere, slow harness apps on every machine"),
            300,
            Traffic::Zoo(kind),
            vec![slow(3, After::Return), slow(2, After::Return), slow(1, After::Return)],
            if q { 1 } else { 2 },
        );
    }
    // zero machines
    v.push((
        BarrierCfg {
            name: "0 machines, timeout 50 ms".into(),
            timeout_ms: 50,
            traffic: Traffic::None,
            slows: vec![],
            zero_machines: true,
            burst: 0,
        },
        Bounds::new(d).wall(wall),
    ));
    v.push((
        BarrierCfg {
            name: "burst: 20 requesters at the same instant, timeout 1 s".into(),
            timeout_ms: 1000,
            traffic: Traffic::None,
            slows: vec![],
            zero_machines: false,
            burst: 20,
        },
        Bounds::new(if q { 1 } else { 3 }).wall(wall),
    ));
    v
}

pub fn run(report: &mut Report, tier: &str) {
    report.assume("a shutdown request made at exactly the timeout instant may legitimately lose or win against the timed-out status");
    report.assume("built-in Capture requests Status(9) itself when its message arrives; that request is not visible to the harness log and is accepted as the winner where a Capture is present");
    for (cfg, b) in cfgs(tier) {
        sched::run_into(&BarrierSc(cfg), &b, report);
    }
    // E4: requests at the same instant on several workers - one requester, and others that
    // request only in reaction to its broadcast; the recorded first status is the first one's
    let thorough = tier == "thorough";
    let mut names = vec!["shutdown:1"];
    if thorough {
        names.push("shutdown:2");
    }
    let sc: Vec<vkit::loomrun::LoomScenario> = names
        .into_iter()
        .map(|n| vkit::loomrun::LoomScenario {
            name: n.to_string(),
            preemptions: 3,
            wall: Duration::from_secs(if thorough { 900 } else { 120 }),
        })
        .collect();
    vkit::loomrun::run_into(&sc, report);
    report.set("exhaustive", json!(true));
    report.set("rule", json!("run_internet_with_timeout is itself a task of the explored runtime; every execution within d task-order/select deviations is run under a paused clock; the harness records a global order of initialisation-finished, frame, demux and shutdown-request events"));
}

pub fn replay(w: &serde_json::Value, tier: &str) -> String {
    if let Some(s) = vkit::loomrun::replay(w) {
        return s;
    }
    let name = w["scenario"].as_str().unwrap_or("");
    let ch: Vec<u16> = w["choices"]
        .as_array()
        .map(|a| a.iter().map(|x| x.as_u64().unwrap() as u16).collect())
        .unwrap_or_default();
    for t in ["quick", "thorough", tier] {
        for (c, _) in cfgs(t) {
            if c.name == name {
                return sched::replay(&BarrierSc(c), &ch);
            }
        }
    }
    format!("unknown scenario {name}")
}
