//! C16 - Routers forward along the route and TTL bounds every packet's life.

use elvis::applications::ArpRouter;
use elvis_core::{
    machine::PciSlot,
    message::Message,
    protocol::{DemuxError, StartError},
    protocols::{
        arp::subnetting::{Ipv4Mask, SubnetInfo},
        ipv4::{ipv4_parsing::Ipv4Header, Ipv4, Ipv4Address, Recipient},
        udp::UdpHeader,
        Arp, Endpoint, Endpoints, Pci, Udp,
    },
    run_internet_with_timeout, Control, IpTable, Machine, Network, Protocol, Session, Shutdown,
};
use serde_json::json;
use std::{
    any::TypeId,
    sync::{Arc, Mutex},
    time::Duration,
};
use tokio::sync::Barrier;
use vkit::{
    sched::{self, Bounds, Scenario, KIND_FRAME},
    Report, Violation,
};

const PORT: u16 = 0xbeef;
const TAG: [u8; 6] = *b"DGRAM!";
/// what the destination host sends back to the source when the datagram arrives
const TAG_BACK: [u8; 6] = *b"REPLY!";

#[derive(Clone, Debug, PartialEq)]
pub enum Shape {
    /// routers in a row; network k joins router k and router k+1 (networks 0..=r), a host on each
    Line(usize),
    /// one router, `n` subnets with a host each
    Star(usize),
    /// three routers in a ring (link networks 3,4,5) each with a host subnet (0,1,2)
    Ring,
    /// two routers that both join network 0 and network 1; host 0 uses the first as its
    /// gateway, host 1 the second, so a reply takes the other router
    Parallel,
}

#[derive(Clone, Debug, PartialEq)]
pub enum Routes {
    Correct,
    /// router `r` has no route for the destination subnet
    Missing(usize),
    /// two neighbouring routers point at each other for the destination subnet
    Loop2,
    /// every ring router forwards the destination subnet to the next router of the ring
    RingLoop,
    /// routes are correct but the datagram is addressed to an address of the destination
    /// subnet that no machine owns (the last hop's ARP gets no answer); every host also
    /// listens on the wildcard address
    Unowned,
}

#[derive(Clone, Debug)]
pub struct RouteCfg {
    pub name: String,
    pub shape: Shape,
    pub routes: Routes,
    pub src: usize,
    pub dst: usize,
}

/// The topology in plain data: per network the attached routers, per router its (network, slot).
struct Topo {
    nets: usize,
    /// host h lives on network h (hosts exist on networks 0..hosts)
    hosts: usize,
    /// routers[r] = networks in slot order
    routers: Vec<Vec<usize>>,
}

fn topo(shape: &Shape) -> Topo {
    match shape {
        Shape::Line(r) => Topo {
            nets: r + 1,
            hosts: r + 1,
            routers: (0..*r).map(|i| vec![i, i + 1]).collect(),
        },
        Shape::Star(n) => Topo {
            nets: *n,
            hosts: *n,
            routers: vec![(0..*n).collect()],
        },
        Shape::Ring => Topo {
            nets: 6,
            hosts: 3,
            // router i: host subnet i, link to next (3+i), link from previous (3+(i+2)%3)
            routers: (0..3).map(|i| vec![i, 3 + i, 3 + (i + 2) % 3]).collect(),
        },
        Shape::Parallel => Topo {
            nets: 2,
            hosts: 2,
            routers: vec![vec![0, 1], vec![0, 1]],
        },
    }
}

fn host_ip(h: usize) -> Ipv4Address {
    Ipv4Address::new([10, h as u8, 0, 10])
}
fn ghost_ip(net: usize) -> Ipv4Address {
    Ipv4Address::new([10, net as u8, 0, 99])
}
fn router_ip(r: usize, net: usize) -> Ipv4Address {
    Ipv4Address::new([10, net as u8, 0, 1 + r as u8])
}
fn subnet(net: usize) -> String {
    format!("10.{net}.0.0/24")
}

/// Shortest-path next hop from router `r` towards network `dst_net`: (next router or None if attached, via network).
fn next_hop(t: &Topo, r: usize, dst_net: usize) -> Option<(Option<usize>, usize)> {
    if t.routers[r].contains(&dst_net) {
        return Some((None, dst_net));
    }
    // BFS over routers
    let n = t.routers.len();
    let mut dist = vec![usize::MAX; n];
    let mut first: Vec<Option<(usize, usize)>> = vec![None; n];
    let mut q = std::collections::VecDeque::new();
    dist[r] = 0;
    q.push_back(r);
    while let Some(x) = q.pop_front() {
        for &net in &t.routers[x] {
            for y in 0..n {
                if y != x && t.routers[y].contains(&net) && dist[y] == usize::MAX {
                    dist[y] = dist[x] + 1;
                    first[y] = if x == r { Some((y, net)) } else { first[x] };
                    q.push_back(y);
                }
            }
        }
    }
    let mut best: Option<(usize, (usize, usize))> = None;
    for y in 0..n {
        if t.routers[y].contains(&dst_net) && dist[y] != usize::MAX {
            if best.map(|b| dist[y] < b.0).unwrap_or(true) {
                best = first[y].map(|f| (dist[y], f));
            }
        }
    }
    best.map(|(_, (y, net))| (Some(y), net))
}

#[derive(Default)]
struct Book {
    got: Mutex<Vec<(usize, Vec<u8>, Duration)>>,
    notes: Mutex<Vec<String>>,
}

struct HostApp {
    host: usize,
    cfg: RouteCfg,
    book: Arc<Book>,
}

#[async_trait::async_trait]
impl Protocol for HostApp {
    async fn start(&self, shutdown: Shutdown, initialized: Arc<Barrier>, machine: Arc<Machine>) -> Result<(), StartError> {
        let udp = machine.protocol::<Udp>().unwrap();
        udp.listen(self.id(), Endpoint::new(host_ip(self.host), PORT), machine.clone())
            .map_err(|_| StartError::Other)?;
        let unowned = self.cfg.routes == Routes::Unowned;
        if unowned {
            udp.listen(self.id(), Endpoint::new(Ipv4Address::CURRENT_NETWORK, PORT), machine.clone())
                .map_err(|_| StartError::Other)?;
        }
        initialized.wait().await;
        if self.host == self.cfg.src {
            let target = if unowned { ghost_ip(self.cfg.dst) } else { host_ip(self.cfg.dst) };
            let eps = Endpoints::new(Endpoint::new(host_ip(self.host), 4000), Endpoint::new(target, PORT));
            match udp.open_for_sending(self.id(), eps, machine.clone()).await {
                Ok(s) => {
                    if let Err(e) = s.send(Message::new(TAG.to_vec()), machine.clone()) {
                        self.book.notes.lock().unwrap().push(format!("send failed: {e:?}"));
                    }
                }
                Err(e) => self.book.notes.lock().unwrap().push(format!("open failed: {e:?}")),
            }
        }
        if self.host == 0 {
            tokio::time::sleep(Duration::from_millis(6000)).await;
            shutdown.shut_down();
        }
        Ok(())
    }
    fn demux(&self, m: Message, _c: Arc<dyn Session>, _ctl: Control, mach: Arc<Machine>) -> Result<(), DemuxError> {
        let bytes = m.to_vec();
        self.book.got.lock().unwrap().push((self.host, bytes.clone(), sched::vnow()));
        // the destination answers: the way back may use other routers, whose ARP caches have
        // overheard the way there
        if self.cfg.routes == Routes::Correct && self.host == self.cfg.dst && bytes == TAG {
            let (id, src, me, book) = (self.id(), self.cfg.src, self.host, self.book.clone());
            tokio::spawn(async move {
                let udp = mach.protocol::<Udp>().unwrap();
                let eps = Endpoints::new(Endpoint::new(host_ip(me), 4001), Endpoint::new(host_ip(src), PORT));
                match udp.open_for_sending(id, eps, mach.clone()).await {
                    Ok(s) => {
                        if let Err(e) = s.send(Message::new(TAG_BACK.to_vec()), mach.clone()) {
                            book.notes.lock().unwrap().push(format!("reply send failed: {e:?}"));
                        }
                    }
                    Err(e) => book.notes.lock().unwrap().push(format!("reply open failed: {e:?}")),
                }
            });
        }
        Ok(())
    }
}

pub struct RouteSc(pub RouteCfg);

#[derive(Debug, Hash)]
pub struct RouteObs {
    delivered: Vec<(usize, Vec<u8>)>,
    /// (network, ttl) of every frame carrying the datagram, in wire order
    hops: Vec<(usize, u8)>,
}

impl Scenario for RouteSc {
    type Obs = RouteObs;
    fn name(&self) -> String {
        self.0.name.clone()
    }
    fn poll_cap(&self) -> u64 {
        100_000
    }
    fn run(&self) -> (RouteObs, Vec<Violation>) {
        let cfg = self.0.clone();
        let t = topo(&cfg.shape);
        sched::install_rand(vec![], vec![]);
        let nets: Vec<Arc<Network>> = (0..t.nets).map(|_| Network::basic()).collect();
        let refs: Vec<&Arc<Network>> = nets.iter().collect();
        sched::register_networks(&refs);
        sched::install_wire_hooks(|_| {
            if sched::choose(KIND_FRAME, 2) == 1 {
                elvis_core::verif::Verdict::Delay(Duration::from_millis(2))
            } else {
                elvis_core::verif::Verdict::Deliver
            }
        });
        let book = Arc::new(Book::default());
        let mut machines = vec![];
        // which router is the gateway of host h: the first router attached to network h
        let parallel = cfg.shape == Shape::Parallel;
        let gateway_of = |h: usize| {
            if parallel {
                h % t.routers.len()
            } else {
                (0..t.routers.len()).find(|r| t.routers[*r].contains(&h)).unwrap()
            }
        };
        for h in 0..t.hosts {
            let g = gateway_of(h);
            let table: IpTable<Recipient> = [(host_ip(h), Recipient::new(0, None))].into_iter().collect();
            machines.push(
                Machine::new()
                    .with(Udp::new())
                    .with(Ipv4::new(table))
                    .with(Pci::new([nets[h].clone()]))
                    .with(Arp::new().preconfig_subnet(
                        host_ip(h),
                        SubnetInfo {
                            mask: Ipv4Mask::from_bitcount(32),
                            default_gateway: router_ip(g, h),
                        },
                    ))
                    .with(HostApp {
                        host: h,
                        cfg: cfg.clone(),
                        book: book.clone(),
                    })
                    .arc(),
            );
        }
        let dst_net = cfg.dst;
        for (r, rnets) in t.routers.iter().enumerate() {
            let mut table: IpTable<(Option<Ipv4Address>, PciSlot)> = IpTable::new();
            for net in 0..t.hosts {
                let slot_of = |n: usize| rnets.iter().position(|x| *x == n).unwrap() as PciSlot;
                let mut entry: Option<(Option<Ipv4Address>, PciSlot)> = next_hop(&t, r, net).map(|(nx, via)| {
                    (nx.map(|y| router_ip(y, via)), slot_of(via))
                });
                if net == dst_net {
                    match cfg.routes {
                        Routes::Correct | Routes::Unowned => {}
                        Routes::Missing(mr) => {
                            if mr == r {
                                entry = None;
                            }
                        }
                        Routes::Loop2 => {
                            // routers 0 and 1 point at each other over the network they share
                            if r <= 1 && t.routers.len() >= 2 {
                                let other = 1 - r;
                                let shared = rnets.iter().find(|n| t.routers[other].contains(n)).copied().unwrap();
                                entry = Some((Some(router_ip(other, shared)), slot_of(shared)));
                            }
                        }
                        Routes::RingLoop => {
                            let next = (r + 1) % 3;
                            let link = 3 + r;
                            entry = Some((Some(router_ip(next, link)), slot_of(link)));
                        }
                    }
                }
                if let Some(e) = entry {
                    table.add_cidr(&subnet(net), e);
                }
            }
            let local_ips: Vec<Ipv4Address> = rnets.iter().map(|n| router_ip(r, *n)).collect();
            let mut own: IpTable<Recipient> = IpTable::new();
            for a in &local_ips {
                own.add_direct(*a, Recipient::new(0, None));
            }
            machines.push(
                Machine::new()
                    .with(Pci::new(rnets.iter().map(|n| nets[*n].clone())))
                    .with(Ipv4::new(own))
                    .with(Arp::new())
                    .with(ArpRouter::new(table, local_ips))
                    .arc(),
            );
        }
        sched::register_machines(&machines);
        let status = sched::block_on_paused_send(async move {
            sched::start_clock();
            run_internet_with_timeout(&machines, Duration::from_millis(8000)).await
        });
        let wire = sched::take_wire();
        let got = book.got.lock().unwrap().clone();
        let mut viols = vec![];
        if !matches!(status, Ok(elvis_core::ExitStatus::Exited)) {
            viols.push(Violation::new("run-alive", "run", "run-did-not-end-normally", format!("{status:?}")));
        }
        let ip_type = TypeId::of::<Ipv4>();
        // frames that carry the datagram
        let mut hops: Vec<(usize, u8, Duration)> = vec![];
        for f in wire.iter().filter(|f| f.protocol == ip_type) {
            let Ok(ih) = Ipv4Header::from_bytes(f.bytes.iter().cloned()) else { continue };
            if ih.protocol != 17 || f.bytes.len() < 28 {
                continue;
            }
            let body = &f.bytes[20..];
            if UdpHeader::from_bytes_ipv4(body.iter().cloned(), body.len(), ih.source, ih.destination).is_err() {
                continue;
            }
            if body[8..] == TAG {
                hops.push((f.network, ih.time_to_live, f.t));
            }
        }
        let initial_ttl = hops.first().map(|h| h.1).unwrap_or(0);
        // silence: nothing at all on any wire in the last 2.5 s before the horizon
        if let Some(f) = wire.iter().find(|f| f.t > Duration::from_millis(3500)) {
            viols.push(Violation::new(
                "falls-silent",
                "ArpRouter::demux",
                "frames-in-the-last-2.5-s",
                format!("a frame on network {} at {:?}", f.network, f.t),
            ));
        }
        if hops.len() > initial_ttl as usize && !hops.is_empty() {
            viols.push(Violation::new(
                "ttl-bounds-life",
                "ArpRouter::demux",
                "more-hops-than-initial-ttl",
                format!("{} frames carried the datagram, initial TTL {}", hops.len(), initial_ttl),
            ));
        }
        // each hop decrements by exactly one
        for w in hops.windows(2) {
            if w[1].1 as i32 != w[0].1 as i32 - 1 {
                viols.push(Violation::new(
                    "ttl-decrement",
                    "ArpRouter::demux",
                    if w[1].1 == w[0].1 { "ttl-not-decremented" } else { "ttl-changed-by-other-than-one" },
                    format!("successive frames of the datagram have TTL {} then {} (networks {} -> {})", w[0].1, w[1].1, w[0].0, w[1].0),
                ));
                break;
            }
        }
        let want_payload = TAG.to_vec();
        match cfg.routes {
            Routes::Correct => {
                // expected path of networks
                let mut path = vec![cfg.src];
                let mut r = gateway_of(cfg.src);
                let mut guard = 0;
                loop {
                    guard += 1;
                    if guard > 10 {
                        break;
                    }
                    match next_hop(&t, r, cfg.dst) {
                        Some((None, via)) => {
                            path.push(via);
                            break;
                        }
                        Some((Some(y), via)) => {
                            path.push(via);
                            r = y;
                        }
                        None => break,
                    }
                }
                let seen: Vec<usize> = hops.iter().map(|h| h.0).collect();
                if seen != path {
                    let kind = if seen.len() > path.len() && seen.iter().filter(|n| **n == seen[0]).count() > path.iter().filter(|n| **n == seen[0]).count() {
                        "packet-multiplied"
                    } else if seen.len() < path.len() {
                        "packet-lost-on-a-correct-route"
                    } else {
                        "forwarded-off-the-configured-path"
                    };
                    viols.push(Violation::new(
                        "forward-along-route",
                        "ArpRouter::demux",
                        kind,
                        format!("datagram seen on networks {seen:?}, the configured path is {path:?}"),
                    ));
                }
                let at_dst: Vec<_> = got.iter().filter(|g| g.0 == cfg.dst && g.1 != TAG_BACK).collect();
                if at_dst.len() != 1 || at_dst[0].1 != want_payload {
                    viols.push(Violation::new(
                        "delivered-to-destination",
                        "ArpRouter::demux",
                        if at_dst.is_empty() { "not-delivered" } else if at_dst.len() > 1 { "delivered-more-than-once" } else { "payload-changed" },
                        format!("destination host {} received {:?}", cfg.dst, at_dst.iter().map(|g| g.1.clone()).collect::<Vec<_>>()),
                    ));
                }
            }
            _ => {
                if got.iter().any(|g| g.0 == cfg.dst) && cfg.routes != Routes::Correct {
                    // a broken route may still deliver if the breakage is not on the path; fine
                }
            }
        }
        if cfg.routes == Routes::Unowned {
            if let Some(g) = got.first() {
                viols.push(Violation::new(
                    "delivered-to-destination",
                    "ArpRouter::demux",
                    "datagram-for-an-unowned-address-delivered",
                    format!("host {} received the datagram addressed to {}, which no machine owns ({} deliveries in all)", g.0, ghost_ip(cfg.dst), got.len()),
                ));
            }
        } else if let Some(g) = got.iter().find(|g| g.0 != cfg.dst && g.1 != TAG_BACK) {
            viols.push(Violation::new(
                "delivered-to-destination",
                "ArpRouter::demux",
                "delivered-to-another-host",
                format!("host {} received the datagram addressed to host {}", g.0, cfg.dst),
            ));
        }
        // --- the reply (correct routes only): same clauses in the other direction ---------------
        if cfg.routes == Routes::Correct {
            let mut back: Vec<(usize, u8)> = vec![];
            for f in wire.iter().filter(|f| f.protocol == ip_type) {
                let Ok(ih) = Ipv4Header::from_bytes(f.bytes.iter().cloned()) else { continue };
                if ih.protocol != 17 || f.bytes.len() < 28 {
                    continue;
                }
                if f.bytes[28..] == TAG_BACK {
                    back.push((f.network, ih.time_to_live));
                }
            }
            let mut path = vec![cfg.dst];
            let mut r = gateway_of(cfg.dst);
            for _ in 0..10 {
                match next_hop(&t, r, cfg.src) {
                    Some((None, via)) => {
                        path.push(via);
                        break;
                    }
                    Some((Some(y), via)) => {
                        path.push(via);
                        r = y;
                    }
                    None => break,
                }
            }
            let seen: Vec<usize> = back.iter().map(|h| h.0).collect();
            if seen != path {
                viols.push(Violation::new(
                    "forward-along-route",
                    "ArpRouter::demux",
                    if seen.len() > path.len() { "reply-took-extra-hops" } else if seen.len() < path.len() { "reply-lost-on-a-correct-route" } else { "reply-forwarded-off-the-configured-path" },
                    format!("reply seen on networks {seen:?} (TTLs {:?}), the configured path back is {path:?}", back.iter().map(|h| h.1).collect::<Vec<_>>()),
                ));
            }
            for w in back.windows(2) {
                if w[1].1 as i32 != w[0].1 as i32 - 1 {
                    viols.push(Violation::new(
                        "ttl-decrement",
                        "ArpRouter::demux",
                        "reply-ttl-changed-by-other-than-one",
                        format!("successive frames of the reply have TTL {} then {}", w[0].1, w[1].1),
                    ));
                    break;
                }
            }
            let at_src: Vec<_> = got.iter().filter(|g| g.1 == TAG_BACK).collect();
            if at_src.len() != 1 || at_src[0].0 != cfg.src {
                viols.push(Violation::new(
                    "delivered-to-destination",
                    "ArpRouter::demux",
                    if at_src.is_empty() { "reply-not-delivered" } else if at_src.iter().any(|g| g.0 != cfg.src) { "reply-delivered-to-another-host" } else { "reply-delivered-more-than-once" },
                    format!("the reply for host {} was received by hosts {:?}", cfg.src, at_src.iter().map(|g| g.0).collect::<Vec<_>>()),
                ));
            }
        }
        let mut delivered: Vec<(usize, Vec<u8>)> = got.iter().map(|g| (g.0, g.1.clone())).collect();
        delivered.sort();
        (
            RouteObs {
                delivered,
                hops: hops.iter().map(|h| (h.0, h.1)).collect(),
            },
            viols,
        )
    }
}

pub fn cfgs(tier: &str) -> Vec<(RouteCfg, Bounds)> {
    let q = tier == "quick";
    let wall = Duration::from_secs(if q { 150 } else { 900 });
    let mut v = vec![];
    let mut add = |shape: Shape, routes: Routes, src: usize, dst: usize, d: usize| {
        v.push((
            RouteCfg {
                name: format!("{shape:?} {routes:?} host {src} -> host {dst}"),
                shape,
                routes,
                src,
                dst,
            },
            Bounds::new(d).cap(KIND_FRAME, 2).wall(wall),
        ));
    };
    let d = if q { 1 } else { 2 };
    // every ordered host pair on the small shapes
    for (shape, hosts) in [(Shape::Line(1), 2), (Shape::Line(2), 3), (Shape::Star(3), 3)] {
        for s in 0..hosts {
            for t in 0..hosts {
                if s != t {
                    add(shape.clone(), Routes::Correct, s, t, d);
                }
            }
        }
    }
    add(Shape::Line(2), Routes::Missing(1), 0, 2, d);
    add(Shape::Line(2), Routes::Missing(0), 0, 2, d);
    add(Shape::Line(2), Routes::Loop2, 0, 2, 1);
    add(Shape::Ring, Routes::Correct, 0, 2, 1);
    add(Shape::Ring, Routes::RingLoop, 0, 2, 1);
    add(Shape::Parallel, Routes::Correct, 0, 1, d);
    add(Shape::Parallel, Routes::Correct, 1, 0, d);
    add(Shape::Line(1), Routes::Unowned, 0, 1, 1);
    add(Shape::Line(2), Routes::Unowned, 0, 2, 1);
    if !q {
        add(Shape::Star(3), Routes::Unowned, 1, 2, 1);
        add(Shape::Ring, Routes::Unowned, 0, 2, 1);
        for s in 0..4 {
            for t in 0..4 {
                if s != t {
                    add(Shape::Line(3), Routes::Correct, s, t, 1);
                }
            }
        }
        for s in 0..4 {
            add(Shape::Star(4), Routes::Correct, s, (s + 1) % 4, 2);
        }
        for s in 0..3 {
            for t in 0..3 {
                if s != t {
                    add(Shape::Ring, Routes::Correct, s, t, 1);
                }
            }
        }
        add(Shape::Line(3), Routes::Loop2, 0, 3, 1);
        add(Shape::Line(3), Routes::Missing(2), 0, 3, 2);
        add(Shape::Ring, Routes::RingLoop, 1, 0, 1);
        add(Shape::Ring, Routes::Loop2, 0, 2, 1);
    }
    v
}

pub fn run(report: &mut Report, tier: &str) {
    report.assume("hosts use a /32 mask with the first router of their subnet as default gateway, as in the repository's arp_router_sim");
    for (cfg, b) in cfgs(tier) {
        sched::run_into(&RouteSc(cfg), &b, report);
    }
    report.set("exhaustive", json!(true));
    report.set("rule", json!("generated line/star/ring topologies with correct, missing and looping static routes, every listed host pair, one UDP datagram per execution; every execution within d deviations (task order, frames held back 2 ms); IPv4 frames are parsed off the wire"));
}

pub fn replay(w: &serde_json::Value, tier: &str) -> String {
    let name = w["scenario"].as_str().unwrap_or("");
    let ch: Vec<u16> = w["choices"]
        .as_array()
        .map(|a| a.iter().map(|x| x.as_u64().unwrap() as u16).collect())
        .unwrap_or_default();
    for t in ["quick", "thorough", tier] {
        for (c, _) in cfgs(t) {
            if c.name == name {
                return sched::replay(&RouteSc(c), &ch);
            }
        }
    }
    format!("unknown scenario {name}")
}
