#!/bin/bash
# Applies a seeded patch to /repo, runs the named checks, reverts. usage: try_seed.sh <name> <ID> [tier] [more IDs...]
set -u
NAME=$1; shift
TIER=quick
P=/verif/seeded/$NAME/patch.diff
cd /repo || exit 2
if [ -n "$(git status --porcelain -- sim)" ]; then echo "/repo has local changes, refusing"; exit 2; fi
git apply $P || { echo "patch does not apply"; exit 2; }
for ID in "$@"; do
  if [ "$ID" = quick ] || [ "$ID" = thorough ]; then TIER=$ID; continue; fi
  echo "--- $ID ($TIER) on seeded/$NAME"
  (cd /verif && timeout 3000 ./check $ID --tier $TIER 2>&1 | grep -E "^(VIOLATION|OK|MACHINERY|KNOWN)" | cut -c1-400 | head -8; echo "exit ${PIPESTATUS[0]}")
done
git -C /repo checkout -- .
