//! C03 - TCP connections open, synchronise and close as RFC 9293 prescribes.

use crate::tcpmodel::*;
use elvis_core::protocols::tcp::verif::{
    mod_leq, AdvanceTimeResult, CloseResult, State, VerifSnapshot,
};
use serde_json::json;
use std::time::Duration;
use vkit::{
    key128,
    search::{self, Limits, Model},
    Report, Violation,
};

fn idx(s: State) -> usize {
    match s {
        State::SynSent => 0,
        State::SynReceived => 1,
        State::Established => 2,
        State::FinWait1 => 3,
        State::FinWait2 => 4,
        State::CloseWait => 5,
        State::Closing => 6,
        State::LastAck => 7,
        State::TimeWait => 8,
    }
}

/// Reflexive-transitive closure of the RFC 9293 figure-5 edges that a segment arrival can take.
fn arrival_reach() -> [[bool; 9]; 9] {
    use State::*;
    let edges = [
        (SynSent, SynReceived),
        (SynSent, Established),
        (SynReceived, Established),
        (Established, CloseWait),
        (FinWait1, FinWait2),
        (FinWait1, Closing),
        (FinWait1, TimeWait),
        (FinWait2, TimeWait),
        (Closing, TimeWait),
    ];
    let mut r = [[false; 9]; 9];
    for i in 0..9 {
        r[i][i] = true;
    }
    for (a, b) in edges {
        r[idx(a)][idx(b)] = true;
    }
    for k in 0..9 {
        for i in 0..9 {
            for j in 0..9 {
                if r[i][k] && r[k][j] {
                    r[i][j] = true;
                }
            }
        }
    }
    r
}

fn synchronised(s: State) -> bool {
    !matches!(s, State::SynSent | State::SynReceived)
}

fn fin_consumed(s: State) -> bool {
    matches!(
        s,
        State::CloseWait | State::Closing | State::LastAck | State::TimeWait
    )
}

/// (a) every call only moves along figure-5 transitions of its kind.
pub fn transition_violation(info: &CallInfo, rst_possible: bool) -> Option<Violation> {
    let name = |s: Option<State>| match s {
        Some(s) => format!("{s:?}"),
        None => "none".into(),
    };
    let bad = |why: &str| {
        Some(Violation::new(
            "figure5-transition",
            info.entry,
            &format!("{}->{}", name(info.before), name(info.after)),
            format!("{why}: {} moved {} -> {}", info.entry, name(info.before), name(info.after)),
        ))
    };
    match (info.before, info.after) {
        (Some(b), Some(a)) => {
            let ok = match info.entry {
                "segment_arrives" => arrival_reach()[idx(b)][idx(a)],
                "close" => {
                    b == a
                        || matches!(
                            (b, a),
                            (State::SynReceived, State::FinWait1)
                                | (State::Established, State::FinWait1)
                                | (State::CloseWait, State::LastAck)
                        )
                }
                _ => b == a,
            };
            if ok {
                None
            } else {
                bad("illegal transition")
            }
        }
        (Some(b), None) => {
            // the TCB was released
            let ok = match info.entry {
                // final ACK in LAST-ACK, or a reset (legal wherever an RST can have arrived)
                "segment_arrives" => b == State::LastAck || rst_possible,
                "advance_time" => b == State::TimeWait,
                "close" => b == State::SynSent,
                _ => false,
            };
            if ok {
                None
            } else {
                bad("illegal release")
            }
        }
        _ => None,
    }
}

fn leq(a: u32, b: u32) -> bool {
    a == b || mod_leq(a, b)
}

/// (b) sequence-space agreement whenever both sides are synchronised.
pub fn sync_violation(sys: &Sys) -> Option<Violation> {
    let (Some(x), Some(y)) = (sys.side[A].snap(), sys.side[B].snap()) else {
        return None;
    };
    if !synchronised(x.state) || !synchronised(y.state) {
        return None;
    }
    let one = |n: &str, x: &VerifSnapshot, y: &VerifSnapshot| -> Option<Violation> {
        let mk = |d: &str, detail: String| {
            Some(Violation::new("sync-sequence-space", "snapshot", d, detail))
        };
        if x.irs != y.iss {
            return mk(
                "irs-differs-from-peer-iss",
                format!("{n}: irs {} but peer iss {}", x.irs, y.iss),
            );
        }
        if !(leq(y.iss.wrapping_add(1), x.rcv_nxt) && leq(x.rcv_nxt, y.snd_nxt)) {
            return mk(
                "rcv-nxt-outside-peer-sent-range",
                format!(
                    "{n}: rcv.nxt {} not in [{}+1, peer snd.nxt {}]",
                    x.rcv_nxt, y.iss, y.snd_nxt
                ),
            );
        }
        // (SND.UNA staying inside [ISS, SND.NXT] is not part of the property's statement and is
        // not judged: LAST-ACK takes SND.UNA from any acceptable segment, see DESIGN.md section 14)
        None
    };
    one("A", &x, &y).or_else(|| one("B", &y, &x))
}

pub struct M {
    pub cfg: Cfg,
    pub name: String,
    pub max_rto: usize,
}

impl Model for M {
    type State = Sys;
    type Action = Act;
    fn name(&self) -> String {
        self.name.clone()
    }
    fn init(&self) -> Vec<Sys> {
        vec![Sys::new(&self.cfg)]
    }
    fn actions(&self, s: &Sys) -> Vec<Act> {
        s.actions(&self.cfg)
    }
    fn step(&self, s: &Sys, a: &Act) -> Result<Sys, Violation> {
        let mut n = s.clone();
        let infos = guarded(|| n.apply(&self.cfg, a))?;
        for info in &infos {
            let rst_possible = s.side[info.side].rst_incoming || n.side[info.side].rst_incoming;
            if let Some(v) = transition_violation(info, rst_possible) {
                return Err(v);
            }
        }
        if let Some(v) = n.prefix_violation() {
            return Err(v);
        }
        if let Some(v) = sync_violation(&n) {
            return Err(v);
        }
        // (c) the first time a side shows that the peer's FIN was consumed, everything the peer
        // wrote before closing must be read or readable on that side
        for s_ in [A, B] {
            if n.side[s_].fin_seen {
                continue;
            }
            if let Some(sn) = n.side[s_].snap() {
                if fin_consumed(sn.state) {
                    n.side[s_].fin_seen = true;
                    let peer = &n.side[1 - s_];
                    // only meaningful when the FIN came from the live peer's close
                    if let Some(wc) = peer.written_at_close {
                        let have = n.side[s_].read.len() + sn.incoming_text;
                        if have != wc {
                            return Err(Violation::new(
                                "data-before-fin",
                                "Tcb::segment_arrives",
                                if have < wc && peer.unseg_at_close > 0 {
                                    "fin-sent-ahead-of-unsegmentized-text"
                                } else if have < wc {
                                    "fin-consumed-before-data"
                                } else {
                                    "more-data-than-written"
                                },
                                format!(
                                    "side {} entered {:?} with {} bytes read/readable, peer wrote {} before close",
                                    if s_ == A { "A" } else { "B" },
                                    sn.state,
                                    have,
                                    wc
                                ),
                            ));
                        }
                    }
                }
            }
        }
        Ok(n)
    }
    fn key(&self, s: &Sys) -> u128 {
        key128(&s.canon())
    }
    fn check(&self, s: &Sys) -> Vec<Violation> {
        release_check(&self.cfg, s, self.max_rto)
    }
    fn describe(&self, s: &Sys) -> String {
        s.describe()
    }
}

/// Fair delivery until nothing moves, with up to `max_rto` retransmission rounds; tolerant of
/// released TCBs. Returns Err on a call whose transition is illegal.
fn run_fair(sys: &mut Sys, cfg: &Cfg, max_rto: usize, done: impl Fn(&Sys) -> bool) -> Result<(), Violation> {
    let mut rto = 0;
    let mut guard = 0;
    loop {
        let mut moved = false;
        for s in [A, B] {
            if !sys.flush(s).is_empty() {
                moved = true;
            }
        }
        for d in [A, B] {
            while !sys.net[d].is_empty() {
                let ns = sys.net[d].remove(0);
                let rst = ns.seg.header.ctl.rst() || sys.side[d].rst_incoming;
                let info = sys.deliver_to(cfg, d, ns.seg);
                if let Some(v) = transition_violation(&info, rst) {
                    return Err(v);
                }
                sys.flush(d);
                sys.read(d);
                moved = true;
                guard += 1;
                if guard > 5000 {
                    return Err(Violation::new(
                        "eventual-release",
                        "fair-continuation",
                        "no-quiescence",
                        "segments keep being exchanged",
                    ));
                }
            }
        }
        for s in [A, B] {
            if sys.read(s) > 0 {
                moved = true;
            }
        }
        if moved {
            continue;
        }
        if done(sys) || rto >= max_rto {
            return Ok(());
        }
        rto += 1;
        for s in [A, B] {
            if let Some(t) = sys.side[s].tcb.as_mut() {
                entering("Tcb::advance_time");
                let before = t.status();
                if t.advance_time(Duration::from_millis(101)) == AdvanceTimeResult::CloseConnection {
                    sys.side[s].tcb = None;
                    sys.side[s].life = Life::Released("advance_time");
                    if before != State::TimeWait {
                        return Err(Violation::new(
                            "figure5-transition",
                            "advance_time",
                            &format!("{before:?}->none"),
                            "RTO expiry released a TCB outside TIME-WAIT",
                        ));
                    }
                }
            }
        }
    }
}

/// (d) both applications close; with a fair network both TCBs are released by the final ACK or
/// the 2*MSL wait, nobody resets, all data written before the closes is read by the peer, and
/// at quiescence each side's RCV.NXT equals the peer's SND.NXT.
pub fn release_check(cfg: &Cfg, s: &Sys, max_rto: usize) -> Vec<Violation> {
    // A reset that is already under way (old duplicate SYN recovery) legitimately ends in RSTs.
    let rst_before = s.side[A].rst_emitted
        || s.side[B].rst_emitted
        || s.side[A].rst_incoming
        || s.side[B].rst_incoming
        || s.net[A].iter().chain(s.net[B].iter()).any(|n| n.seg.header.ctl.rst());
    if rst_before || s.old_syn_done {
        return vec![];
    }
    let mut c = s.clone();
    let r = guarded(|| -> Result<(), Violation> {
        let both_synced = |x: &Sys| {
            [A, B].iter().all(|&i| {
                x.side[i]
                    .status()
                    .map(|st| synchronised(st))
                    .unwrap_or(!matches!(x.side[i].life, Life::Listen))
            })
        };
        // 1. let the handshake and all data in flight finish
        run_fair(&mut c, cfg, max_rto, |x| both_synced(x) && x.settled_or_released())?;
        // quiescent sequence agreement
        if let (Some(x), Some(y)) = (c.side[A].snap(), c.side[B].snap()) {
            if synchronised(x.state) && synchronised(y.state) {
                if x.rcv_nxt != y.snd_nxt || y.rcv_nxt != x.snd_nxt {
                    return Err(Violation::new(
                        "sync-sequence-space",
                        "fair-continuation",
                        "rcv-nxt-differs-from-peer-snd-nxt-at-quiescence",
                        c.describe(),
                    ));
                }
            }
        }
        // 2. both applications close
        for i in [A, B] {
            if c.side[i].close_ok {
                continue;
            }
            if let Some(t) = c.side[i].tcb.as_mut() {
                entering("Tcb::close");
                let before = t.status();
                let r = t.close();
                let after = t.status();
                if r == CloseResult::Ok {
                    c.side[i].close_ok = true;
                    c.side[i].close_called = true;
                    c.side[i].written_at_close = Some(c.side[i].written.len());
                    c.side[i].unseg_at_close =
                        c.side[i].snap().map(|x| x.unsegmentized).unwrap_or(0);
                }
                let info = CallInfo {
                    side: i,
                    entry: "close",
                    before: Some(before),
                    after: Some(after),
                    ..Default::default()
                };
                if let Some(v) = transition_violation(&info, false) {
                    return Err(v);
                }
            }
        }
        // 3. let the closing handshake finish, then let 2*MSL pass
        run_fair(&mut c, cfg, max_rto, |x| {
            [A, B].iter().all(|&i| {
                matches!(x.side[i].status(), None | Some(State::TimeWait))
            })
        })?;
        for i in [A, B] {
            if let Some(t) = c.side[i].tcb.as_mut() {
                if t.status() == State::TimeWait {
                    entering("Tcb::advance_time");
                    if t.advance_time(Duration::from_millis(2001))
                        == AdvanceTimeResult::CloseConnection
                    {
                        c.side[i].tcb = None;
                        c.side[i].life = Life::Released("advance_time");
                    }
                }
            }
        }
        for i in [A, B] {
            if let Some(sn) = c.side[i].snap() {
                return Err(Violation::new(
                    "eventual-release",
                    "fair-continuation",
                    &format!("lingers-in-{:?}", sn.state),
                    format!(
                        "side {} still has a TCB after both closes, {max_rto} RTO rounds and 2*MSL: {}",
                        if i == A { "A" } else { "B" },
                        c.describe()
                    ),
                ));
            }
        }
        if c.side[A].rst_emitted || c.side[B].rst_emitted {
            return Err(Violation::new(
                "eventual-release",
                "fair-continuation",
                "reset-during-orderly-close",
                c.describe(),
            ));
        }
        for i in [A, B] {
            let w = c.owed(i);
            let r = &c.side[i].read;
            if r != w {
                return Err(Violation::new(
                    "data-before-fin",
                    "fair-continuation",
                    if r.len() < w.len() && c.side[1 - i].unseg_at_close > 0 {
                        "fin-sent-ahead-of-unsegmentized-text"
                    } else if r.len() < w.len() {
                        "data-written-before-close-never-delivered"
                    } else {
                        "stream-corrupt"
                    },
                    format!(
                        "side {} read {} of the {} bytes its peer wrote before closing; {}",
                        if i == A { "A" } else { "B" },
                        r.len(),
                        w.len(),
                        c.describe()
                    ),
                ));
            }
        }
        Ok(())
    });
    match r {
        Ok(Ok(())) => vec![],
        Ok(Err(v)) => vec![v],
        Err(v) => vec![v],
    }
}

pub fn cfgs(tier: &str) -> Vec<(String, Cfg, Limits)> {
    let mut v = vec![];
    let wall = |s| Limits {
        max_wall: Duration::from_secs(s),
        ..Default::default()
    };
    let mut c = Cfg::basic(100, 100, 300);
    c.writes = [vec![2], vec![1]];
    c.drops = 1;
    c.dups = 0;
    c.ticks = [1, 1];
    c.closes = [true, true];
    c.time_wait_expiry = true;
    let big = c.clone();
    let mut c0 = c.clone();
    c0.writes = [vec![2], vec![1]];
    c0.ticks = [1, 0];
    v.push(("close both, w[2|1] drop1 tick(1,0)".to_string(), c0, wall(100)));
    let mut c1 = c.clone();
    c1.drops = 0;
    c1.dups = 1;
    c1.ticks = [0, 0];
    v.push(("close both, w[2|1] dup1".to_string(), c1, wall(100)));
    let mut c2 = Cfg::basic(100, 100, 300);
    c2.open_b = true;
    c2.closes = [true, true];
    c2.writes = [vec![1], vec![]];
    c2.time_wait_expiry = true;
    v.push(("simultaneous open, close both, w[1|]".to_string(), c2, wall(100)));
    let mut c3 = Cfg::basic(100, 100, 300);
    c3.old_syn = Some(90);
    c3.closes = [true, false];
    c3.writes = [vec![1], vec![]];
    c3.ticks = [1, 1];
    v.push(("old duplicate SYN(iss 90), close A, w[1|] tick1".to_string(), c3, wall(100)));
    let mut c4 = Cfg::basic(100, 100, 300);
    c4.writes = [vec![2], vec![1]];
    c4.closes = [true, true];
    c4.auto_flush = false;
    c4.ticks = [1, 0];
    v.push(("close both, w[2|1] tick(1,0), separate Flush".to_string(), c4, wall(100)));
    if tier == "thorough" {
        v.push(("close both, w[2|1] drop1 tick1".to_string(), big.clone(), wall(1800)));
        let mut sb = Cfg::basic(100, 100, 300);
        sb.open_b = true;
        sb.closes = [true, true];
        sb.writes = [vec![1], vec![]];
        sb.ticks = [1, 0];
        sb.time_wait_expiry = true;
        v.push(("simultaneous open, close both, w[1|] tick(1,0)".to_string(), sb, wall(900)));
        let mut t = big.clone();
        t.drops = 1;
        t.dups = 1;
        t.ticks = [1, 0];
        t.iss = [u32::MAX - 1, u32::MAX - 2];
        v.push(("close both, w[2|1] drop1 dup1 tick(1,0), iss at wrap".to_string(), t, wall(1800)));
        let mut t2 = Cfg::basic(100, 100, 300);
        t2.open_b = true;
        t2.closes = [true, true];
        t2.writes = [vec![1], vec![]];
        t2.drops = 0;
        t2.dups = 1;
        t2.ticks = [0, 0];
        t2.time_wait_expiry = true;
        v.push(("simultaneous open, close both, w[1|] dup1".to_string(), t2, wall(1800)));
        let mut t3 = Cfg::basic(100, 100, 300);
        t3.old_syn = Some(90);
        t3.closes = [true, true];
        t3.writes = [vec![1], vec![1]];
        t3.drops = 0;
        t3.dups = 1;
        t3.ticks = [1, 0];
        v.push(("old duplicate SYN, close both, w[1|1] dup1 tick(1,0)".to_string(), t3, wall(1800)));
        let mut t4 = Cfg::basic(1500, 100, 300);
        t4.writes = [vec![70_000], vec![]];
        t4.closes = [true, true];
        t4.reorder = false;
        v.push(("close both after a 70000-byte write (above the window), FIFO network".to_string(), t4, wall(900)));
    }
    v
}

pub fn run(report: &mut Report, tier: &str) {
    report.assume("a close() that returns an error (e.g. in SYN-SENT) is a refused request: the application may go on and close later");
    report.assume("the no-reset clause is judged only from states in which no RST has been emitted or is in flight and no old duplicate SYN was injected");
    let mut fix = true;
    for (name, cfg, lim) in cfgs(tier) {
        let m = M {
            cfg,
            name,
            max_rto: 8,
        };
        let st = search::run_into(&m, &lim, report);
        fix &= st.fixpoint;
    }
    report.set("exhaustive", json!(fix));
    report.set("rule", json!("breadth-first search to a fixpoint over two real Tcbs with close, simultaneous open and old-duplicate-SYN actions; per transition the RFC 9293 figure-5 relation, per state the sequence-space agreement, per distinct state a fair continuation in which both applications close"));
}

pub fn replay(w: &serde_json::Value, tier: &str) -> String {
    let name = w["model"].as_str().unwrap_or("");
    for t in ["quick", "thorough", tier] {
        for (n, cfg, _) in cfgs(t) {
            if n == name {
                let m = M {
                    cfg,
                    name: n,
                    max_rto: 8,
                };
                let path: Vec<u32> = w["path"]
                    .as_array()
                    .unwrap()
                    .iter()
                    .map(|x| x.as_u64().unwrap() as u32)
                    .collect();
                return search::replay(&m, &path).0.join("\n");
            }
        }
    }
    format!("unknown model {name}")
}
