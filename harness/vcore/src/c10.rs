//! C10 - IPv4 fragmentation produces a faithful partition of the datagram.
//!
//! Engine E3 only: full Cartesian products over (payload length, MTU or MTU chain, DF, incoming
//! MF, incoming fragment offset, header template). Every case calls the real
//! `elvis_core::protocols::ipv4::fragmentation::fragment` (once per piece per chain stage) and
//! compares the result with a small reference that knows nothing about how the split was made:
//! it only walks the returned pieces and demands what the property statement demands, always
//! relative to the ORIGINAL datagram.

use elvis_core::{
    protocols::ipv4::{
        fragmentation::{fragment, Fragments},
        ipv4_parsing::{ControlFlags, Ipv4Header},
        Ipv4Address,
    },
    Message,
};
use serde_json::{json, Value};
use std::sync::OnceLock;
use vkit::{
    enumerate::{self, CaseOutcome, Product},
    Report, Violation,
};

/// Octets of an option-less IPv4 header (the only kind Elvis parses or builds).
const HDR: usize = 20;
/// Largest payload an option-less datagram can carry.
const MAX_PAYLOAD: usize = 65535 - HDR;
/// The real entry point every case goes through.
const ENTRY: &str = "fragmentation::fragment";

// ---------------------------------------------------------------------------------------------
// Inputs

/// Position-unique payload: the aligned byte pair at 2j, 2j+1 spells j (high byte masked), so no
/// two different 8-aligned windows of two or more bytes look alike.
fn pay_byte(i: usize) -> u8 {
    let j = i / 2;
    if i % 2 == 0 {
        j as u8
    } else {
        ((j >> 8) as u8) ^ 0xA5
    }
}

fn payload() -> &'static [u8] {
    static P: OnceLock<Vec<u8>> = OnceLock::new();
    P.get_or_init(|| (0..65536usize).map(pay_byte).collect())
}

/// Two header templates, every field away from its default and no two fields alike.
fn template(t: usize) -> Ipv4Header {
    match t {
        0 => Ipv4Header {
            ihl: 5,
            type_of_service: 0xB4u8.into(),
            total_length: 0,
            identification: 0xBEEF,
            fragment_offset: 0,
            flags: ControlFlags::from(0u8),
            time_to_live: 1,
            protocol: 6,
            checksum: 0x1234,
            source: Ipv4Address::new([192, 168, 1, 77]),
            destination: Ipv4Address::new([10, 255, 0, 3]),
        },
        _ => Ipv4Header {
            ihl: 5,
            type_of_service: 0x1Cu8.into(),
            total_length: 0,
            identification: 1,
            fragment_offset: 0,
            flags: ControlFlags::from(0u8),
            time_to_live: 64,
            protocol: 253,
            checksum: 0,
            source: Ipv4Address::new([255, 255, 255, 254]),
            destination: Ipv4Address::new([127, 0, 0, 1]),
        },
    }
}

/// One enumerated case: the original datagram and the MTUs applied one after the other.
#[derive(Debug, Clone, PartialEq, Eq)]
pub struct Case {
    pub len: usize,
    pub mtus: Vec<u16>,
    pub df: bool,
    pub mf: bool,
    pub off: u16,
    pub tpl: usize,
}

impl Case {
    fn header(&self) -> Ipv4Header {
        let mut h = template(self.tpl);
        h.total_length = (HDR + self.len) as u16;
        h.fragment_offset = self.off;
        // wire bits (RFC 791): bit 1 = DF, bit 0 = MF; set from the raw value so that the
        // accessors of ControlFlags are themselves under test
        h.flags = ControlFlags::from(((self.df as u8) << 1) | self.mf as u8);
        h
    }
    fn json(&self) -> Value {
        json!({"payload_len": self.len, "mtus": self.mtus, "DF": self.df, "MF_in": self.mf,
               "offset_in_units_of_8": self.off, "template": self.tpl})
    }
}

const OFFS3: [u16; 3] = [0, 1, 185];
const OFFS2: [u16; 2] = [0, 185];
const EXTREME_MTUS: [u16; 6] = [68, 69, 576, 1500, 65534, 65535];
/// 20 chain MTUs; (MTU-20) mod 8 takes every residue 0..=7.
const CHAIN_MTUS_20: [u16; 20] = [
    68, 69, 70, 71, 75, 76, 82, 100, 125, 131, 257, 300, 500, 508, 576, 577, 1006, 1280, 1492, 1500,
];
/// 12 of them for the quick tier, still every residue.
const CHAIN_MTUS_12: [u16; 12] = [68, 69, 70, 71, 75, 82, 100, 257, 508, 576, 1006, 1500];

enum Kind {
    /// dims: len, mtu, df, mf, off(3), tpl
    Pairs { len_max: usize, mtu_lo: u16, mtu_hi: u16 },
    /// dims: k, mtu(6), df, mf, off(3), tpl; len = 65515 - 8*off - k (largest well-formed sizes)
    Extreme { ks: usize },
    /// dims: len, triple, df, mf, off(2), tpl
    Chains { len_max: usize, triples: Vec<[u16; 3]> },
}

pub struct Part {
    pub name: String,
    rule: String,
    kind: Kind,
    prod: Product,
}

fn triples(m: &[u16]) -> Vec<[u16; 3]> {
    let mut v = vec![];
    for a in 0..m.len() {
        for b in 0..a {
            for c in 0..b {
                // m is ascending, so m[a] > m[b] > m[c]
                v.push([m[a], m[b], m[c]]);
            }
        }
    }
    v
}

impl Part {
    fn new(kind: Kind) -> Self {
        let (name, rule, dims) = match &kind {
            Kind::Pairs { len_max, mtu_lo, mtu_hi } => (
                format!("pairs len0..={len_max} mtu{mtu_lo}..={mtu_hi}"),
                "product of payload length x MTU x DF{0,1} x incoming MF{0,1} x incoming offset{0,1,185} x 2 header templates; \
                 non-trivial = the datagram was split, counted by distinct resulting (offset,total_length,MF) lists"
                    .to_string(),
                vec![len_max + 1, (*mtu_hi - *mtu_lo) as usize + 1, 2, 2, 3, 2],
            ),
            Kind::Extreme { ks } => (
                format!("extreme len=65515-8*off-k k0..{ks} mtu{{68,69,576,1500,65534,65535}}"),
                "the largest well-formed payloads (offset*8+len <= 65515) x 6 MTUs x DF x MF x offset{0,1,185} x 2 templates; \
                 non-trivial = split, counted by distinct resulting lists"
                    .to_string(),
                vec![*ks, EXTREME_MTUS.len(), 2, 2, 3, 2],
            ),
            Kind::Chains { len_max, triples } => (
                format!("chains len0..={len_max} triples{}", triples.len()),
                "product of payload length x every strictly decreasing MTU triple x DF x MF x offset{0,185} x 2 templates, \
                 each piece re-fragmented at each stage, oracle relative to the original after every stage; \
                 non-trivial = at least two stages split something, counted by distinct final lists"
                    .to_string(),
                vec![len_max + 1, triples.len(), 2, 2, 2, 2],
            ),
        };
        Part { name, rule, kind, prod: Product::new(&dims) }
    }

    pub fn case(&self, i: u64) -> Case {
        let d = self.prod.decode(i);
        match &self.kind {
            Kind::Pairs { mtu_lo, .. } => Case {
                len: d[0],
                mtus: vec![*mtu_lo + d[1] as u16],
                df: d[2] == 1,
                mf: d[3] == 1,
                off: OFFS3[d[4]],
                tpl: d[5],
            },
            Kind::Extreme { .. } => {
                let off = OFFS3[d[4]];
                Case {
                    len: MAX_PAYLOAD - 8 * off as usize - d[0],
                    mtus: vec![EXTREME_MTUS[d[1]]],
                    df: d[2] == 1,
                    mf: d[3] == 1,
                    off,
                    tpl: d[5],
                }
            }
            Kind::Chains { triples, .. } => Case {
                len: d[0],
                mtus: triples[d[1]].to_vec(),
                df: d[2] == 1,
                mf: d[3] == 1,
                off: OFFS2[d[4]],
                tpl: d[5],
            },
        }
    }
}

pub fn parts(tier: &str) -> Vec<Part> {
    if tier == "quick" {
        vec![
            Part::new(Kind::Pairs { len_max: 600, mtu_lo: 68, mtu_hi: 700 }),
            Part::new(Kind::Extreme { ks: 16 }),
            Part::new(Kind::Chains { len_max: 1000, triples: triples(&CHAIN_MTUS_12) }),
        ]
    } else {
        vec![
            Part::new(Kind::Pairs { len_max: 2200, mtu_lo: 68, mtu_hi: 1600 }),
            Part::new(Kind::Extreme { ks: 516 }),
            Part::new(Kind::Chains { len_max: 3000, triples: triples(&CHAIN_MTUS_20) }),
        ]
    }
}

// ---------------------------------------------------------------------------------------------
// Oracle

type Piece = (Ipv4Header, Message);

fn mf_bit(h: &Ipv4Header) -> bool {
    h.flags.as_u8() & 0b01 != 0
}

fn site(stage: usize) -> &'static str {
    if stage == 0 {
        "fragment"
    } else {
        "fragment-chain"
    }
}

fn body_is(b: &Message, expect: &[u8]) -> bool {
    b.len() == expect.len() && b.iter().eq(expect.iter().copied())
}

fn render(h: &Ipv4Header, body_len: usize) -> String {
    format!(
        "off={}(byte {}) total_length={} body={} MF={} DF={} flags={:#05b} id={:#06x} tos={:#04x} ttl={} proto={} {}->{}",
        h.fragment_offset,
        h.fragment_offset as usize * 8,
        h.total_length,
        body_len,
        mf_bit(h) as u8,
        (h.flags.as_u8() >> 1) & 1,
        h.flags.as_u8(),
        h.identification,
        h.type_of_service.as_u8(),
        h.time_to_live,
        h.protocol,
        h.source,
        h.destination
    )
}

/// What the statement demands of the list of pieces standing for the original datagram after a
/// stage with this MTU. First failed demand wins (fixed order, so signatures are stable).
fn check_pieces(c: &Case, orig: &Ipv4Header, mtu: u16, stage: usize, out: &[Piece]) -> Result<(), Violation> {
    let pay = &payload()[..c.len];
    let s = site(stage);
    let ctx = |i: usize, h: &Ipv4Header, bl: usize| {
        format!(
            "len={} mtus={:?} DF={} MF_in={} off_in={} stage={} mtu={} piece {}/{}: {}",
            c.len, c.mtus, c.df as u8, c.mf as u8, c.off, stage, mtu, i, out.len(), render(h, bl)
        )
    };
    let mut pos = 0usize;
    for (i, (h, b)) in out.iter().enumerate() {
        let bl = b.len();
        let v = |clause: &str, disc: &str, more: String| {
            Err(Violation::new(clause, s, disc, format!("{more}; {}", ctx(i, h, bl))))
        };
        if h.total_length as usize != h.ihl as usize * 4 + bl || h.ihl != orig.ihl {
            if h.ihl != orig.ihl {
                return v("fields-preserved", "ihl", format!("ihl {} != original {}", h.ihl, orig.ihl));
            }
            return v(
                "length-field",
                "total-length-not-header-plus-body",
                format!("total_length {} but header 20 + body {}", h.total_length, bl),
            );
        }
        if h.total_length > mtu {
            return v("fits-mtu", "piece-exceeds-mtu", format!("total_length {} > mtu {}", h.total_length, mtu));
        }
        if pos % 8 != 0 {
            return v(
                "offset",
                "piece-starts-at-unaligned-position",
                format!("piece starts at byte {pos} of the original payload"),
            );
        }
        if h.fragment_offset as usize * 8 != c.off as usize * 8 + pos {
            return v(
                "offset",
                "recorded-offset-differs-from-position",
                format!(
                    "recorded offset {} (byte {}) but the piece starts at byte {} + original offset byte {}",
                    h.fragment_offset,
                    h.fragment_offset as usize * 8,
                    pos,
                    c.off as usize * 8
                ),
            );
        }
        if pos + bl > pay.len() {
            return v(
                "partition",
                "pieces-longer-than-original",
                format!("pieces cover {} bytes, original has {}", pos + bl, pay.len()),
            );
        }
        if !b.iter().eq(pay[pos..pos + bl].iter().copied()) {
            let at = b.iter().zip(pay[pos..].iter()).position(|(x, y)| x != *y).unwrap_or(0);
            return v(
                "partition",
                "payload-bytes-differ",
                format!("body byte {at} of this piece is not original byte {}", pos + at),
            );
        }
        let last = i + 1 == out.len();
        let want_mf = if last { c.mf } else { true };
        if mf_bit(h) != want_mf {
            let disc = if !last {
                "mf-clear-on-non-final-piece"
            } else if c.mf {
                "mf-cleared-on-final-piece-of-a-non-final-fragment"
            } else {
                "mf-set-on-final-piece"
            };
            return v("more-fragments", disc, format!("MF={} wanted {}", mf_bit(h) as u8, want_mf as u8));
        }
        if h.flags.as_u8() & !1 != orig.flags.as_u8() & !1 {
            return v(
                "fields-preserved",
                "flags-other-than-mf",
                format!("flags {:#05b} original {:#05b}", h.flags.as_u8(), orig.flags.as_u8()),
            );
        }
        let fields: [(&str, bool); 6] = [
            ("type_of_service", h.type_of_service == orig.type_of_service),
            ("identification", h.identification == orig.identification),
            ("time_to_live", h.time_to_live == orig.time_to_live),
            ("protocol", h.protocol == orig.protocol),
            ("source", h.source == orig.source),
            ("destination", h.destination == orig.destination),
        ];
        for (name, same) in fields {
            if !same {
                return v("fields-preserved", name, format!("{name} differs from the original ({})", render(orig, c.len)));
            }
        }
        pos += bl;
    }
    if pos != pay.len() {
        return Err(Violation::new(
            "partition",
            s,
            "pieces-shorter-than-original",
            format!(
                "pieces cover {} bytes, original has {}; len={} mtus={:?} DF={} MF_in={} off_in={} stage={} mtu={} pieces={}",
                pos,
                pay.len(),
                c.len,
                c.mtus,
                c.df as u8,
                c.mf as u8,
                c.off,
                stage,
                mtu,
                out.len()
            ),
        ));
    }
    Ok(())
}

enum Stage {
    Pieces(Vec<Piece>),
    Discarded,
}

/// Applies the real `fragment` to every piece and checks pass-through / discard per piece.
fn apply_stage(c: &Case, input: &[Piece], mtu: u16, stage: usize) -> Result<Stage, Violation> {
    let s = site(stage);
    let mut out: Vec<Piece> = Vec::with_capacity(input.len() + 4);
    for (k, (h, b)) in input.iter().enumerate() {
        let fits = HDR + b.len() <= mtu as usize;
        let ctx = || {
            format!(
                "len={} mtus={:?} DF={} MF_in={} off_in={} stage={} mtu={} input piece {}/{}: {}",
                c.len, c.mtus, c.df as u8, c.mf as u8, c.off, stage, mtu, k, input.len(), render(h, b.len())
            )
        };
        // panics of the real code are reported under the real entry point
        let r = match vkit::catch(|| fragment(*h, b.clone(), mtu)) {
            Ok(r) => r,
            Err(p) => {
                let mut v = Violation::panic(ENTRY, &p);
                v.detail = format!("{}; {}", v.detail, ctx());
                return Err(v);
            }
        };
        let got: Option<Vec<Piece>> = match r {
            Fragments::Discard => None,
            Fragments::DontFragment(p) => Some(vec![p]),
            Fragments::Fragmented(v) => Some(v),
        };
        if fits {
            match got {
                None => return Err(Violation::new("pass-through", s, "fitting-datagram-discarded", ctx())),
                Some(v) => {
                    if v.len() != 1 {
                        return Err(Violation::new(
                            "pass-through",
                            s,
                            "fitting-datagram-not-one-piece",
                            format!("{} pieces; {}", v.len(), ctx()),
                        ));
                    }
                    if v[0].0 != *h {
                        return Err(Violation::new(
                            "pass-through",
                            s,
                            "fitting-datagram-header-altered",
                            format!("got {}; {}", render(&v[0].0, v[0].1.len()), ctx()),
                        ));
                    }
                    if !body_is(&v[0].1, &b.to_vec()) {
                        return Err(Violation::new("pass-through", s, "fitting-datagram-body-altered", ctx()));
                    }
                    out.extend(v);
                }
            }
        } else if c.df {
            if let Some(v) = got {
                return Err(Violation::new(
                    "discard",
                    s,
                    "oversize-df-datagram-not-discarded",
                    format!("{} pieces returned; {}", v.len(), ctx()),
                ));
            }
            return Ok(Stage::Discarded);
        } else {
            match got {
                None => return Err(Violation::new("discard", s, "fragmentable-datagram-discarded", ctx())),
                Some(v) => out.extend(v),
            }
        }
    }
    Ok(Stage::Pieces(out))
}

fn fold(h: u64, x: u64) -> u64 {
    (h ^ x).wrapping_mul(0x0000_0100_0000_01b3)
}

/// Runs one case. Returns the outcome and, when `verbose`, a rendering of every stage.
fn run_case(c: &Case, chain_rule: bool, verbose: bool) -> (CaseOutcome, Vec<String>) {
    let mut log = vec![];
    let orig = c.header();
    let body = Message::new(payload()[..c.len].to_vec());
    if verbose {
        log.push(format!("original: {}", render(&orig, c.len)));
    }
    let mut cur: Vec<Piece> = vec![(orig, body)];
    let mut splitting_stages = 0;
    for (stage, &mtu) in c.mtus.iter().enumerate() {
        let next = match apply_stage(c, &cur, mtu, stage) {
            Err(v) => {
                if verbose {
                    log.push(format!("stage {stage} mtu {mtu}: VIOLATION {} {}", v.signature(), v.detail));
                }
                return (CaseOutcome::bad(v), log);
            }
            Ok(Stage::Discarded) => {
                if verbose {
                    log.push(format!("stage {stage} mtu {mtu}: Discard (DF set, does not fit) - as demanded"));
                }
                return (CaseOutcome::ok(None), log);
            }
            Ok(Stage::Pieces(p)) => p,
        };
        if verbose {
            log.push(format!("stage {stage} mtu {mtu}: {} piece(s)", next.len()));
            for (i, (h, b)) in next.iter().enumerate() {
                if next.len() > 14 && i >= 8 && i + 4 < next.len() {
                    if i == 8 {
                        log.push("    ...".into());
                    }
                    continue;
                }
                log.push(format!("    #{i}: {}", render(h, b.len())));
            }
        }
        if let Err(v) = check_pieces(c, &orig, mtu, stage, &next) {
            if verbose {
                log.push(format!("stage {stage} mtu {mtu}: VIOLATION {} {}", v.signature(), v.detail));
            }
            return (CaseOutcome::bad(v), log);
        }
        if next.len() > cur.len() {
            splitting_stages += 1;
        }
        cur = next;
    }
    let need = if chain_rule { 2 } else { 1 };
    let key = if splitting_stages >= need {
        let mut k = 0xcbf2_9ce4_8422_2325u64;
        for (h, _) in &cur {
            k = fold(k, h.fragment_offset as u64);
            k = fold(k, h.total_length as u64);
            k = fold(k, mf_bit(h) as u64);
        }
        Some(k)
    } else {
        None
    };
    if verbose {
        log.push("all demands met".into());
    }
    (CaseOutcome::ok(key), log)
}

// ---------------------------------------------------------------------------------------------

pub fn run(report: &mut Report, tier: &str) {
    report.assume("headers carry no options (ihl = 5), the only kind Elvis parses or builds");
    report.assume("the input is well formed: total_length = 20 + payload length and offset*8 + payload length <= 65515");
    report.assume("the in-memory checksum field of a produced fragment is not compared: Elvis recomputes the checksum when a header is serialized");
    for p in parts(tier) {
        let chain = matches!(p.kind, Kind::Chains { .. });
        enumerate::run_into(
            report,
            &p.name,
            &p.rule,
            p.prod.total(),
            |i| run_case(&p.case(i), chain, false).0,
            |i| p.case(i).json(),
        );
    }
    report.set("exhaustive", json!(true));
    report.set(
        "rule",
        json!("every case calls the real fragmentation::fragment on real Messages with position-unique payload bytes; the oracle walks the returned pieces relative to the original datagram"),
    );
}

pub fn replay(w: &Value, tier: &str) -> String {
    let name = w["part"].as_str().unwrap_or("");
    let Some(index) = w["index"].as_u64() else {
        return "witness has no index".into();
    };
    for t in [tier, "quick", "thorough"] {
        for p in parts(t) {
            if p.name == name {
                if index >= p.prod.total() {
                    return format!("index {index} outside part {name}");
                }
                let c = p.case(index);
                let chain = matches!(p.kind, Kind::Chains { .. });
                let mut out = vec![format!("part {name} index {index}: {}", c.json())];
                match vkit::catch(|| run_case(&c, chain, true)) {
                    Ok((_, log)) => out.extend(log),
                    Err(pi) => out.push(format!("PANIC at {}: {}", pi.location, pi.message)),
                }
                return out.join("\n");
            }
        }
    }
    format!("unknown part {name}")
}
