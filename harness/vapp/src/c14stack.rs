//! C14, full-stack part - a frame whose headers fail to decode at some layer is dropped at that
//! layer: it reaches no application, changes no connection, and the simulation keeps running.
//!
//! A raw sender puts one crafted frame on a network that also carries an established TCP stream,
//! a UDP listener, a DHCP client/server pair, a DNS server and an ARP router.

use elvis::{
    applications::{dhcp_server::DhcpServer, ArpRouter},
    ip_generator::IpRange,
};
use elvis_core::{
    machine::PciSlot,
    message::Message,
    protocol::{DemuxError, StartError},
    protocols::{
        arp::arp_parsing::ArpPacket,
        dhcp::dhcp_client::DhcpClient,
        ipv4::{ipv4_parsing::verif_build_header, Ipv4, Ipv4Address, Recipient},
        tcp::verif::TcpHeaderBuilder,
        udp::verif::build_udp_header,
        Arp, DnsServer, Endpoint, Endpoints, Pci, SocketAPI, Tcp, TcpListener, TcpStream, Udp,
    },
    run_internet_with_timeout, Control, IpTable, Machine, Network, Protocol, Session, Shutdown,
};
use serde_json::json;
use std::{
    any::TypeId,
    sync::{Arc, Mutex},
    time::Duration,
};
use tokio::sync::Barrier;
use vkit::{
    sched::{self, Bounds, Scenario},
    Report, Violation,
};

const V: Ipv4Address = Ipv4Address::new([10, 0, 0, 2]); // victim host (TCP server, UDP listener, DHCP client)
const P: Ipv4Address = Ipv4Address::new([10, 0, 0, 3]); // legitimate TCP peer
const X: Ipv4Address = Ipv4Address::new([10, 0, 0, 66]); // the raw sender's claimed address
const DHCP_SRV: Ipv4Address = Ipv4Address::new([10, 0, 0, 4]);
const ROUTER: Ipv4Address = Ipv4Address::new([10, 0, 0, 5]);
const UDP_PORT: u16 = 700;
const TCP_PORT: u16 = 80;

#[derive(Clone, Debug)]
pub struct Frame {
    pub name: String,
    /// which machine's MAC the frame is addressed to: 1 victim, 3 dhcp server, 4 dns server, 5 router
    pub to: usize,
    pub arp: bool,
    pub bytes: Vec<u8>,
    /// a frame that is entirely valid (control): the UDP recorder must receive its payload
    pub valid_udp: bool,
}

fn ipv4(src: Ipv4Address, dst: Ipv4Address, proto: u8, payload: &[u8]) -> Vec<u8> {
    let mut h = verif_build_header(src, dst, proto, payload.len() as u16, None, None, None, None).unwrap();
    h.extend_from_slice(payload);
    h
}
fn udp(src: Ipv4Address, sport: u16, dst: Ipv4Address, dport: u16, payload: &[u8]) -> Vec<u8> {
    let mut h = build_udp_header(src, sport, dst, dport, payload.iter().cloned(), payload.len()).unwrap();
    h.extend_from_slice(payload);
    ipv4(src, dst, 17, &h)
}

/// The crafted frames: outer layers valid, one layer malformed.
pub fn frames() -> Vec<Frame> {
    let mut v = vec![];
    let mut add = |name: &str, to: usize, arp: bool, bytes: Vec<u8>, valid_udp: bool| {
        v.push(Frame {
            name: name.into(),
            to,
            arp,
            bytes,
            valid_udp,
        })
    };
    let good = udp(X, 4000, V, UDP_PORT, b"GOOD");
    add("control: valid datagram to the UDP listener", 1, false, good.clone(), true);
    // --- IPv4 layer ------------------------------------------------------------------------
    add("ipv4: empty frame", 1, false, vec![], false);
    add("ipv4: 19 bytes", 1, false, good[..19].to_vec(), false);
    let mut b = good.clone();
    b[0] = 0x65;
    add("ipv4: version 6", 1, false, b, false);
    let mut b = good.clone();
    b[0] = 0x46;
    add("ipv4: ihl 6 without the option word", 1, false, b, false);
    let mut b = good.clone();
    b[2] = 0;
    b[3] = 10;
    add("ipv4: total length 10", 1, false, b, false);
    let mut b = good.clone();
    b[6] |= 0x80;
    add("ipv4: reserved flag set", 1, false, b, false);
    let mut b = good.clone();
    b[9] = 99;
    add("ipv4: unknown protocol 99", 1, false, b, false);
    let mut b = good.clone();
    b[1] = 0x03;
    add("ipv4: reserved TOS bits", 1, false, b, false);
    // --- UDP layer -------------------------------------------------------------------------
    add("udp: 7-byte UDP header", 1, false, ipv4(X, V, 17, &[0x0f, 0xa0, 0x02, 0xbc, 0, 8, 0]), false);
    let mut b = good.clone();
    b[24] = 0xff;
    b[25] = 0xff;
    add("udp: length field 65535", 1, false, b, false);
    let mut b = good.clone();
    b[24] = 0;
    b[25] = 3;
    add("udp: length field 3", 1, false, b, false);
    add("udp: no binding for the port", 1, false, udp(X, 4000, V, 9999, b"NOBODY"), false);
    // --- TCP layer (towards the established connection's endpoints) ---------------------------
    add("tcp: 10-byte segment", 1, false, ipv4(P, V, 6, &[0; 10]), false);
    let seg = {
        let h = TcpHeaderBuilder::new(49152, TCP_PORT, 1)
            .ack(1)
            .build(P, V, [].into_iter(), 0)
            .unwrap();
        h.serialize()
    };
    let mut s2 = seg.clone();
    s2[12] = 0x60;
    add("tcp: data offset 6 without options", 1, false, ipv4(P, V, 6, &s2), false);
    let mut s3 = seg.clone();
    s3[12] = 0x00;
    add("tcp: data offset 0", 1, false, ipv4(P, V, 6, &s3), false);
    add("tcp: valid header to a port nobody listens on", 1, false, {
        let h = TcpHeaderBuilder::new(1234, 9, 77).syn().build(X, V, [].into_iter(), 0).unwrap();
        ipv4(X, V, 6, &h.serialize())
    }, false);
    // --- DHCP over valid UDP ---------------------------------------------------------------------
    let dhcp = |ty: u8, tail: &[u8]| {
        let mut m = vec![0u8; 29];
        m.push(ty);
        m.extend_from_slice(tail);
        m
    };
    add("dhcp client: message type 0", 1, false, udp(DHCP_SRV, 67, Ipv4Address::CURRENT_NETWORK, 68, &dhcp(0, &[0, 0])), false);
    add("dhcp client: message type 9", 1, false, udp(DHCP_SRV, 67, Ipv4Address::CURRENT_NETWORK, 68, &dhcp(9, &[0, 0])), false);
    add("dhcp client: non-UTF-8 server name", 1, false, udp(DHCP_SRV, 67, Ipv4Address::CURRENT_NETWORK, 68, &dhcp(2, &[0x80, 0, 0])), false);
    add("dhcp client: truncated", 1, false, udp(DHCP_SRV, 67, Ipv4Address::CURRENT_NETWORK, 68, &[0u8; 12]), false);
    add("dhcp client: Discover (a type a client never handles)", 1, false, udp(DHCP_SRV, 67, Ipv4Address::CURRENT_NETWORK, 68, &dhcp(1, &[0, 0])), false);
    add("dhcp server: message type 0", 3, false, udp(X, 68, DHCP_SRV, 67, &dhcp(0, &[0, 0])), false);
    add("dhcp server: truncated", 3, false, udp(X, 68, DHCP_SRV, 67, &[1u8; 5]), false);
    add("dhcp server: non-UTF-8 boot file", 3, false, udp(X, 68, DHCP_SRV, 67, &dhcp(1, &[0, 0xff, 0])), false);
    add("dhcp server: Ack (a type a server never handles)", 3, false, udp(X, 68, DHCP_SRV, 67, &dhcp(5, &[0, 0])), false);
    // --- DNS over valid UDP ----------------------------------------------------------------------
    add("dns server: 5-byte query", 4, false, udp(X, 5300, Ipv4Address::DNS_AUTH, 53, &[1, 2, 3, 4, 5]), false);
    let mut q = vec![0u8; 12];
    q.extend_from_slice(&[0x80, b' ', 0, 1, 0, 1, b'x', b' ', 0, 1, 0, 1, 0, 0, 0, 0, 0, 0]);
    add("dns server: non-UTF-8 name", 4, false, udp(X, 5301, Ipv4Address::DNS_AUTH, 53, &q), false);
    let mut q = vec![0u8; 12];
    q.extend_from_slice(b"nosuchname ");
    q.extend_from_slice(&[0, 1, 0, 1]);
    q.extend_from_slice(b"nosuchname ");
    q.extend_from_slice(&[0, 1, 0, 1, 0, 0, 0, 0, 0, 0]);
    add("dns server: well-formed query for an unknown name", 4, false, udp(X, 5302, Ipv4Address::DNS_AUTH, 53, &q), false);
    // --- ARP ---------------------------------------------------------------------------------------
    let arp_ok = ArpPacket::new_request(99, X, V).build();
    add("arp: 27 bytes", 1, true, arp_ok[..27].to_vec(), false);
    let mut a = arp_ok.clone();
    a[6] = 0;
    a[7] = 9;
    add("arp: operation 9", 1, true, a, false);
    add("arp: empty", 1, true, vec![], false);
    // --- router ------------------------------------------------------------------------------------
    let mut t0 = udp(X, 4000, Ipv4Address::new([10, 7, 0, 1]), UDP_PORT, b"TTL0");
    t0[8] = 0;
    add("router: TTL 0 on arrival", 5, false, t0, false);
    let mut t1 = udp(X, 4000, Ipv4Address::new([10, 7, 0, 1]), UDP_PORT, b"TTL1");
    t1[8] = 1;
    add("router: TTL 1 on arrival", 5, false, t1, false);
    add("router: destination without a route", 5, false, udp(X, 4000, Ipv4Address::new([172, 16, 0, 1]), UDP_PORT, b"NOROUTE"), false);
    add("router: 19-byte IPv4 frame", 5, false, good[..19].to_vec(), false);
    v
}

#[derive(Default)]
struct Book {
    udp_got: Mutex<Vec<Vec<u8>>>,
    tcp_read: Mutex<Vec<u8>>,
    notes: Mutex<Vec<String>>,
    done: Mutex<bool>,
}

struct UdpRec {
    book: Arc<Book>,
}
#[async_trait::async_trait]
impl Protocol for UdpRec {
    async fn start(&self, _s: Shutdown, initialized: Arc<Barrier>, machine: Arc<Machine>) -> Result<(), StartError> {
        machine
            .protocol::<Udp>()
            .unwrap()
            .listen(self.id(), Endpoint::new(V, UDP_PORT), machine.clone())
            .map_err(|_| StartError::Other)?;
        initialized.wait().await;
        Ok(())
    }
    fn demux(&self, m: Message, _c: Arc<dyn Session>, _ctl: Control, _mach: Arc<Machine>) -> Result<(), DemuxError> {
        self.book.udp_got.lock().unwrap().push(m.to_vec());
        Ok(())
    }
}

struct TcpServer {
    book: Arc<Book>,
}
#[async_trait::async_trait]
impl Protocol for TcpServer {
    async fn start(&self, _s: Shutdown, initialized: Arc<Barrier>, machine: Arc<Machine>) -> Result<(), StartError> {
        let mut l = TcpListener::bind(Endpoint::new(V, TCP_PORT), machine).await.map_err(|_| StartError::Other)?;
        initialized.wait().await;
        let book = self.book.clone();
        tokio::spawn(async move {
            if let Ok(mut s) = l.accept().await {
                while let Ok(b) = s.read().await {
                    book.tcp_read.lock().unwrap().extend(b);
                }
            }
        });
        Ok(())
    }
    fn demux(&self, _m: Message, _c: Arc<dyn Session>, _ctl: Control, _mach: Arc<Machine>) -> Result<(), DemuxError> {
        Ok(())
    }
}

/// The legitimate TCP peer: writes BEFORE, waits until the raw frame has been injected, writes AFTER.
struct TcpPeer {
    book: Arc<Book>,
}
#[async_trait::async_trait]
impl Protocol for TcpPeer {
    async fn start(&self, shutdown: Shutdown, initialized: Arc<Barrier>, machine: Arc<Machine>) -> Result<(), StartError> {
        initialized.wait().await;
        match TcpStream::connect(Endpoint::new(V, TCP_PORT), machine).await {
            Ok(mut s) => {
                let _ = s.write(b"BEFORE".to_vec()).await;
                tokio::time::sleep(Duration::from_millis(300)).await;
                let _ = s.write(b"AFTER".to_vec()).await;
                tokio::time::sleep(Duration::from_millis(700)).await;
                *self.book.done.lock().unwrap() = true;
                shutdown.shut_down();
                std::future::pending::<()>().await;
            }
            Err(e) => self.book.notes.lock().unwrap().push(format!("connect failed {e:?}")),
        }
        Ok(())
    }
    fn demux(&self, _m: Message, _c: Arc<dyn Session>, _ctl: Control, _mach: Arc<Machine>) -> Result<(), DemuxError> {
        Ok(())
    }
}

struct RawSender {
    frame: Frame,
    macs: Arc<Mutex<Vec<u64>>>,
}
#[async_trait::async_trait]
impl Protocol for RawSender {
    async fn start(&self, _s: Shutdown, initialized: Arc<Barrier>, machine: Arc<Machine>) -> Result<(), StartError> {
        initialized.wait().await;
        // after the TCP handshake and the first write, before the second write
        tokio::time::sleep(Duration::from_millis(150)).await;
        let pci = machine.protocol::<Pci>().unwrap();
        let mac = self.macs.lock().unwrap()[self.frame.to];
        let proto = if self.frame.arp { TypeId::of::<Arp>() } else { TypeId::of::<Ipv4>() };
        let _ = pci.open(0).send_pci(Message::new(self.frame.bytes.clone()), Some(mac), proto);
        // then a valid datagram: it must still be delivered
        tokio::time::sleep(Duration::from_millis(50)).await;
        let mac_v = self.macs.lock().unwrap()[1];
        let _ = pci
            .open(0)
            .send_pci(Message::new(udp(X, 4001, V, UDP_PORT, b"FOLLOWUP")), Some(mac_v), TypeId::of::<Ipv4>());
        Ok(())
    }
    fn demux(&self, _m: Message, _c: Arc<dyn Session>, _ctl: Control, _mach: Arc<Machine>) -> Result<(), DemuxError> {
        Ok(())
    }
}

pub struct StackSc(pub Frame);

#[derive(Debug, Hash)]
pub struct StackObs {
    status: String,
    udp: Vec<Vec<u8>>,
    tcp: Vec<u8>,
}

impl Scenario for StackSc {
    type Obs = StackObs;
    fn name(&self) -> String {
        self.0.name.clone()
    }
    fn run(&self) -> (StackObs, Vec<Violation>) {
        let frame = self.0.clone();
        sched::install_rand(vec![1000, 5000], vec![]);
        let net = Network::basic();
        let net2 = Network::basic();
        sched::register_networks(&[&net, &net2]);
        sched::install_wire_hooks(|_| elvis_core::verif::Verdict::Deliver);
        let book = Arc::new(Book::default());
        let macs = Arc::new(Mutex::new(vec![]));
        let table = || -> IpTable<Recipient> { [("0.0.0.0/0", Recipient::new(0, None))].into_iter().collect() };
        let mut pcis: Vec<Pci> = vec![];
        // 0 raw sender, 1 victim, 2 tcp peer, 3 dhcp server, 4 dns server, 5 router
        for i in 0..6 {
            if i == 5 {
                pcis.push(Pci::new([net.clone(), net2.clone()]));
            } else {
                pcis.push(Pci::new([net.clone()]));
            }
        }
        *macs.lock().unwrap() = pcis.iter().map(|p| p.mac_addresses().next().unwrap()).collect();
        let mut it = pcis.into_iter();
        let raw = Machine::new().with(it.next().unwrap()).with(RawSender { frame: frame.clone(), macs: macs.clone() }).arc();
        let victim = Machine::new()
            .with(Udp::new())
            .with(Tcp::new())
            .with(Ipv4::new(table()))
            .with(it.next().unwrap())
            .with(Arp::new())
            .with(SocketAPI::new(Some(V)))
            .with(DhcpClient::new(DHCP_SRV))
            .with(UdpRec { book: book.clone() })
            .with(TcpServer { book: book.clone() })
            .arc();
        let peer = Machine::new()
            .with(Udp::new())
            .with(Tcp::new())
            .with(Ipv4::new(table()))
            .with(it.next().unwrap())
            .with(Arp::new())
            .with(SocketAPI::new(Some(P)))
            .with(TcpPeer { book: book.clone() })
            .arc();
        let dhcp = Machine::new()
            .with(Udp::new())
            .with(Ipv4::new(table()))
            .with(it.next().unwrap())
            .with(Arp::new())
            .with(DhcpServer::new(DHCP_SRV, IpRange::new(Ipv4Address::new([10, 0, 0, 100]), Ipv4Address::new([10, 0, 0, 110]))))
            .arc();
        let dns = Machine::new()
            .with(Udp::new())
            .with(Ipv4::new(table()))
            .with(it.next().unwrap())
            .with(Arp::new())
            .with(SocketAPI::new(Some(Ipv4Address::DNS_AUTH)))
            .with(DnsServer::new(1))
            .arc();
        let mut rt: IpTable<(Option<Ipv4Address>, PciSlot)> = IpTable::new();
        rt.add_cidr("10.0.0.0/24", (None, 0));
        rt.add_cidr("10.7.0.0/24", (None, 1));
        let mut own: IpTable<Recipient> = IpTable::new();
        own.add_direct(ROUTER, Recipient::new(0, None));
        let router = Machine::new()
            .with(it.next().unwrap())
            .with(Ipv4::new(own))
            .with(Arp::new())
            .with(ArpRouter::new(rt, vec![ROUTER, Ipv4Address::new([10, 7, 0, 254])]))
            .arc();
        let machines = vec![raw, victim, peer, dhcp, dns, router];
        sched::register_machines(&machines);
        let status = sched::block_on_paused_send(async move {
            sched::start_clock();
            run_internet_with_timeout(&machines, Duration::from_millis(5000)).await
        });
        let status = match status {
            Ok(s) => format!("{s:?}"),
            Err(e) => e,
        };
        let udp_got = book.udp_got.lock().unwrap().clone();
        let tcp = book.tcp_read.lock().unwrap().clone();
        let mut viols = vec![];
        let site = frame.name.split(':').next().unwrap_or("frame").to_string();
        if status != "Exited" {
            viols.push(Violation::new(
                "simulation-keeps-running",
                &site,
                "run-did-not-end-normally",
                format!("after frame '{}': status {status}; notes {:?}", frame.name, book.notes.lock().unwrap()),
            ));
        }
        if tcp != b"BEFOREAFTER" {
            viols.push(Violation::new(
                "connection-unchanged",
                &site,
                if tcp.starts_with(b"BEFORE") && tcp.len() < 11 { "stream-stalled-after-frame" } else { "stream-corrupted" },
                format!("after frame '{}': the established stream delivered {:?}", frame.name, String::from_utf8_lossy(&tcp)),
            ));
        }
        let mut want: Vec<Vec<u8>> = vec![];
        if frame.valid_udp {
            want.push(b"GOOD".to_vec());
        }
        want.push(b"FOLLOWUP".to_vec());
        if udp_got != want {
            viols.push(Violation::new(
                "reaches-no-application",
                &site,
                if udp_got.len() > want.len() {
                    "malformed-frame-reached-an-application"
                } else {
                    "valid-datagram-after-the-frame-not-delivered"
                },
                format!("after frame '{}': UDP listener received {:?}, expected {:?}", frame.name, udp_got.iter().map(|b| String::from_utf8_lossy(b).to_string()).collect::<Vec<_>>(), want.iter().map(|b| String::from_utf8_lossy(b).to_string()).collect::<Vec<_>>()),
            ));
        }
        (
            StackObs {
                status,
                udp: udp_got,
                tcp,
            },
            viols,
        )
    }
}

pub fn run(report: &mut Report, tier: &str) {
    report.assume("stack part: one crafted frame per execution, injected between two writes of an established TCP stream; a panic in any task is a violation because the production panic hook ends the process");
    let d = if tier == "quick" { 0 } else { 1 };
    let fr = frames();
    let start = std::time::Instant::now();
    let (mut execs, mut points, mut outcomes) = (0u64, 0u64, 0u64);
    for (i, f) in fr.iter().enumerate() {
        let sc = StackSc(f.clone());
        let st = sched::explore(&sc, &Bounds::new(d).wall(Duration::from_secs(120)));
        execs += st.executions;
        points += st.choice_points;
        outcomes += st.distinct_outcomes;
        for (v, w, n) in &st.found {
            let mut w = w.clone();
            w["occurrences"] = json!(n);
            report.violation(v.clone(), w);
        }
        for m in &st.machinery {
            report.machinery_error(m.clone());
        }
        if i < 2 {
            for s in st.samples.iter().take(1) {
                report.sample(s.clone());
            }
        }
    }
    report.add_count("evaluations", execs);
    report.add_count("distinct_nontrivial", fr.len() as u64);
    report.add_count("executions", execs);
    report.part(json!({
        "part": "full-stack injection", "frames": fr.len(), "frame_names": fr.iter().map(|f| f.name.clone()).collect::<Vec<_>>(),
        "executions": execs, "choice_points_total": points, "distinct_outcomes_summed": outcomes,
        "deviation_bound": d, "wall_s": start.elapsed().as_secs_f64(),
        "rule": "distinct_nontrivial counts the distinct crafted frames; each is executed in every schedule within the deviation bound",
    }));
}

pub fn replay(w: &serde_json::Value, _tier: &str) -> String {
    let name = w["scenario"].as_str().unwrap_or("");
    let ch: Vec<u16> = w["choices"]
        .as_array()
        .map(|a| a.iter().map(|x| x.as_u64().unwrap() as u16).collect())
        .unwrap_or_default();
    for f in frames() {
        if f.name == name {
            return sched::replay(&StackSc(f), &ch);
        }
    }
    format!("unknown frame {name}")
}
