//! C09 - Route lookup is longest-prefix match over consistent subnet arithmetic.
//!
//! Two halves:
//!
//! * **table** (E1): the state is a real `IpTable<u8>` next to a boring reference (one slot per
//!   universe network: absent / value 1 / value 2). Every `add`, `add_cidr`, `add_direct`,
//!   `remove`, `remove_cidr`, `remove_direct` on every universe network is a transition, so the
//!   search reaches every table over the universe by every history. On every distinct state every
//!   probe address is looked up in the real table and compared with a linear scan of the reference.
//! * **arithmetic** (E3): `Ipv4Net::{new, id, broadcast, range, contains, overlaps}`,
//!   `TryFrom<RangeInclusive>`, `Ipv4Mask::{from_bitcount, try_from, count_ones}`, `cidr_to_ip`,
//!   `Ipv4Net::from_cidr` over full Cartesian products, and a sweep of the address space through
//!   the fully populated table (all 2^32 addresses in the thorough tier).
//!
//! The reference never masks: a network is the closed interval `[id, last]` of `u32`s, membership
//! is two comparisons, overlap is interval intersection, a range is a block when its size is a
//! power of two that divides its start.

use elvis_core::{
    ip_table::IpTable,
    protocols::{
        arp::subnetting::{cidr_to_ip, Ipv4Mask, Ipv4Net},
        ipv4::Ipv4Address,
    },
};
use serde_json::{json, Value};
use std::{
    collections::HashSet,
    fmt,
    sync::{Arc, Mutex},
    time::Duration,
};
use vkit::{
    catch,
    enumerate::{self, CaseOutcome, Product},
    key128,
    search::{self, Limits, Model},
    Report, Violation,
};

// ---------------------------------------------------------------------------------------------
// Reference arithmetic

fn rmask(len: u32) -> u32 {
    if len == 0 {
        0
    } else {
        u32::MAX << (32 - len)
    }
}

fn dotted(x: u32) -> String {
    let b = x.to_be_bytes();
    format!("{}.{}.{}.{}", b[0], b[1], b[2], b[3])
}

/// Reference network: the closed interval `[id, last()]`.
#[derive(Clone, Copy, PartialEq, Eq, Hash)]
pub struct RNet {
    pub id: u32,
    pub len: u32,
}

impl RNet {
    pub fn of(ip: u32, len: u32) -> Self {
        RNet {
            id: ip & rmask(len),
            len,
        }
    }
    pub fn last(&self) -> u32 {
        self.id | !rmask(self.len)
    }
    pub fn has(&self, x: u32) -> bool {
        self.id <= x && x <= self.last()
    }
    pub fn text(&self) -> String {
        format!("{}/{}", dotted(self.id), self.len)
    }
    /// The real network, built from the canonical id.
    fn real(&self) -> Ipv4Net {
        Ipv4Net::new(Ipv4Address::from(self.id), Ipv4Mask::from_bitcount(self.len))
    }
}

impl fmt::Debug for RNet {
    fn fmt(&self, f: &mut fmt::Formatter<'_>) -> fmt::Result {
        f.write_str(&self.text())
    }
}

fn a(x: u32) -> Ipv4Address {
    Ipv4Address::from(x)
}

fn show_net(n: &Ipv4Net) -> String {
    format!(
        "{}/{} (mask {})",
        dotted(n.id().to_u32()),
        n.mask().count_ones(),
        dotted(n.mask().to_u32())
    )
}

// ---------------------------------------------------------------------------------------------
// Universes

fn universe(tier: &str) -> Vec<RNet> {
    let mut u = vec![
        RNet::of(0, 0),                // 0.0.0.0/0
        RNet::of(0x8000_0000, 1),      // 128.0.0.0/1
        RNet::of(0x0A00_0000, 8),      // 10.0.0.0/8
        RNet::of(0x0A01_0000, 16),     // 10.1.0.0/16
        RNet::of(0x0A01_0100, 24),     // 10.1.1.0/24
        RNet::of(0x0A01_0100, 31),     // 10.1.1.0/31
        RNet::of(0x0A01_0101, 32),     // 10.1.1.1/32
        RNet::of(0x0B00_0000, 8),      // 11.0.0.0/8
        RNet::of(0, 32),               // 0.0.0.0/32
        RNet::of(0xFFFF_FFFF, 32),     // 255.255.255.255/32
    ];
    if tier == "thorough" {
        u.push(RNet::of(0x0A00_0000, 7)); // 10.0.0.0/7: parent of both /8s, adjacent length
        u.push(RNet::of(0x0A01_0100, 25)); // 10.1.1.0/25: adjacent to the /24
        u.push(RNet::of(0x0A01_0180, 25)); // 10.1.1.128/25: its sibling
    }
    u
}

/// Lookup addresses for the table model: around both ends of every universe network, every
/// single-bit neighbour of every id, and a coarse grid.
fn table_probes(uni: &[RNet]) -> Vec<u32> {
    let mut p = vec![];
    for n in uni {
        for d in [-1i64, 0, 1] {
            p.push((n.id as i64 + d).rem_euclid(1 << 32) as u32);
            p.push((n.last() as i64 + d).rem_euclid(1 << 32) as u32);
        }
        for b in 0..32 {
            p.push(n.id ^ (1 << b));
        }
    }
    for k in 0..64u32 {
        p.push(k << 26 | 0x0155_5555);
    }
    p.sort_unstable();
    p.dedup();
    p
}

// ---------------------------------------------------------------------------------------------
// Lookup oracle shared by the table model and the sweep

/// `want[i]` is 0 when universe network `i` is absent, else its value.
fn expected_lookup(uni: &[RNet], want: &[u8], x: u32) -> Option<(usize, u8)> {
    let mut best: Option<(usize, u8)> = None;
    for (i, n) in uni.iter().enumerate() {
        if want[i] != 0 && n.has(x) && best.map_or(true, |(j, _)| uni[j].len < n.len) {
            best = Some((i, want[i]));
        }
    }
    best
}

fn containing(uni: &[RNet], want: &[u8], x: u32) -> usize {
    uni.iter()
        .enumerate()
        .filter(|(i, n)| want[*i] != 0 && n.has(x))
        .count()
}

fn render_want(uni: &[RNet], want: &[u8]) -> String {
    let v: Vec<String> = uni
        .iter()
        .zip(want)
        .filter(|(_, w)| **w != 0)
        .map(|(n, w)| format!("{}={}", n.text(), w))
        .collect();
    format!("{{{}}}", v.join(", "))
}

fn lookup_violation(uni: &[RNet], want: &[u8], x: u32, got: Option<u8>) -> Option<Violation> {
    let exp = expected_lookup(uni, want, x);
    let disc = match (exp, got) {
        (None, None) => return None,
        (Some((_, e)), Some(g)) if e == g => return None,
        (None, Some(_)) => "match-outside-every-network",
        (Some(_), None) => "no-match-inside-network",
        (Some((i, _)), Some(g)) => {
            // did a less specific network that also contains x supply the answer?
            let shorter = uni
                .iter()
                .enumerate()
                .any(|(j, n)| j != i && want[j] == g && n.has(x) && n.len < uni[i].len);
            if shorter {
                "shorter-prefix-preferred"
            } else {
                "wrong-value"
            }
        }
    };
    Some(Violation::new(
        "longest-prefix-match",
        "IpTable::get_recipient",
        disc,
        format!(
            "table {} lookup {}: expected {} got {:?}",
            render_want(uni, want),
            dotted(x),
            match exp {
                Some((i, v)) => format!("Some({v}) from {}", uni[i].text()),
                None => "None".into(),
            },
            got
        ),
    ))
}

// ---------------------------------------------------------------------------------------------
// E1: the table model

#[derive(Clone, Copy, Debug, PartialEq, Eq)]
pub enum Via {
    /// `Ipv4Net::new(id, from_bitcount(len))`
    New,
    /// `Ipv4Net::new_short(last address of the network, len)`: host bits set
    NewHostBits,
    /// `"id/len"`
    Cidr,
    /// `"last/len"`: host bits set in the text
    CidrHostBits,
    /// `add_direct` / `remove_direct` (only for /32)
    Direct,
}

#[derive(Clone)]
pub struct TAct {
    pub add: bool,
    pub idx: usize,
    pub net: RNet,
    pub val: u8,
    pub via: Via,
}

impl TAct {
    fn entry(&self) -> &'static str {
        match (self.add, self.via) {
            (true, Via::New | Via::NewHostBits) => "IpTable::add",
            (true, Via::Cidr | Via::CidrHostBits) => "IpTable::add_cidr",
            (true, Via::Direct) => "IpTable::add_direct",
            (false, Via::New | Via::NewHostBits) => "IpTable::remove",
            (false, Via::Cidr | Via::CidrHostBits) => "IpTable::remove_cidr",
            (false, Via::Direct) => "IpTable::remove_direct",
        }
    }
    fn cidr_text(&self) -> String {
        match self.via {
            Via::CidrHostBits => format!("{}/{}", dotted(self.net.last()), self.net.len),
            _ => self.net.text(),
        }
    }
    fn real_net(&self) -> Ipv4Net {
        match self.via {
            Via::NewHostBits => Ipv4Net::new_short(self.net.last().to_be_bytes(), self.net.len),
            _ => self.net.real(),
        }
    }
    fn apply(&self, t: &mut IpTable<u8>) {
        match (self.add, self.via) {
            (true, Via::New | Via::NewHostBits) => {
                t.add(self.real_net(), self.val);
            }
            (true, Via::Cidr | Via::CidrHostBits) => t.add_cidr(&self.cidr_text(), self.val),
            (true, Via::Direct) => t.add_direct(a(self.net.id), self.val),
            (false, Via::New | Via::NewHostBits) => {
                t.remove(self.real_net());
            }
            (false, Via::Cidr | Via::CidrHostBits) => t.remove_cidr(&self.cidr_text()),
            (false, Via::Direct) => {
                t.remove_direct(a(self.net.id));
            }
        }
    }
}

impl fmt::Debug for TAct {
    fn fmt(&self, f: &mut fmt::Formatter<'_>) -> fmt::Result {
        let arg = match self.via {
            Via::New => format!("Ipv4Net::new({}, /{})", dotted(self.net.id), self.net.len),
            Via::NewHostBits => format!(
                "Ipv4Net::new_short({}, {})",
                dotted(self.net.last()),
                self.net.len
            ),
            Via::Cidr | Via::CidrHostBits => format!("{:?}", self.cidr_text()),
            Via::Direct => dotted(self.net.id),
        };
        let name = &self.entry()["IpTable::".len()..];
        if self.add {
            write!(f, "{name}({arg}, {})", self.val)
        } else {
            write!(f, "{name}({arg})")
        }
    }
}

#[derive(Clone)]
pub struct TState {
    pub real: IpTable<u8>,
    pub want: Vec<u8>,
}

pub struct TableModel {
    pub name: String,
    pub uni: Vec<RNet>,
    pub probes: Vec<u32>,
    /// keys of states in which some probe lies in two present networks with different values
    nontrivial: Vec<Mutex<HashSet<u128>>>,
}

impl TableModel {
    pub fn new(tier: &str) -> Self {
        let uni = universe(tier);
        let probes = table_probes(&uni);
        TableModel {
            name: format!("table/{tier} ({} networks, values 1..2)", uni.len()),
            uni,
            probes,
            nontrivial: (0..64).map(|_| Mutex::new(HashSet::new())).collect(),
        }
    }
    fn nontrivial_count(&self) -> u64 {
        self.nontrivial
            .iter()
            .map(|m| m.lock().unwrap().len() as u64)
            .sum()
    }
    fn contents(&self, s: &TState) -> Vec<(u32, u32, u8)> {
        s.real
            .iter()
            .map(|(n, v)| (n.id().to_u32(), n.mask().to_u32(), v))
            .collect()
    }
}

impl Model for TableModel {
    type State = TState;
    type Action = TAct;

    fn name(&self) -> String {
        self.name.clone()
    }

    fn init(&self) -> Vec<TState> {
        let mut gw = vec![0; self.uni.len()];
        gw[0] = 1; // universe[0] is 0.0.0.0/0
        vec![
            TState {
                real: IpTable::new(),
                want: vec![0; self.uni.len()],
            },
            TState {
                real: IpTable::default_gateway(1),
                want: gw,
            },
        ]
    }

    fn actions(&self, _s: &TState) -> Vec<TAct> {
        let mut out = vec![];
        for (idx, &net) in self.uni.iter().enumerate() {
            let vias: &[Via] = if net.len == 32 {
                &[Via::New, Via::Cidr, Via::Direct]
            } else {
                &[Via::New, Via::NewHostBits, Via::Cidr, Via::CidrHostBits]
            };
            for &via in vias {
                for val in [1u8, 2] {
                    out.push(TAct {
                        add: true,
                        idx,
                        net,
                        val,
                        via,
                    });
                }
                out.push(TAct {
                    add: false,
                    idx,
                    net,
                    val: 0,
                    via,
                });
            }
        }
        out
    }

    fn step(&self, s: &TState, act: &TAct) -> Result<TState, Violation> {
        let mut n = s.clone();
        catch(|| act.apply(&mut n.real)).map_err(|p| Violation::panic(act.entry(), &p))?;
        n.want[act.idx] = if act.add { act.val } else { 0 };
        Ok(n)
    }

    fn key(&self, s: &TState) -> u128 {
        key128(&(self.contents(s), &s.want))
    }

    fn check(&self, s: &TState) -> Vec<Violation> {
        let mut out: Vec<Violation> = vec![];
        let mut nontrivial = false;
        let r = catch(|| {
            for &x in &self.probes {
                let got = s.real.get_recipient(a(x));
                if let Some(v) = lookup_violation(&self.uni, &s.want, x, got) {
                    if !out.iter().any(|o| o.signature() == v.signature()) {
                        out.push(v);
                    }
                }
                if !nontrivial && containing(&self.uni, &s.want, x) >= 2 {
                    nontrivial = true;
                }
            }
        });
        if let Err(p) = r {
            out.push(Violation::panic("IpTable::get_recipient", &p));
        }
        if nontrivial {
            let k = self.key(s);
            self.nontrivial[(k % 64) as usize].lock().unwrap().insert(k);
        }
        out
    }

    fn describe(&self, s: &TState) -> String {
        let real: Vec<String> = s
            .real
            .iter()
            .map(|(n, v)| format!("{}/{}={}", dotted(n.id().to_u32()), n.mask().count_ones(), v))
            .collect();
        format!(
            "real[{}] reference{}",
            real.join(", "),
            render_want(&self.uni, &s.want)
        )
    }
}

// ---------------------------------------------------------------------------------------------
// E3: arithmetic

struct Cfg {
    bases: Vec<u32>,
    /// probes at id-near..=id+near and last-near..=last+near
    near: u32,
    /// number of evenly strided probe addresses over the whole space
    grid: u32,
    /// width of the address window for range conversion
    win: u32,
    win_bases: Vec<u32>,
}

fn cfg(tier: &str) -> Cfg {
    let mut bases = vec![
        0x0000_0000, // 0.0.0.0
        0xFFFF_FFFF, // 255.255.255.255
        0x0A01_0101, // 10.1.1.1
        0x0B00_0000, // 11.0.0.0
        0x7FFF_FFFF, // 127.255.255.255  } adjacent at every mask length
        0x8000_0000, // 128.0.0.0        }
        0x5555_5555,
        0xAAAA_AAAA,
        0xC0A8_4D82, // 192.168.77.130
    ];
    if tier == "thorough" {
        bases.extend([
            0x0000_0001,
            0xFFFF_FFFE,
            0x7FFF_FFFE,
            0x8000_0001,
            0x0A01_01FF, // 10.1.1.255
            0x0A01_0200, // 10.1.2.0
            0x0AFF_FFFF, // 10.255.255.255
            0x0102_0304,
            0x6440_0001, // 100.64.0.1
            0xA9FE_0101, // 169.254.1.1
            0xAC10_0504, // 172.16.5.4
            0xE000_0001, // 224.0.0.1
            0x0F0F_0F0F,
            0xF0F0_F0F0,
            0x00FF_00FF,
        ]);
    }
    let (near, grid, win) = if tier == "thorough" {
        (64, 4096, 256)
    } else {
        (8, 256, 128)
    };
    Cfg {
        bases,
        near,
        grid,
        win,
        win_bases: vec![
            0,                           // bottom of the space
            u32::MAX - (win - 1),        // top of the space
            0x0A01_0200 - win / 2,       // straddles 10.1.1.255 | 10.1.2.0
            0x8000_0000 - win / 2,       // straddles 127.255.255.255 | 128.0.0.0
        ],
    }
}

impl Cfg {
    fn nets(&self) -> u64 {
        33 * self.bases.len() as u64
    }
    /// (reference network, the base address it was built from)
    fn net(&self, i: usize) -> (RNet, u32) {
        let len = (i / self.bases.len()) as u32;
        let base = self.bases[i % self.bases.len()];
        (RNet::of(base, len), base)
    }
    fn probes(&self) -> usize {
        (2 * (2 * self.near + 1) + 32 + 32 + 2 + self.grid) as usize
    }
    fn probe(&self, n: RNet, base: u32, j: usize) -> u32 {
        let mut j = j as u32;
        let w = 2 * self.near + 1;
        if j < w {
            return n.id.wrapping_sub(self.near).wrapping_add(j);
        }
        j -= w;
        if j < w {
            return n.last().wrapping_sub(self.near).wrapping_add(j);
        }
        j -= w;
        if j < 32 {
            return n.id ^ (1 << j);
        }
        j -= 32;
        if j < 32 {
            return n.last() ^ (1 << j);
        }
        j -= 32;
        if j == 0 {
            return base;
        }
        if j == 1 {
            return n.id + (n.last() - n.id) / 2;
        }
        j -= 2;
        let stride = (1u64 << 32) / self.grid as u64;
        (j as u64 * stride + base as u64 % stride) as u32
    }
}

type CaseFn = Box<dyn Fn(u64) -> CaseOutcome + Send + Sync>;
type DescFn = Box<dyn Fn(u64) -> Value + Send + Sync>;

struct Part {
    name: String,
    rule: &'static str,
    total: u64,
    f: CaseFn,
    describe: DescFn,
}

/// Runs one real entry point; a panic becomes a violation carrying that entry point's name.
fn g<R>(entry: &'static str, v: &mut Vec<Violation>, f: impl FnOnce() -> R) -> Option<R> {
    match catch(f) {
        Ok(r) => Some(r),
        Err(p) => {
            v.push(Violation::panic(entry, &p));
            None
        }
    }
}

fn out(nontrivial: Option<u64>, violations: Vec<Violation>) -> CaseOutcome {
    CaseOutcome {
        nontrivial,
        violations,
    }
}

/// The aligned power-of-two block a range denotes, if any.
fn block(start: u32, end: u32) -> Result<RNet, &'static str> {
    if start > end {
        return Err("empty-range-accepted");
    }
    let size = (end - start) as u64 + 1;
    if !size.is_power_of_two() {
        return Err("non-power-of-two-accepted");
    }
    if start as u64 % size != 0 {
        return Err("misaligned-accepted");
    }
    Ok(RNet {
        id: start,
        len: 32 - size.trailing_zeros(),
    })
}

fn range_case(start: u32, end: u32) -> CaseOutcome {
    let site = "Ipv4Net::try_from(RangeInclusive)";
    let mut v = vec![];
    let nt = if start <= end {
        Some(key128(&(start, end)) as u64)
    } else {
        None
    };
    let Some(got) = g(site, &mut v, || Ipv4Net::try_from(a(start)..=a(end))) else {
        return out(nt, v);
    };
    let exp = block(start, end);
    let what = format!("range {}..={}", dotted(start), dotted(end));
    match (got, exp) {
        (Ok(n), Ok(r)) => {
            if n.id().to_u32() != r.id || n.mask().to_u32() != rmask(r.len) {
                v.push(Violation::new(
                    "range-to-network",
                    site,
                    "wrong-network",
                    format!("{what} is {} but converted to {}", r.text(), show_net(&n)),
                ));
            }
        }
        (Ok(n), Err(why)) => v.push(Violation::new(
            "range-to-network",
            site,
            why,
            format!("{what} is not an aligned power-of-two block but converted to {}", show_net(&n)),
        )),
        (Err(e), Ok(r)) => v.push(Violation::new(
            "range-to-network",
            site,
            "aligned-block-rejected",
            format!("{what} is exactly {} but was rejected with {e:?}", r.text()),
        )),
        (Err(_), Err(_)) => {}
    }
    out(nt, v)
}

fn parts(tier: &str) -> Vec<Part> {
    let mut ps = vec![];

    // ---- contains / id / broadcast / range -------------------------------------------------
    {
        let c = Arc::new(cfg(tier));
        let prod = Product::new(&[c.nets() as usize, c.probes()]);
        let total = prod.total();
        let (c1, p1) = (c.clone(), prod.clone());
        let f: CaseFn = Box::new(move |i| {
            let d = p1.decode(i);
            let (r, base) = c1.net(d[0]);
            let x = c1.probe(r, base, d[1]);
            let mut v = vec![];
            let nt = Some(key128(&(r, x)) as u64);
            let Some(n) = g("Ipv4Net::new", &mut v, || {
                Ipv4Net::new(a(base), Ipv4Mask::from_bitcount(r.len))
            }) else {
                return out(nt, v);
            };
            let what = format!("Ipv4Net::new({}, /{})", dotted(base), r.len);
            if n.id().to_u32() != r.id {
                v.push(Violation::new(
                    "network-id",
                    "Ipv4Net::new",
                    "id-is-not-address-and-mask",
                    format!("{what}.id() = {} expected {}", n.id(), dotted(r.id)),
                ));
            }
            if n.mask().to_u32() != rmask(r.len) {
                v.push(Violation::new(
                    "network-id",
                    "Ipv4Net::mask",
                    "mask-changed",
                    format!("{what}.mask() = {}", dotted(n.mask().to_u32())),
                ));
            }
            let bc = g("Ipv4Net::broadcast", &mut v, || n.broadcast());
            if let Some(bc) = bc.filter(|bc| bc.to_u32() != r.last()) {
                v.push(Violation::new(
                    "broadcast",
                    "Ipv4Net::broadcast",
                    "not-last-address",
                    format!("{what}.broadcast() = {bc} expected {}", dotted(r.last())),
                ));
            }
            // (a panic inside broadcast() is reported once, above)
            let rg = catch(|| n.range()).ok();
            if let Some(rg) =
                rg.filter(|rg| rg.start().to_u32() != r.id || rg.end().to_u32() != r.last())
            {
                v.push(Violation::new(
                    "range",
                    "Ipv4Net::range",
                    "endpoints",
                    format!(
                        "{what}.range() = {}..={} expected {}..={}",
                        rg.start(),
                        rg.end(),
                        dotted(r.id),
                        dotted(r.last())
                    ),
                ));
            }
            if g("Ipv4Net::contains", &mut v, || n.contains(a(base))) == Some(false) {
                v.push(Violation::new(
                    "contains",
                    "Ipv4Net::contains",
                    "own-address-rejected",
                    format!("{what} does not contain {}", dotted(base)),
                ));
            }
            let Some(got) = g("Ipv4Net::contains", &mut v, || n.contains(a(x))) else {
                return out(nt, v);
            };
            if got != r.has(x) {
                let disc = if !got {
                    "address-inside-rejected"
                } else if x < r.id {
                    "address-below-id-accepted"
                } else {
                    "address-above-broadcast-accepted"
                };
                v.push(Violation::new(
                    "contains",
                    "Ipv4Net::contains",
                    disc,
                    format!(
                        "{} = [{}, {}]: contains({}) = {got}",
                        r.text(),
                        dotted(r.id),
                        dotted(r.last()),
                        dotted(x)
                    ),
                ));
            }
            out(nt, v)
        });
        let (c2, p2) = (c.clone(), prod);
        let describe: DescFn = Box::new(move |i| {
            let d = p2.decode(i);
            let (r, base) = c2.net(d[0]);
            json!({"network": r.text(), "built_from": dotted(base), "address": dotted(c2.probe(r, base, d[1]))})
        });
        ps.push(Part {
            name: format!("contains/{tier}"),
            rule: "one case per (network, address); distinct (network id, mask length, address) triples are counted",
            total,
            f,
            describe,
        });
    }

    // ---- overlaps -----------------------------------------------------------------------------
    {
        let c = Arc::new(cfg(tier));
        let prod = Product::new(&[c.nets() as usize, c.nets() as usize]);
        let total = prod.total();
        let (c1, p1) = (c.clone(), prod.clone());
        let f: CaseFn = Box::new(move |i| {
            let d = p1.decode(i);
            let (x, _) = c1.net(d[0]);
            let (y, _) = c1.net(d[1]);
            let exp = x.id.max(y.id) <= x.last().min(y.last());
            let mut v = vec![];
            let got = g("Ipv4Net::overlaps", &mut v, || x.real().overlaps(y.real()));
            if let Some(got) = got.filter(|got| *got != exp) {
                v.push(Violation::new(
                    "overlaps",
                    "Ipv4Net::overlaps",
                    if got {
                        "disjoint-reported-overlapping"
                    } else {
                        "intersecting-reported-disjoint"
                    },
                    format!(
                        "{} = [{}, {}] and {} = [{}, {}]: overlaps = {got}",
                        x.text(),
                        dotted(x.id),
                        dotted(x.last()),
                        y.text(),
                        dotted(y.id),
                        dotted(y.last())
                    ),
                ));
            }
            let nt = if x != y {
                Some(key128(&(x, y)) as u64)
            } else {
                None
            };
            out(nt, v)
        });
        let (c2, p2) = (c, prod);
        let describe: DescFn = Box::new(move |i| {
            let d = p2.decode(i);
            json!({"a": c2.net(d[0]).0.text(), "b": c2.net(d[1]).0.text()})
        });
        ps.push(Part {
            name: format!("overlaps/{tier}"),
            rule: "all ordered pairs of networks; distinct ordered pairs of different networks are counted",
            total,
            f,
            describe,
        });
    }

    // ---- range -> network, windows -------------------------------------------------------------
    {
        let c = Arc::new(cfg(tier));
        let w = c.win as usize;
        let prod = Product::new(&[c.win_bases.len(), w, w]);
        let total = prod.total();
        let (c1, p1) = (c.clone(), prod.clone());
        let f: CaseFn = Box::new(move |i| {
            let d = p1.decode(i);
            let b = c1.win_bases[d[0]];
            range_case(b + d[1] as u32, b + d[2] as u32)
        });
        let (c2, p2) = (c, prod);
        let describe: DescFn = Box::new(move |i| {
            let d = p2.decode(i);
            let b = c2.win_bases[d[0]];
            json!({"start": dotted(b + d[1] as u32), "end": dotted(b + d[2] as u32)})
        });
        ps.push(Part {
            name: format!("range-window/{tier}"),
            rule: "every (start, end) with both ends in an address window, four windows; distinct non-empty ranges are counted",
            total,
            f,
            describe,
        });
    }

    // ---- range -> network, whole blocks of every size and their off-by-one neighbours -----------
    {
        const D: [(i64, i64); 7] = [(0, 0), (1, 0), (0, -1), (-1, 0), (0, 1), (1, 1), (-1, -1)];
        let c = Arc::new(cfg(tier));
        let prod = Product::new(&[c.nets() as usize, D.len()]);
        let total = prod.total();
        let ends = move |c: &Cfg, p: &Product, i: u64| -> Option<(u32, u32)> {
            let d = p.decode(i);
            let (r, _) = c.net(d[0]);
            let s = r.id as i64 + D[d[1]].0;
            let e = r.last() as i64 + D[d[1]].1;
            if s < 0 || e < 0 || s > u32::MAX as i64 || e > u32::MAX as i64 {
                None
            } else {
                Some((s as u32, e as u32))
            }
        };
        let (c1, p1) = (c.clone(), prod.clone());
        let f: CaseFn = Box::new(move |i| match ends(&c1, &p1, i) {
            Some((s, e)) => range_case(s, e),
            None => CaseOutcome::ok(None), // the perturbed end does not exist
        });
        let (c2, p2) = (c, prod);
        let describe: DescFn = Box::new(move |i| match ends(&c2, &p2, i) {
            Some((s, e)) => json!({"start": dotted(s), "end": dotted(e)}),
            None => json!({"vacuous": "perturbed end outside the address space"}),
        });
        ps.push(Part {
            name: format!("range-block/{tier}"),
            rule: "the exact range of every network of every mask length and its six off-by-one neighbours; distinct non-empty ranges are counted",
            total,
            f,
            describe,
        });
    }

    // ---- masks ---------------------------------------------------------------------------------
    {
        let prod = Product::new(&[33, 33]);
        let total = prod.total();
        let p1 = prod.clone();
        let f: CaseFn = Box::new(move |i| {
            let d = p1.decode(i);
            let len = d[0] as u32;
            let mut v = vec![];
            let Some(m) = g("Ipv4Mask::from_bitcount", &mut v, || Ipv4Mask::from_bitcount(len))
            else {
                return out(None, v);
            };
            if m.to_u32() != rmask(len) {
                v.push(Violation::new(
                    "mask",
                    "Ipv4Mask::from_bitcount",
                    "not-len-leading-ones",
                    format!("from_bitcount({len}) = {:#010x}", m.to_u32()),
                ));
            }
            if m.count_ones() != len {
                v.push(Violation::new(
                    "mask",
                    "Ipv4Mask::count_ones",
                    "not-the-length",
                    format!("from_bitcount({len}).count_ones() = {}", m.count_ones()),
                ));
            }
            // d[1] == 32: the mask itself; else the mask with bit d[1] flipped
            let val = if d[1] == 32 {
                rmask(len)
            } else {
                rmask(len) ^ (1 << d[1])
            };
            let valid = val.leading_ones() + val.trailing_zeros() == 32;
            let tries = [
                (
                    "Ipv4Mask::try_from(u32)",
                    g("Ipv4Mask::try_from(u32)", &mut v, || Ipv4Mask::try_from(val).ok()),
                ),
                (
                    "Ipv4Mask::try_from(Ipv4Address)",
                    g("Ipv4Mask::try_from(Ipv4Address)", &mut v, || {
                        Ipv4Mask::try_from(a(val)).ok()
                    }),
                ),
            ];
            for (site, got) in tries {
                let Some(got) = got else { continue };
                let disc = match got {
                    Some(_) if !valid => "non-contiguous-mask-accepted",
                    None if valid => "contiguous-mask-rejected",
                    Some(g) if g.to_u32() != val || g.count_ones() != val.count_ones() => {
                        "value-changed"
                    }
                    _ => continue,
                };
                v.push(Violation::new(
                    "mask",
                    site,
                    disc,
                    format!("try_from({val:#010x}) = {:?}", got.map(|g| g.to_u32())),
                ));
            }
            out(Some(val as u64), v)
        });
        let describe: DescFn = Box::new(move |i| {
            let d = prod.decode(i);
            json!({"length": d[0], "flipped_bit": if d[1] == 32 { Value::Null } else { json!(d[1]) }})
        });
        ps.push(Part {
            name: format!("mask/{tier}"),
            rule: "all 33 lengths x (intact + 32 single-bit corruptions); distinct 32-bit values offered to try_from are counted",
            total,
            f,
            describe,
        });
    }

    // ---- CIDR text -----------------------------------------------------------------------------
    {
        let c = Arc::new(cfg(tier));
        let prod = Product::new(&[c.nets() as usize, 2]);
        let total = prod.total();
        let text = move |c: &Cfg, p: &Product, i: u64| -> (RNet, String) {
            let d = p.decode(i);
            let (r, base) = c.net(d[0]);
            let ip = if d[1] == 0 { r.id } else { base };
            (r, format!("{}/{}", dotted(ip), r.len))
        };
        let (c1, p1) = (c.clone(), prod.clone());
        let f: CaseFn = Box::new(move |i| {
            let (r, t) = text(&c1, &p1, i);
            let mut v = vec![];
            match g("cidr_to_ip", &mut v, || cidr_to_ip(&t)) {
                None => {}
                Some(Ok((ip, m))) => {
                    if m.to_u32() != rmask(r.len) {
                        v.push(Violation::new(
                            "cidr",
                            "cidr_to_ip",
                            "wrong-mask",
                            format!("{t:?} -> mask {}", dotted(m.to_u32())),
                        ));
                    } else if !r.has(ip.to_u32()) {
                        v.push(Violation::new(
                            "cidr",
                            "cidr_to_ip",
                            "address-outside-denoted-network",
                            format!("{t:?} -> address {ip}"),
                        ));
                    }
                }
                Some(Err(e)) => v.push(Violation::new(
                    "cidr",
                    "cidr_to_ip",
                    "valid-text-rejected",
                    format!("{t:?} -> {e:?}"),
                )),
            }
            match g("Ipv4Net::from_cidr", &mut v, || Ipv4Net::from_cidr(&t)) {
                None => {}
                Some(Ok(n)) => {
                    if n.id().to_u32() != r.id || n.mask().to_u32() != rmask(r.len) {
                        v.push(Violation::new(
                            "cidr",
                            "Ipv4Net::from_cidr",
                            "wrong-network",
                            format!("{t:?} denotes {} but parsed to {}", r.text(), show_net(&n)),
                        ));
                    }
                }
                Some(Err(e)) => v.push(Violation::new(
                    "cidr",
                    "Ipv4Net::from_cidr",
                    "valid-text-rejected",
                    format!("{t:?} -> {e:?}"),
                )),
            }
            out(Some(key128(&t) as u64), v)
        });
        let (c2, p2) = (c, prod);
        let describe: DescFn = Box::new(move |i| json!({"text": text(&c2, &p2, i).1}));
        ps.push(Part {
            name: format!("cidr/{tier}"),
            rule: "every network of the grid rendered as id/len and as host-address/len; distinct texts are counted",
            total,
            f,
            describe,
        });
    }

    // ---- address sweep through the fully populated table -----------------------------------------
    {
        let uni = Arc::new(universe(tier));
        // value = position + 1, so the answer names the network that supplied it
        let want: Arc<Vec<u8>> = Arc::new((1..=uni.len() as u8).collect());
        let chunks: Arc<Vec<u32>> = Arc::new(if tier == "thorough" {
            (0..=0xFFFFu32).collect()
        } else {
            let mut c: Vec<u32> = uni
                .iter()
                .flat_map(|n| {
                    [
                        n.id.wrapping_sub(1),
                        n.id,
                        n.last(),
                        n.last().wrapping_add(1),
                    ]
                })
                .map(|x| x >> 16)
                .collect();
            c.sort_unstable();
            c.dedup();
            c
        });
        let total = chunks.len() as u64;
        let (u1, w1, ch1) = (uni.clone(), want.clone(), chunks.clone());
        let f: CaseFn = Box::new(move |i| {
            // insertion order differs from chunk to chunk: forwards on even, backwards on odd
            let mut t: IpTable<u8> = IpTable::new();
            let order: Vec<usize> = if i % 2 == 0 {
                (0..u1.len()).collect()
            } else {
                (0..u1.len()).rev().collect()
            };
            let mut v = vec![];
            if g("IpTable::add", &mut v, || {
                for k in order {
                    t.add(u1[k].real(), w1[k]);
                }
            })
            .is_none()
            {
                return out(None, v);
            }
            let hi = ch1[i as usize] << 16;
            let mut nontrivial = false;
            let mut bad = None;
            g("IpTable::get_recipient", &mut v, || {
                for lo in 0..=0xFFFFu32 {
                    let x = hi | lo;
                    bad = lookup_violation(&u1, &w1, x, t.get_recipient(a(x)));
                    if bad.is_some() {
                        break;
                    }
                    nontrivial |= lo % 257 == 0 && containing(&u1, &w1, x) >= 2;
                }
            });
            v.extend(bad);
            out(nontrivial.then_some(hi as u64), v)
        });
        let describe: DescFn = Box::new(move |i| {
            let hi = chunks[i as usize] << 16;
            json!({"addresses": format!("{}..={}", dotted(hi), dotted(hi | 0xFFFF)),
                   "table": render_want(&uni, &want)})
        });
        ps.push(Part {
            name: format!("lookup-sweep/{tier}"),
            rule: "one case per block of 65536 consecutive lookup addresses against the table holding every universe network (thorough: all 65536 blocks = all 2^32 addresses; quick: the blocks around every network boundary); blocks in which some checked address (every 257th) lies in two or more networks are counted",
            total,
            f,
            describe,
        });
    }

    ps
}

// ---------------------------------------------------------------------------------------------

pub fn run(report: &mut Report, tier: &str) {
    report.assume("the table universe is finite: every table over it is reached, by every history of add/add_cidr/add_direct/remove/remove_cidr/remove_direct, but networks outside the universe are only exercised by the arithmetic parts");
    report.assume("lookup addresses per table state are the neighbourhood of both ends of every universe network, every single-bit neighbour of every id and a 64-point grid; all 2^32 addresses are looked up only in the fully populated table (thorough tier)");
    report.assume("CIDR texts are canonical dotted-quad/decimal-length renderings with 0 <= length <= 32; malformed texts are outside the property");

    let m = TableModel::new(tier);
    let limits = Limits {
        max_wall: Duration::from_secs(if tier == "quick" { 25 } else { 900 }),
        ..Default::default()
    };
    let st = search::run_into(&m, &limits, report);
    report.add_count("distinct_nontrivial", m.nontrivial_count());
    report.set("table_states_with_nested_choice", json!(m.nontrivial_count()));
    report.set("table_probe_addresses_per_state", json!(m.probes.len()));
    report.add_count("evaluations", st.states * m.probes.len() as u64);

    for p in parts(tier) {
        enumerate::run_into(
            report,
            &p.name,
            p.rule,
            p.total,
            |i| (p.f)(i),
            |i| (p.describe)(i),
        );
    }
    report.set("exhaustive", json!(st.fixpoint));
    report.set(
        "rule",
        json!("table: breadth-first search to a fixpoint; a state is the real IpTable's iter() contents plus the reference slots; every probe address is looked up on every distinct state; a state is non-trivial when some probe lies in two present networks. arithmetic: full Cartesian products, see each part."),
    );
}

pub fn replay(w: &Value, tier: &str) -> String {
    if let Some(name) = w["model"].as_str() {
        for t in [tier, "quick", "thorough"] {
            let m = TableModel::new(t);
            if m.name == name {
                let path: Vec<u32> = w["path"]
                    .as_array()
                    .map(|p| p.iter().map(|x| x.as_u64().unwrap_or(0) as u32).collect())
                    .unwrap_or_default();
                if path.is_empty() {
                    return "witness has no path".into();
                }
                return search::replay(&m, &path).0.join("\n");
            }
        }
        return format!("unknown model {name}");
    }
    let name = w["part"].as_str().unwrap_or("");
    let index = w["index"].as_u64().unwrap_or(0);
    for t in [tier, "quick", "thorough"] {
        for p in parts(t) {
            if p.name == name {
                if index >= p.total {
                    return format!("index {index} outside part {name} ({} cases)", p.total);
                }
                let mut s = format!("part {name} case {index}: {}\n", (p.describe)(index));
                match catch(|| (p.f)(index)) {
                    Ok(o) if o.violations.is_empty() => s.push_str("no violation"),
                    Ok(o) => {
                        for v in o.violations {
                            s.push_str(&format!("VIOLATION {} :: {}\n", v.signature(), v.detail));
                        }
                    }
                    Err(pn) => {
                        let v = Violation::panic(name, &pn);
                        s.push_str(&format!("VIOLATION {} :: {}\n", v.signature(), v.detail));
                    }
                }
                return s;
            }
        }
    }
    format!("unknown part {name}")
}
