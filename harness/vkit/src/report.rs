//! Violations, signatures, known findings, evidence and replay files.

use serde_json::{json, Map, Value};

macro_rules! outln {
    ($($a:tt)*) => {
        crate::out(&format!($($a)*))
    };
}
use std::{collections::BTreeMap, path::PathBuf, time::Instant};

/// One way in which the property was seen to fail.
#[derive(Debug, Clone, PartialEq, Eq)]
pub struct Violation {
    /// Which clause of the oracle failed (stable identifier)
    pub clause: String,
    /// Where: panic location inside the repository, or the entry point / scenario family
    pub site: String,
    /// Property-specific classification narrow enough to name one mechanism
    pub discriminator: String,
    /// Free text for the reader (not part of the signature)
    pub detail: String,
}

impl Violation {
    pub fn new(clause: &str, site: &str, discriminator: &str, detail: impl Into<String>) -> Self {
        Self {
            clause: clause.into(),
            site: site.into(),
            discriminator: discriminator.into(),
            detail: detail.into(),
        }
    }
    pub fn panic(entry: &str, p: &crate::PanicInfo) -> Self {
        Self {
            clause: "no-panic".into(),
            site: p.location.clone(),
            discriminator: entry.into(),
            detail: p.message.clone(),
        }
    }
    pub fn signature(&self) -> String {
        format!("{}|{}|{}", self.clause, self.site, self.discriminator)
    }
}

#[derive(Debug, Clone, Copy, PartialEq, Eq)]
pub enum Outcome {
    Held,
    Violated,
    MachineryError,
}

pub fn verif_root() -> PathBuf {
    std::env::var_os("VERIF_ROOT")
        .map(PathBuf::from)
        .unwrap_or_else(|| PathBuf::from("/verif"))
}

/// Directory for per-run scratch files (NDL texts handed to `core_parser` by path): RAM-backed
/// /dev/shm when it exists (the checks write millions of tiny files; on the ext4 root each
/// rewrite costs a journal flush), otherwise `$VERIF_ROOT/target/tmp`. Nothing in it outlives
/// a run.
pub fn scratch_dir() -> PathBuf {
    let shm = PathBuf::from("/dev/shm");
    let d = if shm.is_dir() {
        shm.join(format!("verif-scratch-{}", std::process::id()))
    } else {
        verif_root().join("target").join("tmp")
    };
    let _ = std::fs::create_dir_all(&d);
    d
}

struct Known {
    signature: String,
    what: String,
}

fn load_known(property: &str) -> Vec<Known> {
    let path = verif_root().join("known_findings.json");
    let Ok(text) = std::fs::read_to_string(&path) else {
        return vec![];
    };
    let v: Value = match serde_json::from_str(&text) {
        Ok(v) => v,
        Err(e) => {
            eprintln!("MACHINERY-ERROR known_findings.json does not parse: {e}");
            std::process::exit(2);
        }
    };
    let mut out = vec![];
    for f in v["findings"].as_array().cloned().unwrap_or_default() {
        // only OPEN findings suppress; "fixed" entries are documentation and suppress nothing
        if f["status"] == "open" && f["property"] == property {
            out.push(Known {
                signature: f["signature"].as_str().unwrap_or("").to_string(),
                what: f["what"].as_str().unwrap_or("").to_string(),
            });
        }
    }
    out
}

pub struct Report {
    pub property: String,
    pub tier: String,
    pub level: String,
    pub seed: i64,
    start: Instant,
    pub coverage: Map<String, Value>,
    pub assumptions: Vec<String>,
    /// signature -> (violation, witness, count)
    violations: BTreeMap<String, (Violation, Value, u64)>,
    machinery_errors: Vec<String>,
    pub parts: Vec<Value>,
    samples: Vec<Value>,
}

static CURRENT: std::sync::Mutex<String> = std::sync::Mutex::new(String::new());

/// The property of the report most recently created in this process (for verdicts that have
/// to be printed from outside the normal flow, see `sched::start_watchdog`).
pub fn current_property() -> String {
    CURRENT.lock().unwrap().clone()
}

impl Report {
    pub fn new(property: &str, tier: &str, level: &str) -> Self {
        *CURRENT.lock().unwrap() = property.to_string();
        let seed = std::env::var("VERIF_SEED")
            .ok()
            .and_then(|s| s.parse().ok())
            .unwrap_or(0);
        Self {
            property: property.into(),
            tier: tier.into(),
            level: level.into(),
            seed,
            start: Instant::now(),
            coverage: Map::new(),
            assumptions: vec![],
            violations: BTreeMap::new(),
            machinery_errors: vec![],
            parts: vec![],
            samples: vec![],
        }
    }

    pub fn assume(&mut self, s: &str) {
        if !self.assumptions.iter().any(|a| a == s) {
            self.assumptions.push(s.into());
        }
    }

    /// Records a violation with its (already minimal) witness. The first witness per signature is kept.
    pub fn violation(&mut self, v: Violation, witness: Value) {
        let sig = v.signature();
        self.violations
            .entry(sig)
            .and_modify(|e| e.2 += 1)
            .or_insert((v, witness, 1));
    }

    pub fn violation_count(&self) -> usize {
        self.violations.len()
    }

    pub fn machinery_error(&mut self, s: impl Into<String>) {
        self.machinery_errors.push(s.into());
    }

    pub fn add_count(&mut self, key: &str, n: u64) {
        let cur = self.coverage.get(key).and_then(|v| v.as_u64()).unwrap_or(0);
        self.coverage.insert(key.into(), json!(cur + n));
    }

    pub fn set(&mut self, key: &str, v: Value) {
        self.coverage.insert(key.into(), v);
    }

    pub fn sample(&mut self, v: Value) {
        if self.samples.len() < 8 {
            self.samples.push(v);
        }
    }

    /// Adds the description of one part (sub-model, scenario family, codec) of the check.
    pub fn part(&mut self, v: Value) {
        self.parts.push(v);
    }

    /// Writes evidence and replay files, prints the verdict lines and returns the exit code.
    pub fn finish(mut self) -> i32 {
        let root = verif_root();
        let known = load_known(&self.property);
        let mut unknown = vec![];
        let mut matched = vec![];
        for (sig, (v, w, n)) in &self.violations {
            if let Some(k) = known.iter().find(|k| &k.signature == sig) {
                matched.push((sig.clone(), k.what.clone(), *n));
            } else {
                unknown.push((sig.clone(), v.clone(), w.clone(), *n));
            }
        }
        // replay files for every violation, known or not
        let rdir = root.join("replays").join(&self.property);
        let mut replay_paths = BTreeMap::new();
        if !self.violations.is_empty() {
            let _ = std::fs::create_dir_all(&rdir);
        }
        for (sig, (v, w, n)) in &self.violations {
            let h = crate::key128(sig) as u64;
            let p = rdir.join(format!("{h:016x}.json"));
            let body = json!({
                "property": self.property,
                "signature": sig,
                "clause": v.clause, "site": v.site, "discriminator": v.discriminator,
                "detail": v.detail,
                "occurrences": n,
                "witness": w,
            });
            let _ = std::fs::write(&p, serde_json::to_string_pretty(&body).unwrap());
            replay_paths.insert(sig.clone(), p);
        }

        if !self.samples.is_empty() {
            self.coverage
                .insert("samples".into(), Value::Array(self.samples.clone()));
        }
        if !self.parts.is_empty() {
            self.coverage
                .insert("parts".into(), Value::Array(self.parts.clone()));
        }
        self.coverage.insert(
            "known_findings_matched".into(),
            json!(matched
                .iter()
                .map(|(s, _, n)| json!({"signature": s, "occurrences": n}))
                .collect::<Vec<_>>()),
        );
        self.coverage.insert(
            "unknown_violation_signatures".into(),
            json!(unknown.iter().map(|u| u.0.clone()).collect::<Vec<_>>()),
        );
        if !self.machinery_errors.is_empty() {
            self.coverage
                .insert("machinery_errors".into(), json!(self.machinery_errors));
        }
        let wall = self.start.elapsed().as_secs_f64();
        let ev = json!({
            "property_id": self.property,
            "tier": self.tier,
            "seed": self.seed,
            "level": self.level,
            "coverage": Value::Object(self.coverage.clone()),
            "assumptions": self.assumptions,
            "wall_s": (wall * 1000.0).round() / 1000.0,
            "violations": unknown.len(),
        });
        let edir = root.join("evidence");
        let _ = std::fs::create_dir_all(&edir);
        let epath = edir.join(format!("{}.json", self.property));
        if let Err(e) = std::fs::write(&epath, serde_json::to_string_pretty(&ev).unwrap()) {
            eprintln!("MACHINERY-ERROR cannot write {}: {e}", epath.display());
            return 2;
        }

        for (sig, what, n) in &matched {
            outln!(
                "KNOWN-FINDING: property={} {} [signature {} seen {}x]",
                self.property, what, sig, n
            );
        }
        if !self.machinery_errors.is_empty() {
            for m in &self.machinery_errors {
                outln!("MACHINERY-ERROR property={} {}", self.property, m);
            }
            return 2;
        }
        if unknown.is_empty() {
            outln!(
                "OK property={} tier={} wall={:.1}s {}",
                self.property,
                self.tier,
                wall,
                summarize(&self.coverage)
            );
            0
        } else {
            for (sig, v, _, n) in &unknown {
                outln!(
                    "VIOLATION property={} replay={} signature={} occurrences={} detail={}",
                    self.property,
                    replay_paths[sig].display(),
                    sig,
                    n,
                    v.detail.replace('\n', " ")
                );
            }
            1
        }
    }
}

fn summarize(c: &Map<String, Value>) -> String {
    let mut s = String::new();
    for k in [
        "states",
        "transitions",
        "evaluations",
        "distinct_nontrivial",
        "exhaustive",
    ] {
        if let Some(v) = c.get(k) {
            s.push_str(&format!("{k}={v} "));
        }
    }
    s
}

/// Parsed command line shared by all check binaries: `<ID> --tier quick|thorough [--replay file]`.
pub struct Args {
    pub id: String,
    pub tier: String,
    pub replay: Option<String>,
}

pub fn parse_args() -> Args {
    let mut a = std::env::args().skip(1);
    let id = a.next().unwrap_or_default();
    let mut tier = std::env::var("VERIF_TIER").unwrap_or_else(|_| "quick".into());
    let mut replay = None;
    while let Some(x) = a.next() {
        match x.as_str() {
            "--tier" => tier = a.next().unwrap_or_default(),
            "--replay" => replay = a.next(),
            _ => {}
        }
    }
    if tier != "quick" && tier != "thorough" {
        eprintln!("MACHINERY-ERROR unknown tier {tier}");
        std::process::exit(2);
    }
    Args { id, tier, replay }
}

pub fn load_replay(path: &str) -> Value {
    let text = std::fs::read_to_string(path).unwrap_or_else(|e| {
        eprintln!("MACHINERY-ERROR cannot read replay file {path}: {e}");
        std::process::exit(2)
    });
    serde_json::from_str(&text).unwrap_or_else(|e| {
        eprintln!("MACHINERY-ERROR replay file does not parse: {e}");
        std::process::exit(2)
    })
}
