//! Check binary for the property that needs elvis-core built with `compute_checksum`
//! (cargo unifies features per build, so this is its own binary).
//! Usage: vsum <ID> --tier quick|thorough [--replay file]

mod c18;

use vkit::report::{load_replay, parse_args, Report};

fn main() {
    let args = parse_args();
    vkit::install_panic_hook();
    rayon::ThreadPoolBuilder::new()
        .num_threads(vkit::threads())
        .stack_size(16 << 20)
        .build_global()
        .ok();
    if let Some(path) = &args.replay {
        let v = load_replay(path);
        let w = &v["witness"];
        let out = match args.id.as_str() {
            "C18" => c18::replay(w, &args.tier),
            other => format!("no replay for {other}"),
        };
        println!("{out}");
        return;
    }
    let code = match args.id.as_str() {
        "C18" => {
            let mut r = Report::new("C18", &args.tier, "exploration");
            c18::run(&mut r, &args.tier);
            r.finish()
        }
        other => {
            eprintln!("MACHINERY-ERROR unknown property {other}");
            2
        }
    };
    std::process::exit(code);
}
