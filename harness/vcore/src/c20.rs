//! C20 - Name resolution returns the registered address and caches it.

use crate::stack::{default_table, ip};
use elvis_core::{
    message::Message,
    protocol::{DemuxError, StartError},
    protocols::{
        dns::dns_parsing::DnsMessage,
        ipv4::{ipv4_parsing::Ipv4Header, Ipv4, Ipv4Address},
        udp::UdpHeader,
        Arp, DnsClient, DnsServer, Pci, SocketAPI, Udp,
    },
    run_internet_with_timeout, Control, Machine, Network, Protocol, Session, Shutdown,
};
use serde_json::json;
use std::{
    any::TypeId,
    sync::{Arc, Mutex},
    time::Duration,
};
use tokio::sync::Barrier;
use vkit::{
    sched::{self, Bounds, Scenario, KIND_FRAME},
    Report, Violation,
};

#[derive(Clone, Debug)]
pub struct DnsCfg {
    pub name: String,
    pub records: Vec<(String, [u8; 4])>,
    /// scripts[c] = indices into records, looked up one after the other by client c
    pub scripts: Vec<Vec<usize>>,
    pub arp: bool,
    /// frames may be held back (arbitrary reply order)
    pub delays: bool,
    /// every client starts all lookups of its script at the same time, each in its own task
    /// (the names of one script are distinct then)
    pub parallel: bool,
}

#[derive(Debug, Clone)]
struct Call {
    client: usize,
    step: usize,
    name: String,
    result: Result<[u8; 4], String>,
    frames_from_me_before: usize,
    frames_from_me_after: usize,
}

#[derive(Default)]
struct Book {
    calls: Mutex<Vec<Call>>,
    done: Mutex<usize>,
}

struct QueryApp {
    client: usize,
    cfg: DnsCfg,
    book: Arc<Book>,
    my_mac: u64,
}

fn frames_from(mac: u64) -> usize {
    sched::with_wire(|w| w.iter().filter(|f| f.sender == mac).count())
}

#[async_trait::async_trait]
impl Protocol for QueryApp {
    async fn start(&self, shutdown: Shutdown, initialized: Arc<Barrier>, machine: Arc<Machine>) -> Result<(), StartError> {
        initialized.wait().await;
        let dns = machine.protocol::<DnsClient>().unwrap();
        if self.cfg.parallel {
            let mut hs = vec![];
            for (step, ri) in self.cfg.scripts[self.client].iter().enumerate() {
                let name = self.cfg.records[*ri].0.clone();
                let (dns, machine, book, client) = (dns.clone(), machine.clone(), self.book.clone(), self.client);
                hs.push(tokio::spawn(async move {
                    let r = dns.get_host_by_name(name.clone(), machine.clone()).await;
                    book.calls.lock().unwrap().push(Call {
                        client,
                        step,
                        name,
                        result: r.map(|a| a.to_bytes()).map_err(|e| format!("{e:?}")),
                        frames_from_me_before: 0,
                        frames_from_me_after: 0,
                    });
                }));
            }
            for h in hs {
                let _ = h.await;
            }
        }
        for (step, ri) in self.cfg.scripts[self.client].iter().enumerate() {
            if self.cfg.parallel {
                break;
            }
            let name = self.cfg.records[*ri].0.clone();
            let before = frames_from(self.my_mac);
            let r = dns.get_host_by_name(name.clone(), machine.clone()).await;
            let after = frames_from(self.my_mac);
            self.book.calls.lock().unwrap().push(Call {
                client: self.client,
                step,
                name,
                result: r.map(|a| a.to_bytes()).map_err(|e| format!("{e:?}")),
                frames_from_me_before: before,
                frames_from_me_after: after,
            });
        }
        let mut d = self.book.done.lock().unwrap();
        *d += 1;
        if *d == self.cfg.scripts.len() {
            shutdown.shut_down();
        }
        Ok(())
    }
    fn demux(&self, _m: Message, _c: Arc<dyn Session>, _ctl: Control, _mach: Arc<Machine>) -> Result<(), DemuxError> {
        Ok(())
    }
}

pub struct DnsSc(pub DnsCfg);

#[derive(Debug, Hash)]
pub struct DnsObs {
    status: String,
    results: Vec<(usize, usize, Result<[u8; 4], String>)>,
    dns_frames: usize,
}

fn parse_dns(bytes: &[u8]) -> Option<(Ipv4Header, UdpHeader, DnsMessage)> {
    let ih = Ipv4Header::from_bytes(bytes.iter().cloned()).ok()?;
    if ih.protocol != 17 || bytes.len() < 28 {
        return None;
    }
    let body = &bytes[20..];
    let uh = UdpHeader::from_bytes_ipv4(body.iter().cloned(), body.len(), ih.source, ih.destination).ok()?;
    let m = DnsMessage::from_bytes(body[8..].iter().cloned()).ok()?;
    Some((ih, uh, m))
}

impl Scenario for DnsSc {
    type Obs = DnsObs;
    fn name(&self) -> String {
        self.0.name.clone()
    }
    fn run(&self) -> (DnsObs, Vec<Violation>) {
        let cfg = self.0.clone();
        sched::install_rand(vec![], (0..32).map(|i| 0x1111u16.wrapping_mul(i + 1)).collect());
        let net = Network::basic();
        sched::register_networks(&[&net]);
        let delays = cfg.delays;
        sched::install_wire_hooks(move |_| {
            if delays && sched::choose(KIND_FRAME, 2) == 1 {
                elvis_core::verif::Verdict::Delay(Duration::from_millis(4))
            } else {
                elvis_core::verif::Verdict::Deliver
            }
        });
        let book = Arc::new(Book::default());
        let n_queries: usize = {
            // every distinct (client, name) pair produces one query; repeats are cache hits
            let mut n = 0;
            for s in &cfg.scripts {
                let mut seen = vec![];
                for r in s {
                    if !seen.contains(r) {
                        seen.push(*r);
                        n += 1;
                    }
                }
            }
            n
        };
        let server = DnsServer::new(n_queries as u16);
        for (n, a) in &cfg.records {
            server.add_mapping(n.clone(), Ipv4Address::new(*a));
        }
        let mk = |pci: Pci, ipaddr: Ipv4Address| {
            let m = Machine::new()
                .with(Udp::new())
                .with(Ipv4::new(default_table()))
                .with(pci)
                .with(SocketAPI::new(Some(ipaddr)));
            if cfg.arp {
                m.with(Arp::new())
            } else {
                m
            }
        };
        let mut machines = vec![mk(Pci::new([net.clone()]), Ipv4Address::DNS_AUTH).with(server).arc()];
        for c in 0..cfg.scripts.len() {
            let pci = Pci::new([net.clone()]);
            let mac = pci.mac_addresses().next().unwrap();
            machines.push(
                mk(pci, ip(20 + c as u8))
                    .with(DnsClient::new())
                    .with(QueryApp {
                        client: c,
                        cfg: cfg.clone(),
                        book: book.clone(),
                        my_mac: mac,
                    })
                    .arc(),
            );
        }
        sched::register_machines(&machines);
        let status = sched::block_on_paused_send(async move {
            sched::start_clock();
            run_internet_with_timeout(&machines, Duration::from_millis(3000)).await
        });
        let status = match status {
            Ok(s) => format!("{s:?}"),
            Err(e) => e,
        };
        let calls = book.calls.lock().unwrap().clone();
        let wire = sched::take_wire();
        let mut viols = vec![];
        let expected_calls: usize = cfg.scripts.iter().map(|s| s.len()).sum();
        if calls.len() != expected_calls {
            viols.push(Violation::new(
                "returns-registered-address",
                "DnsClient::get_host_by_name",
                "lookup-did-not-return",
                format!("{} of {expected_calls} lookups returned (status {status})", calls.len()),
            ));
        }
        for c in &calls {
            let want = cfg.records.iter().find(|r| r.0 == c.name).map(|r| r.1).unwrap();
            match &c.result {
                Ok(a) if *a == want => {}
                Ok(a) => viols.push(Violation::new(
                    "returns-registered-address",
                    "DnsClient::get_host_by_name",
                    if cfg.records.iter().any(|r| r.1 == *a) { "address-of-another-name" } else { "unregistered-address" },
                    format!("client {} lookup #{} of {:?} returned {:?}, registered is {:?}", c.client, c.step, c.name, a, want),
                )),
                Err(e) => viols.push(Violation::new(
                    "returns-registered-address",
                    "DnsClient::get_host_by_name",
                    "lookup-failed",
                    format!("client {} lookup #{} of {:?} failed: {e}", c.client, c.step, c.name),
                )),
            }
            // cache: a repeated lookup of a resolved name puts nothing on the wire
            let earlier = calls.iter().any(|o| o.client == c.client && o.step < c.step && o.name == c.name && o.result.is_ok());
            if earlier && c.frames_from_me_after != c.frames_from_me_before {
                viols.push(Violation::new(
                    "cached-lookup-is-silent",
                    "DnsClient::get_host_by_name",
                    "frames-during-cached-lookup",
                    format!("client {} repeated lookup of {:?}: {} frames left the machine during the call", c.client, c.name, c.frames_from_me_after - c.frames_from_me_before),
                ));
            }
        }
        // every query has a reply to the same endpoint echoing id and name
        let ip_type = TypeId::of::<Ipv4>();
        let dns: Vec<_> = wire
            .iter()
            .filter(|f| f.protocol == ip_type && !f.is_duplicate)
            .filter_map(|f| parse_dns(&f.bytes))
            .collect();
        let queries: Vec<_> = dns.iter().filter(|(_, u, _)| u.destination == 53).collect();
        let replies: Vec<_> = dns.iter().filter(|(_, u, _)| u.source == 53).collect();
        for (qi, qu, qm) in &queries {
            let hit = replies.iter().any(|(ri, ru, rm)| {
                ri.destination == qi.source && ru.destination == qu.source && rm.header.id == qm.header.id && rm.question.qname == qm.question.qname
            });
            if !hit && status == "Exited" {
                let same_ep = replies.iter().find(|(ri, ru, _)| ri.destination == qi.source && ru.destination == qu.source);
                viols.push(Violation::new(
                    "reply-echoes-query",
                    "DnsServer::respond_to_query",
                    match same_ep {
                        Some((_, _, rm)) if rm.header.id != qm.header.id => "reply-id-differs",
                        Some(_) => "reply-name-differs",
                        None => "no-reply-to-the-querying-endpoint",
                    },
                    format!("query id {} name {:?} from {}:{}", qm.header.id, String::from_utf8_lossy(&qm.question.qname), qi.source, qu.source),
                ));
            }
        }
        let mut results: Vec<_> = calls.iter().map(|c| (c.client, c.step, c.result.clone())).collect();
        results.sort();
        (
            DnsObs {
                status,
                results,
                dns_frames: dns.len(),
            },
            viols,
        )
    }
}

pub fn cfgs(tier: &str) -> Vec<(DnsCfg, Bounds)> {
    let q = tier == "quick";
    let wall = Duration::from_secs(if q { 150 } else { 900 });
    let printable: String = (33u8..127).map(|b| b as char).collect();
    let n24 = "abcdefghijklmnopqrstuvwx".to_string();
    let n25 = "abcdefghijklmnopqrstuvwxy".to_string();
    let mut v = vec![];
    let mut add = |name: &str, records: Vec<(String, [u8; 4])>, scripts: Vec<Vec<usize>>, arp: bool, delays: bool, d: usize| {
        v.push((
            DnsCfg {
                name: name.into(),
                records,
                scripts,
                arp,
                delays,
                parallel: name.starts_with("lookups in flight together"),
            },
            Bounds::new(d).cap(KIND_FRAME, 2).wall(wall),
        ));
    };
    let d = if q { 1 } else { 2 };
    add("1 client: a, a (cached)", vec![("a".into(), [9, 9, 9, 9])], vec![vec![0, 0]], true, false, if q { 2 } else { 3 });
    add(
        "2 clients, 2 names, crossing lookups, delayed frames",
        vec![("a".into(), [0, 0, 0, 0]), ("example.org".into(), [255, 255, 255, 255])],
        vec![vec![0, 1, 0], vec![1, 0]],
        false,
        true,
        d,
    );
    add(
        "name of every printable character, and a 24-byte name",
        vec![(printable.clone(), [1, 2, 3, 4]), (n24.clone(), [5, 6, 7, 8])],
        vec![vec![0, 1, 1]],
        false,
        false,
        d,
    );
    add(
        "two names that differ only in letter case, resolved one after the other by one client",
        vec![("Mail.Example".into(), [10, 9, 8, 1]), ("mail.example".into(), [10, 9, 8, 2]), ("MAIL.EXAMPLE".into(), [10, 9, 8, 3])],
        vec![vec![0, 1, 2, 1], vec![1, 0]],
        false,
        false,
        1,
    );
    add(
        "non-ASCII names: a name with a two-byte character, and the name its UTF-8 bytes spell in Latin-1",
        vec![("b\u{fc}cher.example".into(), [10, 3, 0, 1]), ("b\u{c3}\u{bc}cher.example".into(), [10, 3, 0, 2])],
        vec![vec![0, 0, 1, 1, 0], vec![1, 0]],
        false,
        false,
        1,
    );
    add(
        "names that differ only in leading or trailing punctuation (a dot, two dots, a hyphen), one after the other",
        vec![
            ("printer".into(), [10, 4, 0, 1]),
            ("printer.".into(), [10, 4, 0, 2]),
            (".printer".into(), [10, 4, 0, 3]),
            ("printer..".into(), [10, 4, 0, 4]),
            ("printer-".into(), [10, 4, 0, 5]),
        ],
        vec![vec![1, 0, 3, 2, 4, 1], vec![0, 1]],
        false,
        false,
        1,
    );
    add(
        "lookups in flight together: one client starts three lookups at once (ARP still unresolved), another two",
        vec![("a".into(), [1, 1, 1, 1]), ("bb".into(), [2, 2, 2, 2]), ("example.org".into(), [3, 3, 3, 3])],
        vec![vec![0, 1, 2], vec![2, 0]],
        true,
        true,
        1,
    );
    add("25-byte name (query longer than 80 bytes)", vec![(n25.clone(), [7, 7, 7, 7])], vec![vec![0, 0]], false, false, 1);
    if !q {
        add(
            "3 clients, 3 names, concurrent, delayed frames, arp",
            vec![("a".into(), [1, 1, 1, 1]), ("bb".into(), [2, 2, 2, 2]), ("example.org".into(), [3, 3, 3, 3])],
            vec![vec![0, 1], vec![1, 2], vec![2, 0, 2]],
            true,
            true,
            1,
        );
    }
    v
}

pub fn run(report: &mut Report, tier: &str) {
    report.assume("the authoritative server is configured for exactly as many connections as there are distinct (client, name) lookups, so that it ends by itself");
    for (cfg, b) in cfgs(tier) {
        sched::run_into(&DnsSc(cfg), &b, report);
    }
    report.set("exhaustive", json!(true));
    report.set("rule", json!("per record set and client scripts, every execution within d deviations (task order, select branch, frames held back 4 ms so replies arrive in arbitrary order) on the real DnsClient/DnsServer over the socket stack"));
}

pub fn replay(w: &serde_json::Value, tier: &str) -> String {
    let name = w["scenario"].as_str().unwrap_or("");
    let ch: Vec<u16> = w["choices"]
        .as_array()
        .map(|a| a.iter().map(|x| x.as_u64().unwrap() as u16).collect())
        .unwrap_or_default();
    for t in ["quick", "thorough", tier] {
        for (c, _) in cfgs(t) {
            if c.name == name {
                return sched::replay(&DnsSc(c), &ch);
            }
        }
    }
    format!("unknown scenario {name}")
}
