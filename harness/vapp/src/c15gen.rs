//! C15 (generator part) - address allocation never hands the same address to two holders.
//!
//! Real code under test: `elvis::ip_generator::IpGenerator` (new, new_sub, new_sub_no_ends, all,
//! fetch_ip, fetch_net, return_ip, return_subnet, block_subnet).
//!
//! * E3 parts: every constructor case; the set of addresses the fresh generator offers (clone it
//!   and call `fetch_ip` until `None`) must be exactly the stated pool.
//! * E1 models: breadth-first search over one real generator living in a small address window.
//!   Reference = two bit sets (available, held). Every transition runs the real operation, checks
//!   what it returned against the reference, and then checks that the set the generator can still
//!   offer equals the reference's `available`.

use elvis::ip_generator::{IpGenerator, IpRange};
use elvis_core::protocols::{
    arp::subnetting::{Ipv4Mask, Ipv4Net},
    ipv4::Ipv4Address,
};
use serde_json::{json, Value};
use std::{collections::HashSet, sync::Mutex, time::Duration};
use vkit::{
    enumerate::{self, CaseOutcome, Product},
    key128,
    search::{self, Limits, Model},
    Report, Violation,
};

// ---------------------------------------------------------------------------------------------
// small helpers

fn ip(a: u32) -> Ipv4Address {
    Ipv4Address::from(a)
}
fn dotted(a: u32) -> String {
    ip(a).to_string()
}
fn mask(prefix: u8) -> Ipv4Mask {
    Ipv4Mask::from_bitcount(prefix as u32)
}
fn net(id: u32, prefix: u8) -> Ipv4Net {
    Ipv4Net::new(ip(id), mask(prefix))
}
/// Number of addresses in a /prefix block.
fn size(prefix: u8) -> u64 {
    1u64 << (32 - prefix as u32)
}
fn cidr(id: u32, prefix: u8) -> String {
    format!("{}/{}", dotted(id), prefix)
}
/// Renders a sorted address list as ranges.
fn ranges(v: &[u32]) -> String {
    if v.is_empty() {
        return "{}".into();
    }
    let mut out = vec![];
    let mut i = 0;
    while i < v.len() {
        let mut j = i;
        while j + 1 < v.len() && v[j + 1] as u64 == v[j] as u64 + 1 {
            j += 1;
        }
        if i == j {
            out.push(dotted(v[i]));
        } else {
            out.push(format!("{}-{}", dotted(v[i]), dotted(v[j])));
        }
        i = j + 1;
    }
    format!("{{{}}}", out.join(","))
}
/// The ranges the real generator stores, read off its Debug text (the field is private): every
/// `[a, b, c, d]` is an address, and they come in (start, end) pairs.
fn stored_ranges(g: &IpGenerator) -> Option<Vec<(u32, u32)>> {
    let t = format!("{g:?}");
    let mut addrs = vec![];
    let mut rest = t.as_str();
    while let Some(i) = rest.find('[') {
        let j = rest[i..].find(']')?;
        let mut a = 0u32;
        let mut n = 0;
        for part in rest[i + 1..i + j].split(", ") {
            a = (a << 8) | part.trim().parse::<u8>().ok()? as u32;
            n += 1;
        }
        if n != 4 {
            return None;
        }
        addrs.push(a);
        rest = &rest[i + j + 1..];
    }
    if addrs.len() % 2 != 0 {
        return None;
    }
    Some(addrs.chunks(2).map(|c| (c[0], c[1])).collect())
}

/// The real generator's free list, compactly.
fn gen_text(g: &IpGenerator) -> String {
    match stored_ranges(g) {
        Some(r) => format!(
            "free-list [{}]",
            r.iter()
                .map(|(a, b)| format!("{}..={}", dotted(*a), dotted(*b)))
                .collect::<Vec<_>>()
                .join(", ")
        ),
        None => format!("{g:?}"),
    }
}

const S_NEW: &str = "IpGenerator::new";
const S_NEW_SUB: &str = "IpGenerator::new_sub";
const S_NO_ENDS: &str = "IpGenerator::new_sub_no_ends";
const S_ALL: &str = "IpGenerator::all";
const S_FETCH_IP: &str = "IpGenerator::fetch_ip";
const S_FETCH_NET: &str = "IpGenerator::fetch_net";
const S_RETURN_IP: &str = "IpGenerator::return_ip";
const S_RETURN_SUBNET: &str = "IpGenerator::return_subnet";
const S_BLOCK: &str = "IpGenerator::block_subnet";

fn is_ctor(site: &str) -> bool {
    matches!(site, S_NEW | S_NEW_SUB | S_NO_ENDS | S_ALL)
}

/// Everything the generator can still hand out, in the order it would: clone, `fetch_ip` until
/// `None` (at most `cap` times; a correct generator needs |pool| + 1 calls).
fn drain(g: &IpGenerator, cap: usize) -> Result<Vec<u32>, Violation> {
    let mut c = g.clone();
    let mut out = Vec::new();
    for _ in 0..cap {
        match vkit::catch(|| c.fetch_ip()) {
            Ok(Some(a)) => out.push(a.to_u32()),
            Ok(None) => break,
            Err(p) => return Err(Violation::panic(S_FETCH_IP, &p)),
        }
    }
    Ok(out)
}

/// (O-offer) the set the generator offers is exactly `expected` (sorted). `held` (sorted) only
/// refines the classification of a surplus address.
fn compare_offer(
    site: &str,
    expected: &[u32],
    held: &[u32],
    drained: &[u32],
    context: &str,
) -> Option<Violation> {
    let mut d = drained.to_vec();
    d.sort_unstable();
    if let Some(w) = d.windows(2).find(|w| w[0] == w[1]) {
        return Some(Violation::new(
            "offered-set",
            site,
            "address-offered-twice",
            format!(
                "{context}: draining a clone with fetch_ip produced {} twice (sequence {:?})",
                dotted(w[0]),
                drained.iter().take(20).map(|a| dotted(*a)).collect::<Vec<_>>()
            ),
        ));
    }
    let extra: Vec<u32> = d
        .iter()
        .copied()
        .filter(|a| expected.binary_search(a).is_err())
        .collect();
    let missing: Vec<u32> = expected
        .iter()
        .copied()
        .filter(|a| d.binary_search(a).is_err())
        .collect();
    let show = |v: &[u32]| {
        if v.len() > 64 && v[v.len() - 1] as u64 - v[0] as u64 == v.len() as u64 - 1 {
            format!("{{{}-{}}}", dotted(v[0]), dotted(v[v.len() - 1]))
        } else if v.len() > 64 {
            format!("{} and {} more", ranges(&v[..64]), v.len() - 64)
        } else {
            ranges(v)
        }
    };
    if !extra.is_empty() {
        let extra_held: Vec<u32> = extra
            .iter()
            .copied()
            .filter(|a| held.binary_search(a).is_ok())
            .collect();
        let disc = if is_ctor(site) {
            "constructor-offers-address-outside-pool"
        } else if !extra_held.is_empty() {
            "held-address-offered"
        } else {
            "unavailable-address-offered"
        };
        return Some(Violation::new(
            "offered-set",
            site,
            disc,
            format!(
                "{context}: generator offers {} which the reference does not have available (of these held: {}); expected offer {} got {}",
                show(&extra),
                show(&extra_held),
                show(expected),
                show(&d)
            ),
        ));
    }
    if !missing.is_empty() {
        let disc = if is_ctor(site) {
            "constructor-omits-pool-address"
        } else {
            "available-address-not-offered"
        };
        return Some(Violation::new(
            "offered-set",
            site,
            disc,
            format!(
                "{context}: generator never offers {} ({} addresses); expected offer {} got {}",
                show(&missing),
                missing.len(),
                show(expected),
                show(&d)
            ),
        ));
    }
    None
}

// ---------------------------------------------------------------------------------------------
// E3: constructors

const BASES16: [u32; 3] = [0x0a00_0000, 0x0000_0000, 0xffff_fff0];
const CTOR_NEW: &str = "ctor-new ranges in 16-address windows";

fn ctor_new_product() -> Product {
    Product::new(&[BASES16.len(), 16, 16])
}

fn ctor_new_case(i: u64) -> (u32, u32) {
    let d = ctor_new_product().decode(i);
    (BASES16[d[0]] + d[1] as u32, BASES16[d[0]] + d[2] as u32)
}

fn ctor_new_run(i: u64) -> CaseOutcome {
    let (a, b) = ctor_new_case(i);
    let g = match vkit::catch(|| IpGenerator::new(IpRange::new(ip(a), ip(b)))) {
        Ok(g) => g,
        Err(p) => return CaseOutcome::bad(Violation::panic(S_NEW, &p)),
    };
    if a > b {
        // not a well-formed range: outside the value domain, only "does not panic"
        return match drain(&g, 20) {
            Ok(_) => CaseOutcome::ok(None),
            Err(v) => CaseOutcome::bad(v),
        };
    }
    let expected: Vec<u32> = (a..=b).collect();
    let got = match drain(&g, expected.len() + 4) {
        Ok(v) => v,
        Err(v) => return CaseOutcome::bad(v),
    };
    let ctx = format!("new(IpRange {}..={})", dotted(a), dotted(b));
    match compare_offer(S_NEW, &expected, &[], &got, &ctx) {
        Some(v) => CaseOutcome::bad(v),
        None => CaseOutcome::ok(Some(key128(&(a, b)) as u64)),
    }
}

fn ctor_new_describe(i: u64) -> Value {
    let (a, b) = ctor_new_case(i);
    json!({"constructor": "new", "start": dotted(a), "end": dotted(b), "well_formed": a <= b})
}

const SUB_IPS: [u32; 7] = [
    0x0a00_0000, // 10.0.0.0
    0x0a00_004d, // 10.0.0.77 (not a network id: Ipv4Net::new masks it)
    0x0000_0000, // 0.0.0.0
    0x0000_0001,
    0xffff_ffff, // 255.255.255.255
    0xffff_fffe,
    0xc0a8_0180, // 192.168.1.128
];

fn sub_masks(tier: &str) -> Vec<u8> {
    // longest mask first, so that the smallest failing index is the smallest failing pool
    if tier == "quick" {
        (24..=32).rev().collect()
    } else {
        (12..=32).rev().collect()
    }
}
fn ctor_sub_name(tier: &str) -> String {
    let m = sub_masks(tier);
    format!(
        "ctor-sub new_sub/new_sub_no_ends masks {}..={}",
        m[m.len() - 1],
        m[0]
    )
}
fn ctor_sub_product(tier: &str) -> Product {
    Product::new(&[2, SUB_IPS.len(), sub_masks(tier).len()])
}
/// (no_ends, network id, prefix, address given to Ipv4Net::new)
fn ctor_sub_case(tier: &str, i: u64) -> (bool, u32, u8, u32) {
    let d = ctor_sub_product(tier).decode(i);
    let p = sub_masks(tier)[d[2]];
    let given = SUB_IPS[d[1]];
    let id = ((given as u64) & !(size(p) - 1)) as u32;
    (d[0] == 1, id, p, given)
}
/// The stated pool: the whole subnet, or the subnet minus its two ends.
fn ctor_sub_expected(no_ends: bool, id: u32, p: u8) -> Vec<u32> {
    let lo = id as u64;
    let hi = lo + size(p) - 1;
    if no_ends {
        ((lo + 1)..hi).map(|a| a as u32).collect()
    } else {
        (lo..=hi).map(|a| a as u32).collect()
    }
}
fn ctor_sub_run(tier: &str, i: u64) -> CaseOutcome {
    let (no_ends, id, p, given) = ctor_sub_case(tier, i);
    let site = if no_ends { S_NO_ENDS } else { S_NEW_SUB };
    let n = net(given, p);
    let g = match vkit::catch(|| {
        if no_ends {
            IpGenerator::new_sub_no_ends(n)
        } else {
            IpGenerator::new_sub(n)
        }
    }) {
        Ok(g) => g,
        Err(p) => return CaseOutcome::bad(Violation::panic(site, &p)),
    };
    let expected = ctor_sub_expected(no_ends, id, p);
    let got = match drain(&g, expected.len() + 4) {
        Ok(v) => v,
        Err(v) => return CaseOutcome::bad(v),
    };
    let ctx = format!(
        "{}(Ipv4Net::new({}, /{})) = net {}",
        if no_ends { "new_sub_no_ends" } else { "new_sub" },
        dotted(given),
        p,
        cidr(id, p)
    );
    match compare_offer(site, &expected, &[], &got, &ctx) {
        Some(v) => CaseOutcome::bad(v),
        None if expected.is_empty() => CaseOutcome::ok(None),
        None => CaseOutcome::ok(Some(key128(&(no_ends, id, p)) as u64)),
    }
}
fn ctor_sub_describe(tier: &str, i: u64) -> Value {
    let (no_ends, id, p, given) = ctor_sub_case(tier, i);
    let e = ctor_sub_expected(no_ends, id, p);
    json!({
        "constructor": if no_ends { "new_sub_no_ends" } else { "new_sub" },
        "net": cidr(id, p), "address_given": dotted(given),
        "expected_pool": if e.is_empty() { "{}".to_string() } else { format!("{}..={} ({} addresses)", dotted(e[0]), dotted(e[e.len()-1]), e.len()) },
    })
}

// ---------------------------------------------------------------------------------------------
// E1: one real generator in a window of `width` <= 16 addresses starting at `base`

#[derive(Clone, PartialEq, Eq)]
pub enum Op {
    FetchIp,
    FetchNet(u8),
    ReturnIp(u32),
    ReturnSubnet(u32, u8),
    Block(u32, u8),
}

impl std::fmt::Debug for Op {
    fn fmt(&self, f: &mut std::fmt::Formatter<'_>) -> std::fmt::Result {
        match self {
            Op::FetchIp => write!(f, "fetch_ip()"),
            Op::FetchNet(p) => write!(f, "fetch_net(/{p})"),
            Op::ReturnIp(a) => write!(f, "return_ip({})", dotted(*a)),
            Op::ReturnSubnet(a, p) => write!(f, "return_subnet({})", cidr(*a, *p)),
            Op::Block(a, p) => write!(f, "block_subnet({})", cidr(*a, *p)),
        }
    }
}

#[derive(Clone)]
pub struct St {
    gen: IpGenerator,
    /// reference: bit i = address base+i can be handed out
    avail: u16,
    /// reference: bit i = address base+i is with a holder
    held: u16,
    /// `Some((site, text))` for initial states: which constructor made it
    init: Option<(&'static str, String)>,
    /// an initial state whose constructor panicked: (entry point, panic)
    ctor_panic: Option<(&'static str, vkit::PanicInfo)>,
}

pub struct GenModel {
    pub base: u32,
    pub width: u32,
    pub name: String,
    /// keys of the distinct non-trivial states seen (sharded)
    nontrivial: Vec<Mutex<HashSet<u128>>>,
}

const FETCH_PREFIXES: [u8; 7] = [0, 27, 28, 29, 30, 31, 32];

impl GenModel {
    pub fn new(base: u32, width: u32, bound: &str) -> Self {
        assert!((1..=16).contains(&width) && base as u64 + width as u64 <= 1 << 32);
        Self {
            base,
            width,
            name: format!("G window {}+{} {}", dotted(base), width, bound),
            nontrivial: (0..64).map(|_| Mutex::new(HashSet::new())).collect(),
        }
    }
    pub fn nontrivial_states(&self) -> u64 {
        self.nontrivial.iter().map(|m| m.lock().unwrap().len() as u64).sum()
    }
    fn top(&self) -> u64 {
        self.base as u64 + self.width as u64 - 1
    }
    fn addrs(&self, m: u16) -> Vec<u32> {
        (0..self.width)
            .filter(|i| m >> i & 1 == 1)
            .map(|i| self.base + i)
            .collect()
    }
    /// Bits of the window covered by the inclusive address range lo..=hi, and whether the range
    /// also has addresses outside the window.
    fn bits(&self, lo: u64, hi: u64) -> (u16, bool) {
        let (b, t) = (self.base as u64, self.top());
        let outside = lo < b || hi > t;
        let (l, h) = (lo.max(b), hi.min(t));
        if l > h {
            return (0, outside);
        }
        let n = h - l + 1;
        let m = (((1u32 << n) - 1) << (l - b)) as u16;
        (m, outside)
    }
    /// All aligned blocks (/28 .. /32) lying wholly inside the window, big ones first.
    fn blocks(&self) -> Vec<(u32, u8)> {
        let mut v = vec![];
        for p in 28..=32u8 {
            let s = size(p);
            let mut id = (self.base as u64).div_ceil(s) * s;
            while id + s - 1 <= self.top() {
                v.push((id as u32, p));
                id += s;
            }
        }
        v
    }
    /// Aligned blocks covering exactly the complement of the window.
    fn complement(&self) -> Vec<(u32, u8)> {
        let mut v = vec![];
        let mut cover = |mut lo: u64, hi: u64| {
            // standard CIDR cover of lo..=hi
            while lo <= hi {
                let mut p = 32u8;
                while p > 0 && lo % size(p - 1) == 0 && lo + size(p - 1) - 1 <= hi {
                    p -= 1;
                }
                v.push((lo as u32, p));
                lo += size(p);
            }
        };
        if self.base > 0 {
            cover(0, self.base as u64 - 1);
        }
        if self.top() < u32::MAX as u64 {
            cover(self.top() + 1, u32::MAX as u64);
        }
        v
    }

    fn offered(&self, site: &str, n: &St, ctx: &str) -> Result<(), Violation> {
        let got = drain(&n.gen, self.width as usize + 3)?;
        match compare_offer(site, &self.addrs(n.avail), &self.addrs(n.held), &got, ctx) {
            Some(v) => Err(v),
            None => Ok(()),
        }
    }

    /// (O-fetch) checks what a fetch returned and updates the reference.
    fn after_fetch(
        &self,
        site: &str,
        want: u8,
        got: Option<(u32, u8)>,
        n: &mut St,
    ) -> Result<(), Violation> {
        let call = if site == S_FETCH_IP {
            "fetch_ip()".to_string()
        } else {
            format!("fetch_net(/{want})")
        };
        let refstate = format!(
            "reference available {} held {}",
            ranges(&self.addrs(n.avail)),
            ranges(&self.addrs(n.held))
        );
        match got {
            Some((id, p)) => {
                if p != want {
                    return Err(Violation::new(
                        "fetch",
                        site,
                        "wrong-mask",
                        format!("{call} returned {}; {refstate}", cidr(id, p)),
                    ));
                }
                if id as u64 % size(p) != 0 {
                    return Err(Violation::new(
                        "fetch",
                        site,
                        "unaligned-block",
                        format!("{call} returned {}; {refstate}", cidr(id, p)),
                    ));
                }
                let (m, outside) = self.bits(id as u64, id as u64 + size(p) - 1);
                if m & n.held != 0 {
                    return Err(Violation::new(
                        "fetch",
                        site,
                        "handed-out-held-address",
                        format!(
                            "{call} returned {} which overlaps the held addresses {}; {refstate}",
                            cidr(id, p),
                            ranges(&self.addrs(m & n.held))
                        ),
                    ));
                }
                if outside || m & !n.avail != 0 {
                    return Err(Violation::new(
                        "fetch",
                        site,
                        "handed-out-unavailable-address",
                        format!(
                            "{call} returned {} which contains addresses that are blocked or outside the pool; {refstate}",
                            cidr(id, p)
                        ),
                    ));
                }
                n.avail &= !m;
                n.held |= m;
                Ok(())
            }
            None => {
                // is there an aligned block of that size wholly available?
                let s = size(want);
                if s > 16 {
                    return Ok(()); // larger than any window: None is the only right answer
                }
                let mut id = (self.base as u64).div_ceil(s) * s;
                while id + s - 1 <= self.top() {
                    let (m, _) = self.bits(id, id + s - 1);
                    if m & n.avail == m {
                        if want == 32 {
                            return Err(Violation::new(
                                "exhaustion",
                                site,
                                "none-despite-free-address",
                                format!("{call} returned None; {refstate}"),
                            ));
                        }
                        // Is the free block inside one range of the real free list, or is it
                        // split across several stored ranges (returned piecewise, never merged)?
                        let (lo, hi) = (id as u32, (id + s - 1) as u32);
                        let disc = match stored_ranges(&n.gen) {
                            Some(r) if !r.iter().any(|(a, b)| *a <= lo && hi <= *b) => {
                                "none-despite-free-aligned-block-fragmented-free-list"
                            }
                            _ => "none-despite-free-aligned-block",
                        };
                        return Err(Violation::new(
                            "exhaustion",
                            site,
                            disc,
                            format!(
                                "{call} returned None although every address of {} is available; {refstate}; {}",
                                cidr(id as u32, want),
                                gen_text(&n.gen)
                            ),
                        ));
                    }
                    id += s;
                }
                Ok(())
            }
        }
    }
}

impl Model for GenModel {
    type State = St;
    type Action = Op;

    fn name(&self) -> String {
        self.name.clone()
    }

    fn init(&self) -> Vec<St> {
        // A constructor that panics still gets its slot (witness paths index this list): an empty
        // generator with an empty reference, and `check` reports the panic.
        let make = |site: &'static str,
                    entry: &'static str,
                    text: String,
                    avail: u16,
                    f: &dyn Fn() -> IpGenerator| match vkit::catch(f) {
            Ok(gen) => St {
                gen,
                avail,
                held: 0,
                init: Some((site, text)),
                ctor_panic: None,
            },
            Err(p) => St {
                gen: IpGenerator::none(),
                avail: 0,
                held: 0,
                init: Some((site, text)),
                ctor_panic: Some((entry, p)),
            },
        };
        let mut v = vec![];
        // every non-empty sub-range of the window
        for a in 0..self.width {
            for b in a..self.width {
                let (lo, hi) = (self.base + a, self.base + b);
                v.push(make(
                    S_NEW,
                    S_NEW,
                    format!("new({}..={})", dotted(lo), dotted(hi)),
                    self.bits(lo as u64, hi as u64).0,
                    &|| IpGenerator::new(IpRange::new(ip(lo), ip(hi))),
                ));
            }
        }
        // every subnet inside the window
        for (id, p) in self.blocks() {
            v.push(make(
                S_NEW_SUB,
                S_NEW_SUB,
                format!("new_sub({})", cidr(id, p)),
                self.bits(id as u64, id as u64 + size(p) - 1).0,
                &|| IpGenerator::new_sub(net(id, p)),
            ));
        }
        // the whole address space with everything but the window blocked
        let comp = self.complement();
        v.push(make(
            S_ALL,
            S_BLOCK,
            format!(
                "all() then block_subnet of the {} blocks covering the complement of the window",
                comp.len()
            ),
            self.bits(self.base as u64, self.top()).0,
            &|| {
                let mut g = IpGenerator::all();
                for (id, p) in &comp {
                    g.block_subnet(net(*id, *p));
                }
                g
            },
        ));
        v
    }

    fn actions(&self, s: &St) -> Vec<Op> {
        let mut v = vec![Op::FetchIp];
        for p in FETCH_PREFIXES {
            v.push(Op::FetchNet(p));
        }
        for a in self.addrs(s.held) {
            v.push(Op::ReturnIp(a));
        }
        let blocks = self.blocks();
        for &(id, p) in &blocks {
            let (m, _) = self.bits(id as u64, id as u64 + size(p) - 1);
            if p < 32 && m & s.held == m {
                v.push(Op::ReturnSubnet(id, p));
            }
        }
        // blocking is only modelled for blocks no holder is in (the statement does not say
        // whether a block placed on a held address outlives its return)
        for &(id, p) in &blocks {
            let (m, _) = self.bits(id as u64, id as u64 + size(p) - 1);
            if m & s.held == 0 {
                v.push(Op::Block(id, p));
            }
        }
        if s.held == 0 {
            v.push(Op::Block(((self.base as u64) & !(size(27) - 1)) as u32, 27));
            v.push(Op::Block(0, 0));
        }
        v
    }

    fn step(&self, s: &St, a: &Op) -> Result<St, Violation> {
        let mut n = s.clone();
        n.init = None;
        n.ctor_panic = None;
        let site = match a {
            Op::FetchIp => {
                let r = vkit::catch(|| n.gen.fetch_ip())
                    .map_err(|p| Violation::panic(S_FETCH_IP, &p))?;
                self.after_fetch(S_FETCH_IP, 32, r.map(|a| (a.to_u32(), 32)), &mut n)?;
                S_FETCH_IP
            }
            Op::FetchNet(p) => {
                let r = vkit::catch(|| n.gen.fetch_net(mask(*p)))
                    .map_err(|p| Violation::panic(S_FETCH_NET, &p))?;
                self.after_fetch(
                    S_FETCH_NET,
                    *p,
                    r.map(|x| (x.id().to_u32(), x.mask().count_ones() as u8)),
                    &mut n,
                )?;
                S_FETCH_NET
            }
            Op::ReturnIp(x) => {
                vkit::catch(|| n.gen.return_ip(ip(*x)))
                    .map_err(|p| Violation::panic(S_RETURN_IP, &p))?;
                let (m, _) = self.bits(*x as u64, *x as u64);
                n.held &= !m;
                n.avail |= m;
                S_RETURN_IP
            }
            Op::ReturnSubnet(id, p) => {
                vkit::catch(|| n.gen.return_subnet(net(*id, *p)))
                    .map_err(|p| Violation::panic(S_RETURN_SUBNET, &p))?;
                let (m, _) = self.bits(*id as u64, *id as u64 + size(*p) - 1);
                n.held &= !m;
                n.avail |= m;
                S_RETURN_SUBNET
            }
            Op::Block(id, p) => {
                vkit::catch(|| n.gen.block_subnet(net(*id, *p)))
                    .map_err(|p| Violation::panic(S_BLOCK, &p))?;
                let (m, _) = self.bits(*id as u64, *id as u64 + size(*p) - 1);
                n.avail &= !m;
                S_BLOCK
            }
        };
        self.offered(site, &n, &format!("after {a:?}"))?;
        Ok(n)
    }

    fn key(&self, s: &St) -> u128 {
        key128(&(format!("{:?}", s.gen), s.avail, s.held))
    }

    fn check(&self, s: &St) -> Vec<Violation> {
        // called once per distinct state
        if s.held != 0 && stored_ranges(&s.gen).map_or(false, |r| r.len() >= 2) {
            let k = self.key(s);
            self.nontrivial[(k % 64) as usize].lock().unwrap().insert(k);
        }
        if let Some((entry, p)) = &s.ctor_panic {
            return vec![Violation::panic(entry, p)];
        }
        match &s.init {
            Some((site, text)) => match self.offered(site, s, text) {
                Ok(()) => vec![],
                Err(v) => vec![v],
            },
            None => vec![],
        }
    }

    fn describe(&self, s: &St) -> String {
        format!(
            "{}available {} held {} | real {}",
            s.init
                .as_ref()
                .map(|(_, t)| format!("{t}: "))
                .unwrap_or_default(),
            ranges(&self.addrs(s.avail)),
            ranges(&self.addrs(s.held)),
            gen_text(&s.gen)
        )
    }
}

/// (base, width, depth bound or None for "to a fixpoint")
fn models(tier: &str) -> Vec<(GenModel, Option<usize>)> {
    let mut v = vec![];
    let mut add = |base: u32, width: u32, depth: Option<usize>| {
        let bound = match depth {
            None => "to fixpoint".to_string(),
            Some(d) => format!("depth<={d}"),
        };
        v.push((GenModel::new(base, width, &bound), depth));
    };
    // aligned 8-address windows, both ends of the address space: complete
    for base in [0x0a00_0000, 0, 0xffff_fff8] {
        add(base, 8, None);
    }
    if tier == "quick" {
        for base in BASES16 {
            add(base, 16, Some(4));
        }
    } else {
        // windows that are not aligned / not a power of two
        add(0x0a00_0003, 7, None);
        add(0xffff_fffa, 6, None);
        add(0, 6, None);
        for base in [0x0a00_0000, 0, 0xffff_fff6] {
            add(base, 10, None);
        }
        // the three windows have isomorphic state spaces away from the ends of the address
        // space, so the deepest bound is spent on one of them
        add(BASES16[0], 16, Some(7));
        add(BASES16[1], 16, Some(6));
        add(BASES16[2], 16, Some(6));
    }
    v
}

pub fn run(report: &mut Report, tier: &str) {
    report.assume("a holder returns only addresses it holds (single addresses or aligned blocks that are entirely held); returning something that is not held is outside the statement");
    report.assume("block_subnet is exercised on blocks that contain no held address: the statement does not say whether a block placed on a held address outlives its return");
    report.assume("windows of at most 16 addresses; 16-address windows are explored to the stated depth, smaller ones to a fixpoint");

    enumerate::run_into(
        report,
        CTOR_NEW,
        "full product of 3 bases (10.0.0.0, 0.0.0.0, 255.255.255.240) x start offset 0..16 x end offset 0..16; start > end is only checked for panics; non-trivial = well-formed range, counted by distinct (start,end)",
        ctor_new_product().total(),
        ctor_new_run,
        ctor_new_describe,
    );
    let sub_name = ctor_sub_name(tier);
    enumerate::run_into(
        report,
        &sub_name,
        "full product of {new_sub, new_sub_no_ends} x 7 addresses (incl. 0.0.0.0, 255.255.255.255 and non-network-ids) x every mask in the range; non-trivial = stated pool non-empty, counted by distinct (constructor, net)",
        ctor_sub_product(tier).total(),
        |i| ctor_sub_run(tier, i),
        |i| ctor_sub_describe(tier, i),
    );

    let mut complete = true;
    let mut bounds = vec![];
    for (m, depth) in models(tier) {
        let limits = Limits {
            max_depth: depth,
            max_states: 40_000_000,
            max_wall: Duration::from_secs(if tier == "quick" { 60 } else { 900 }),
            max_rss_mib: 24_000,
        };
        let st = search::run_into(&m, &limits, report);
        report.add_count("distinct_nontrivial", m.nontrivial_states());
        let reached = match depth {
            None => st.fixpoint,
            Some(d) => {
                st.fixpoint
                    || (st.completed_depth == d
                        && st.capped.as_deref().map_or(true, |c| c.starts_with("depth bound")))
            }
        };
        complete &= reached;
        bounds.push(json!({"model": m.name, "depth_bound": depth, "completed_depth": st.completed_depth,
            "fixpoint": st.fixpoint, "capped": st.capped, "nontrivial_states": m.nontrivial_states()}));
    }
    report.set("completed_bound", json!(bounds));
    // exhaustive within the stated bounds: fixpoint for the small windows, every level up to the
    // depth bound fully expanded for the 16-address windows
    report.set("exhaustive", json!(complete));
    report.set(
        "rule",
        json!("E3: every constructor case, offered set (clone drained with fetch_ip) == stated pool. E1: breadth-first search over one real IpGenerator in a window; initial states = new(range) for every sub-range of the window, new_sub for every aligned block in it, and all() with the complement blocked; actions = fetch_ip, fetch_net(/0,/27../32), return_ip of every held address, return_subnet of every entirely held aligned block, block_subnet of every aligned block free of holders (+ the enclosing /27 and /0); states = distinct (Debug of the real generator, reference available, reference held). Every transition checks the value returned by the real call against the reference and then offered set == reference available. distinct_nontrivial = E3 cases with a non-empty pool + E1 states with at least one held address and a real free list of >= 2 ranges."),
    );
}

pub fn replay(w: &serde_json::Value, tier: &str) -> String {
    if let Some(part) = w["part"].as_str() {
        let i = w["index"].as_u64().unwrap_or(0);
        let render = |desc: Value, out: Result<CaseOutcome, vkit::PanicInfo>| -> String {
            let mut s = format!("part {part} index {i}\ncase {desc}\n");
            match out {
                Ok(o) if o.violations.is_empty() => s.push_str("no violation"),
                Ok(o) => {
                    for v in o.violations {
                        s.push_str(&format!("VIOLATION {} :: {}\n", v.signature(), v.detail));
                    }
                }
                Err(p) => s.push_str(&format!("PANIC {} at {}", p.message, p.location)),
            }
            s
        };
        if part == CTOR_NEW {
            return render(ctor_new_describe(i), vkit::catch(|| ctor_new_run(i)));
        }
        for t in [tier, "quick", "thorough"] {
            if part == ctor_sub_name(t) {
                return render(ctor_sub_describe(t, i), vkit::catch(|| ctor_sub_run(t, i)));
            }
        }
        return format!("unknown part {part}");
    }
    let name = w["model"].as_str().unwrap_or("");
    for t in [tier, "quick", "thorough"] {
        for (m, _) in models(t) {
            if m.name == name {
                let path: Vec<u32> = w["path"]
                    .as_array()
                    .map(|a| a.iter().map(|x| x.as_u64().unwrap_or(0) as u32).collect())
                    .unwrap_or_default();
                if path.is_empty() {
                    return "empty path".into();
                }
                return search::replay(&m, &path).0.join("\n");
            }
        }
    }
    format!("unknown model {name}")
}
