//! C07 - Message behaves as an immutable byte string under all operations.
//!
//! E1: breadth-first search over a pool of three real `Message`s kept next to three plain
//! `Vec<u8>`s. Every action is executed on both; after every action every message of the pool
//! (and every message of the predecessor state, which shares storage with the new one) is
//! compared with its vector. Bytes of every new buffer are globally unique, so a byte that shows
//! up in the wrong place, or a hidden byte that becomes visible, cannot go unnoticed.
//!
//! E3: every way of constructing a message / a header chunk (`impl Into<Chunk>`, `From`,
//! `Default`) for lengths 0..=4.

use elvis_core::Message;
use serde_json::json;
use std::{
    sync::atomic::{AtomicU64, Ordering},
    time::Duration,
};
use vkit::{
    enumerate::{self, CaseOutcome, Product},
    key128,
    search::{self, Limits, Model},
    Report, Violation,
};

const SLOTS: usize = 3;
/// Header and concatenate are enabled only while the result stays this short.
const MAX_LEN: usize = 8;
const NEW_LENS: [usize; 3] = [0, 1, 3];
const HDR_LENS: [usize; 3] = [0, 1, 2];

#[derive(Clone)]
pub struct Pool {
    slots: [Option<(Message, Vec<u8>)>; SLOTS],
    /// next unused byte value
    next: u8,
    /// built by `init`, not by `step`
    seed: bool,
}

#[derive(Clone, Copy, PartialEq, Eq)]
pub enum Form {
    Range,
    RangeFrom,
    RangeFull,
    RangeInclusive,
    RangeTo,
    RangeToInclusive,
}

impl Form {
    fn name(self) -> &'static str {
        match self {
            Form::Range => "Range",
            Form::RangeFrom => "RangeFrom",
            Form::RangeFull => "RangeFull",
            Form::RangeInclusive => "RangeInclusive",
            Form::RangeTo => "RangeTo",
            Form::RangeToInclusive => "RangeToInclusive",
        }
    }
}

/// `Slice` carries the half-open window `[a, b)` it denotes; the range expression handed to the
/// message and to the vector is built from it by `form` (`a..=b-1`, `..=b-1`, `a..`, ...).
#[derive(Clone)]
pub enum Act {
    New { slot: usize, len: usize },
    NewDefault { slot: usize },
    Header { slot: usize, len: usize },
    Concat { dst: usize, src: usize, moved: bool },
    Slice { slot: usize, form: Form, a: usize, b: usize },
    Cut { slot: usize, n: usize, into: usize },
    RemoveFront { slot: usize, n: usize },
    Clone { src: usize, dst: usize },
}

impl std::fmt::Debug for Act {
    fn fmt(&self, f: &mut std::fmt::Formatter<'_>) -> std::fmt::Result {
        match *self {
            Act::New { slot, len } => write!(f, "s{slot} = Message::new(<{len} fresh bytes>)"),
            Act::NewDefault { slot } => write!(f, "s{slot} = Message::default()"),
            Act::Header { slot, len } => write!(f, "s{slot}.header(<{len} fresh bytes>)"),
            Act::Concat { dst, src, moved } => {
                if moved {
                    write!(f, "s{dst}.concatenate(take s{src})")
                } else {
                    write!(f, "s{dst}.concatenate(s{src}.clone())")
                }
            }
            Act::Slice { slot, form, a, b } => {
                write!(f, "s{slot}.slice(")?;
                match form {
                    Form::Range => write!(f, "{a}..{b}")?,
                    Form::RangeFrom => write!(f, "{a}..")?,
                    Form::RangeFull => write!(f, "..")?,
                    Form::RangeInclusive => write!(f, "{a}..={}", b as isize - 1)?,
                    Form::RangeTo => write!(f, "..{b}")?,
                    Form::RangeToInclusive => write!(f, "..={}", b as isize - 1)?,
                }
                write!(f, ")")
            }
            Act::Cut { slot, n, into } => write!(f, "s{into} = s{slot}.cut({n})"),
            Act::RemoveFront { slot, n } => write!(f, "s{slot}.remove_front({n})"),
            Act::Clone { src, dst } => write!(f, "s{dst} = s{src}.clone()"),
        }
    }
}

impl Act {
    /// The real entry point the action exercises.
    fn entry(&self) -> &'static str {
        match self {
            Act::New { .. } => "Message::new",
            Act::NewDefault { .. } => "Message::default",
            Act::Header { .. } => "Message::header",
            Act::Concat { .. } => "Message::concatenate",
            Act::Slice { .. } => "Message::slice",
            Act::Cut { .. } => "Message::cut",
            Act::RemoveFront { .. } => "Message::remove_front",
            Act::Clone { .. } => "Message::clone",
        }
    }
    /// Slots whose value the action defines.
    fn touched(&self) -> Vec<usize> {
        match *self {
            Act::New { slot, .. }
            | Act::NewDefault { slot }
            | Act::Header { slot, .. }
            | Act::Slice { slot, .. }
            | Act::RemoveFront { slot, .. } => vec![slot],
            Act::Concat { dst, .. } => vec![dst],
            Act::Cut { slot, into, .. } => vec![into, slot],
            Act::Clone { dst, .. } => vec![dst],
        }
    }
}

fn hex(v: &[u8]) -> String {
    let mut s = String::new();
    for b in v {
        s.push_str(&format!("{b:02x} "));
    }
    s
}

fn slice_msg(m: &mut Message, form: Form, a: usize, b: usize) {
    match form {
        Form::Range => m.slice(a..b),
        Form::RangeFrom => m.slice(a..),
        Form::RangeFull => m.slice(..),
        Form::RangeInclusive => m.slice(a..=b - 1),
        Form::RangeTo => m.slice(..b),
        Form::RangeToInclusive => m.slice(..=b - 1),
    }
}

/// The same range expression on a plain vector.
fn slice_vec(v: &[u8], form: Form, a: usize, b: usize) -> Vec<u8> {
    match form {
        Form::Range => v[a..b].to_vec(),
        Form::RangeFrom => v[a..].to_vec(),
        Form::RangeFull => v[..].to_vec(),
        Form::RangeInclusive => v[a..=b - 1].to_vec(),
        Form::RangeTo => v[..b].to_vec(),
        Form::RangeToInclusive => v[..=b - 1].to_vec(),
    }
}

/// Compares everything observable about one message with the vector. `Some((clause, detail))`
/// names the first observation that differs.
fn observe(m: &Message, r: &[u8]) -> Option<(&'static str, String)> {
    let v = m.to_vec();
    if v != r {
        return Some((
            "bytes",
            format!("to_vec() = [{}] but the vector is [{}]", hex(&v), hex(r)),
        ));
    }
    if !m.iter().eq(r.iter().cloned()) {
        let it: Vec<u8> = m.iter().collect();
        return Some((
            "iter",
            format!("iter() yields [{}] but the vector is [{}]", hex(&it), hex(r)),
        ));
    }
    if m.len() != r.len() {
        return Some((
            "len",
            format!("len() = {} but the vector [{}] has length {}", m.len(), hex(r), r.len()),
        ));
    }
    if m.is_empty() != r.is_empty() {
        return Some((
            "is-empty",
            format!("is_empty() = {} but the vector has length {}", m.is_empty(), r.len()),
        ));
    }
    let d = format!("{m}");
    if d != hex(r) {
        return Some((
            "display",
            format!("Display gives {d:?} but the vector renders as {:?}", hex(r)),
        ));
    }
    None
}

impl Pool {
    fn empty() -> Self {
        Self {
            slots: [None, None, None],
            next: 1,
            seed: true,
        }
    }

    fn fresh(&mut self, len: usize) -> Vec<u8> {
        let v: Vec<u8> = (0..len).map(|i| self.next + i as u8).collect();
        self.next += len as u8;
        v
    }

    /// Executes the action on the real messages and on the vectors.
    fn apply(&mut self, a: &Act) {
        match *a {
            Act::New { slot, len } => {
                let bytes = self.fresh(len);
                self.slots[slot] = Some((Message::new(bytes.clone()), bytes));
            }
            Act::NewDefault { slot } => {
                self.slots[slot] = Some((Message::default(), vec![]));
            }
            Act::Header { slot, len } => {
                let bytes = self.fresh(len);
                let (m, r) = self.slots[slot].as_mut().unwrap();
                m.header(bytes.clone());
                let mut nr = bytes;
                nr.extend_from_slice(r);
                *r = nr;
            }
            Act::Concat { dst, src, moved } => {
                let (om, or) = if moved {
                    self.slots[src].take().unwrap()
                } else {
                    self.slots[src].clone().unwrap()
                };
                let (m, r) = self.slots[dst].as_mut().unwrap();
                m.concatenate(om);
                r.extend_from_slice(&or);
            }
            Act::Slice { slot, form, a, b } => {
                let (m, r) = self.slots[slot].as_mut().unwrap();
                slice_msg(m, form, a, b);
                *r = slice_vec(r, form, a, b);
            }
            Act::Cut { slot, n, into } => {
                let (m, r) = self.slots[slot].as_mut().unwrap();
                let p = m.cut(n);
                let rp: Vec<u8> = r.drain(..n).collect();
                self.slots[into] = Some((p, rp));
            }
            Act::RemoveFront { slot, n } => {
                let (m, r) = self.slots[slot].as_mut().unwrap();
                m.remove_front(n);
                r.drain(..n);
            }
            Act::Clone { src, dst } => {
                let (m, r) = self.slots[src].as_ref().unwrap();
                #[allow(clippy::redundant_clone)]
                let c = (m.clone(), r.clone());
                self.slots[dst] = Some(c);
            }
        }
    }

    /// `==` between all pairs of messages against `==` between the vectors.
    fn eq_check(&self, site: &str) -> Result<(), Violation> {
        for i in 0..SLOTS {
            for j in 0..SLOTS {
                if let (Some((mi, ri)), Some((mj, rj))) = (&self.slots[i], &self.slots[j]) {
                    if (mi == mj) != (ri == rj) || (mi != mj) != (ri != rj) {
                        return Err(Violation::new(
                            "eq",
                            site,
                            "eq-differs-from-vector-eq",
                            format!(
                                "s{i} == s{j} is {} but the vectors [{}] and [{}] compare {}",
                                mi == mj,
                                hex(ri),
                                hex(rj),
                                ri == rj
                            ),
                        ));
                    }
                }
            }
        }
        Ok(())
    }

    /// The oracle after an action: `prev` is the state the action was applied to.
    fn verify(&self, a: &Act, prev: &Pool) -> Result<(), Violation> {
        let site = a.entry();
        let touched = a.touched();
        for &i in &touched {
            if let Some((m, r)) = &self.slots[i] {
                if let Some((clause, detail)) = observe(m, r) {
                    let disc = match *a {
                        Act::Slice { slot, form, a: lo, b: hi } => {
                            diagnose_slice(prev, slot, form, lo, hi)
                        }
                        Act::Cut { into, .. } => {
                            if i == into {
                                "returned-prefix".to_string()
                            } else {
                                "remainder".to_string()
                            }
                        }
                        _ => "result".to_string(),
                    };
                    return Err(Violation::new(clause, site, &disc, format!("s{i}: {detail}")));
                }
            }
        }
        for i in 0..SLOTS {
            if touched.contains(&i) {
                continue;
            }
            if let Some((m, r)) = &self.slots[i] {
                if let Some((clause, detail)) = observe(m, r) {
                    return Err(Violation::new(
                        "independence",
                        site,
                        "other-message-changed",
                        format!("s{i} was not operated on, yet ({clause}) {detail}"),
                    ));
                }
            }
        }
        // the messages of the predecessor state share storage with the new ones
        for i in 0..SLOTS {
            if let Some((m, r)) = &prev.slots[i] {
                if let Some((clause, detail)) = observe(m, r) {
                    return Err(Violation::new(
                        "independence",
                        site,
                        "ancestor-changed",
                        format!("the value s{i} had before the action: ({clause}) {detail}"),
                    ));
                }
            }
        }
        self.eq_check(site)
    }

    /// Layout and contents, canonical under renaming of buffers, of byte values and of slots.
    fn canon(&self) -> Vec<u32> {
        const PERMS: [[usize; 3]; 6] = [
            [0, 1, 2],
            [0, 2, 1],
            [1, 0, 2],
            [1, 2, 0],
            [2, 0, 1],
            [2, 1, 0],
        ];
        let lay: Vec<_> = self
            .slots
            .iter()
            .map(|s| s.as_ref().map(|(m, _)| m.verif_layout()))
            .collect();
        let mut best: Option<Vec<u32>> = None;
        for perm in PERMS {
            let mut out: Vec<u32> = Vec::with_capacity(48);
            let mut bufs: Vec<usize> = vec![];
            let mut bytes: Vec<u8> = vec![];
            for &i in &perm {
                match (&self.slots[i], &lay[i]) {
                    (Some((_, r)), Some((len, chunks))) => {
                        out.push(*len as u32);
                        out.push(chunks.len() as u32);
                        for &(s, e, p, bl) in chunks {
                            let id = match bufs.iter().position(|&q| q == p) {
                                Some(k) => k,
                                None => {
                                    bufs.push(p);
                                    bufs.len() - 1
                                }
                            };
                            out.extend([s as u32, e as u32, id as u32, bl as u32]);
                        }
                        out.push(r.len() as u32);
                        for &b in r {
                            let id = match bytes.iter().position(|&q| q == b) {
                                Some(k) => k,
                                None => {
                                    bytes.push(b);
                                    bytes.len() - 1
                                }
                            };
                            out.push(id as u32);
                        }
                    }
                    _ => out.push(u32::MAX),
                }
            }
            if best.as_ref().map_or(true, |b| out < *b) {
                best = Some(out);
            }
        }
        best.unwrap()
    }

    /// Non-trivial: some message has at least two chunks, or a chunk that is a strict sub-window
    /// of its buffer, or two chunks anywhere in the pool share one buffer.
    fn nontrivial(&self) -> bool {
        let mut ptrs = vec![];
        for s in self.slots.iter().flatten() {
            let (_, chunks) = s.0.verif_layout();
            if chunks.len() >= 2 {
                return true;
            }
            for (st, e, p, bl) in chunks {
                if st != 0 || e != bl || ptrs.contains(&p) {
                    return true;
                }
                ptrs.push(p);
            }
        }
        false
    }

    fn describe(&self) -> String {
        let mut bufs: Vec<usize> = vec![];
        let mut out = vec![];
        for (i, s) in self.slots.iter().enumerate() {
            match s {
                None => out.push(format!("s{i}=-")),
                Some((m, r)) => {
                    let (len, chunks) = m.verif_layout();
                    let cs: Vec<String> = chunks
                        .iter()
                        .map(|&(s, e, p, bl)| {
                            let id = match bufs.iter().position(|&q| q == p) {
                                Some(k) => k,
                                None => {
                                    bufs.push(p);
                                    bufs.len() - 1
                                }
                            };
                            format!("b{id}/{bl}[{s}..{e}]")
                        })
                        .collect();
                    out.push(format!(
                        "s{i}={{len {len}; chunks {}; msg [{}]; vec [{}]}}",
                        cs.join(" "),
                        hex(&m.to_vec()).trim_end(),
                        hex(r).trim_end()
                    ));
                }
            }
        }
        out.join(" ")
    }
}

/// A slice result is wrong. If the same window requested as `a..b` on the same message is right,
/// only this range form is at fault (its normalisation, or the open-ended path it selects):
/// `range-form-<Form>`; otherwise the window arithmetic.
fn diagnose_slice(prev: &Pool, slot: usize, form: Form, a: usize, b: usize) -> String {
    if form == Form::Range {
        return "window-arithmetic".into();
    }
    let Some((m, r)) = &prev.slots[slot] else {
        return "window-arithmetic".into();
    };
    let mut m = m.clone();
    let want = r[a..b].to_vec();
    let ok = vkit::catch(|| {
        m.slice(a..b);
        observe(&m, &want).is_none()
    })
    .unwrap_or(false);
    if ok {
        format!("range-form-{}", form.name())
    } else {
        "window-arithmetic".into()
    }
}

pub struct PoolModel {
    pub name: String,
    pub seeded: bool,
    pub nontrivial: AtomicU64,
}

impl PoolModel {
    pub fn new(name: &str, seeded: bool) -> Self {
        Self {
            name: name.into(),
            seeded,
            nontrivial: AtomicU64::new(0),
        }
    }
}

/// Seeds: slot 0 holds a three-chunk message with chunk lengths (c1, c2, c3) in {0,1,2}^3, once
/// made of whole buffers (new + header + header) and once of chunks that are strict sub-windows
/// of larger buffers (three sliced singles concatenated). All built with the real operations.
fn seeds() -> Vec<Pool> {
    let mut v = vec![];
    for windowed in [false, true] {
        for c in 0..27usize {
            let (c1, c2, c3) = (c / 9, (c / 3) % 3, c % 3);
            let mut p = Pool::empty();
            if !windowed {
                let (b3, b2, b1) = (p.fresh(c3), p.fresh(c2), p.fresh(c1));
                let mut m = Message::new(b3.clone());
                m.header(b2.clone());
                m.header(b1.clone());
                let r = [b1, b2, b3].concat();
                p.slots[0] = Some((m, r));
            } else {
                let mut m = Message::default();
                let mut r = vec![];
                for len in [c1, c2, c3] {
                    let b = p.fresh(len + 2);
                    let mut part = Message::new(b.clone());
                    part.slice(1..1 + len);
                    m.concatenate(part);
                    r.extend_from_slice(&b[1..1 + len]);
                }
                p.slots[0] = Some((m, r));
            }
            v.push(p);
        }
    }
    v
}

impl Model for PoolModel {
    type State = Pool;
    type Action = Act;

    fn name(&self) -> String {
        self.name.clone()
    }

    fn init(&self) -> Vec<Pool> {
        if self.seeded {
            seeds()
        } else {
            vec![Pool::empty()]
        }
    }

    fn actions(&self, s: &Pool) -> Vec<Act> {
        let mut v = vec![];
        let len_of = |i: usize| s.slots[i].as_ref().map(|(_, r)| r.len());
        for slot in 0..SLOTS {
            for len in NEW_LENS {
                v.push(Act::New { slot, len });
            }
            v.push(Act::NewDefault { slot });
        }
        for slot in 0..SLOTS {
            let Some(l) = len_of(slot) else { continue };
            for len in HDR_LENS {
                if l + len <= MAX_LEN {
                    v.push(Act::Header { slot, len });
                }
            }
            for src in 0..SLOTS {
                let Some(sl) = len_of(src) else { continue };
                if l + sl > MAX_LEN {
                    continue;
                }
                v.push(Act::Concat { dst: slot, src, moved: false });
                if src != slot {
                    v.push(Act::Concat { dst: slot, src, moved: true });
                }
            }
            for a in 0..=l {
                for b in a..=l {
                    v.push(Act::Slice { slot, form: Form::Range, a, b });
                    if b == l {
                        v.push(Act::Slice { slot, form: Form::RangeFrom, a, b });
                    }
                    if a == 0 && b == l {
                        v.push(Act::Slice { slot, form: Form::RangeFull, a, b });
                    }
                    if b >= 1 {
                        // includes the empty `a..=a-1` for a >= 1, which a vector accepts too
                        v.push(Act::Slice { slot, form: Form::RangeInclusive, a, b });
                    }
                    if a == 0 {
                        v.push(Act::Slice { slot, form: Form::RangeTo, a, b });
                    }
                    if a == 0 && b >= 1 {
                        v.push(Act::Slice { slot, form: Form::RangeToInclusive, a, b });
                    }
                }
            }
            for n in 0..=l {
                for into in 0..SLOTS {
                    if into != slot {
                        v.push(Act::Cut { slot, n, into });
                    }
                }
                v.push(Act::RemoveFront { slot, n });
            }
            for dst in 0..SLOTS {
                if dst != slot {
                    v.push(Act::Clone { src: slot, dst });
                }
            }
        }
        v
    }

    fn step(&self, s: &Pool, a: &Act) -> Result<Pool, Violation> {
        let mut n = s.clone();
        n.seed = false;
        vkit::catch(|| n.apply(a)).map_err(|p| Violation::panic(a.entry(), &p))?;
        vkit::catch(|| n.verify(a, s)).map_err(|p| Violation::panic(a.entry(), &p))??;
        Ok(n)
    }

    fn key(&self, s: &Pool) -> u128 {
        key128(&s.canon())
    }

    fn check(&self, s: &Pool) -> Vec<Violation> {
        if s.nontrivial() {
            self.nontrivial.fetch_add(1, Ordering::Relaxed);
        }
        if !s.seed {
            return vec![]; // already verified by `step`
        }
        for (i, slot) in s.slots.iter().enumerate() {
            if let Some((m, r)) = slot {
                if let Some((clause, detail)) = observe(m, r) {
                    return vec![Violation::new(
                        clause,
                        "seed-construction",
                        "result",
                        format!("s{i}: {detail}"),
                    )];
                }
            }
        }
        s.eq_check("seed-construction").err().into_iter().collect()
    }

    fn describe(&self, s: &Pool) -> String {
        s.describe()
    }
}

// ---------------------------------------------------------------------------------------------
// E3: every constructor and every header source type.

const CTORS: [&str; 10] = [
    "Message::new(Vec<u8>)",
    "Message::new(&[u8])",
    "Message::new(&[u8; N])",
    "Message::new([u8; N])",
    "Message::new(&str)",
    "Message::new(String)",
    "Message::from(Vec<u8>)",
    "Message::from(&[u8])",
    "Message::from([u8; N])",
    "Message::default()",
];
const HDRS: [&str; 7] = [
    "no header",
    "header(Vec<u8>)",
    "header(&[u8])",
    "header(&[u8; N])",
    "header([u8; N])",
    "header(&str)",
    "header(String)",
];
const CTOR_LENS: usize = 5; // 0..=4
const HDR_SRC_LENS: usize = 4; // 0..=3

macro_rules! with_array {
    ($bytes:expr, $arr:ident => $body:expr) => {
        match $bytes.len() {
            0 => {
                let $arr: [u8; 0] = [];
                $body
            }
            1 => {
                let $arr: [u8; 1] = $bytes[..].try_into().unwrap();
                $body
            }
            2 => {
                let $arr: [u8; 2] = $bytes[..].try_into().unwrap();
                $body
            }
            3 => {
                let $arr: [u8; 3] = $bytes[..].try_into().unwrap();
                $body
            }
            _ => {
                let $arr: [u8; 4] = $bytes[..].try_into().unwrap();
                $body
            }
        }
    };
}

fn ctor_product() -> Product {
    Product::new(&[CTORS.len(), CTOR_LENS, HDRS.len(), HDR_SRC_LENS])
}

fn ctor_case(i: u64) -> (usize, Vec<u8>, usize, Vec<u8>) {
    let d = ctor_product().decode(i);
    // ASCII so that the &str / String sources carry exactly these bytes
    let body: Vec<u8> = (0..d[1]).map(|k| b'a' + k as u8).collect();
    let hdr: Vec<u8> = (0..d[3]).map(|k| b'A' + k as u8).collect();
    (d[0], body, d[2], hdr)
}

fn ctor_run(i: u64) -> CaseOutcome {
    let (c, body, h, hdr) = ctor_case(i);
    let s = String::from_utf8(body.clone()).unwrap();
    let (mut m, mut r) = match c {
        0 => (Message::new(body.clone()), body.clone()),
        1 => (Message::new(&body[..]), body.clone()),
        2 => (with_array!(body, arr => Message::new(&arr)), body.clone()),
        3 => (with_array!(body, arr => Message::new(arr)), body.clone()),
        4 => (Message::new(s.as_str()), body.clone()),
        5 => (Message::new(s.clone()), body.clone()),
        6 => (Message::from(body.clone()), body.clone()),
        7 => (Message::from(&body[..]), body.clone()),
        8 => (with_array!(body, arr => Message::from(arr)), body.clone()),
        // Default has no body argument: the vector is empty whatever the length index says
        _ => (Message::default(), vec![]),
    };
    if let Some((clause, detail)) = observe(&m, &r) {
        return CaseOutcome::bad(Violation::new(clause, "Message::new", "source-type", detail));
    }
    if h > 0 {
        let hs = String::from_utf8(hdr.clone()).unwrap();
        match h {
            1 => m.header(hdr.clone()),
            2 => m.header(&hdr[..]),
            3 => with_array!(hdr, arr => m.header(&arr)),
            4 => with_array!(hdr, arr => m.header(arr)),
            5 => m.header(hs.as_str()),
            _ => m.header(hs),
        }
        let mut nr = hdr.clone();
        nr.extend_from_slice(&r);
        r = nr;
        if let Some((clause, detail)) = observe(&m, &r) {
            return CaseOutcome::bad(Violation::new(
                clause,
                "Message::header",
                "source-type",
                detail,
            ));
        }
    }
    // non-trivial: the message ends up non-empty; identified by its construction recipe
    let trivial = r.is_empty() || (c == 9 && ctor_product().decode(i)[1] != 0);
    CaseOutcome::ok(if trivial { None } else { Some(i) })
}

fn ctor_describe(i: u64) -> serde_json::Value {
    let (c, body, h, hdr) = ctor_case(i);
    json!({"constructor": CTORS[c], "body": hex(&body), "header_source": HDRS[h], "header": hex(&hdr)})
}

const CTOR_PART: &str = "C07 constructors and header sources";

// ---------------------------------------------------------------------------------------------

/// (model name, seeded, depth bound)
fn models(tier: &str) -> Vec<(String, bool, usize)> {
    let (d_empty, d_seeded) = if tier == "quick" { (5, 3) } else { (6, 4) };
    vec![
        (format!("C07 pool3 empty-start depth{d_empty}"), false, d_empty),
        (format!("C07 pool3 seeded-start depth{d_seeded}"), true, d_seeded),
    ]
}

pub fn run(report: &mut Report, tier: &str) {
    report.assume("only well-formed ranges (0 <= a <= b <= len, inclusive forms written as a..=b-1) and cut/remove_front counts 0..=len are in the alphabet; out-of-range arguments are outside the statement");
    report.assume("header and concatenate are enabled only while the result is at most 8 bytes long; new bodies have length 0, 1 or 3, headers 0, 1 or 2");
    let mut complete = true;
    let mut depths = vec![];
    for (name, seeded, depth) in models(tier) {
        let m = PoolModel::new(&name, seeded);
        let limits = Limits {
            max_depth: Some(depth),
            max_states: 30_000_000,
            max_wall: Duration::from_secs(if tier == "quick" { 25 } else { 400 }),
            max_rss_mib: 24_000,
        };
        let st = search::run_into(&m, &limits, report);
        report.add_count("distinct_nontrivial", m.nontrivial.load(Ordering::Relaxed));
        let reached = st.completed_depth == depth
            && st.capped.as_deref().map_or(true, |c| c.starts_with("depth bound"));
        complete &= reached || st.fixpoint;
        depths.push(json!({"model": name, "depth_bound": depth, "completed_depth": st.completed_depth, "capped": st.capped}));
    }
    enumerate::run_into(
        report,
        CTOR_PART,
        "full product of 10 constructors x body length 0..=4 x (no header | 6 header source types) x header length 0..=3; non-trivial = the resulting message is non-empty (Default counted once)",
        ctor_product().total(),
        ctor_run,
        ctor_describe,
    );
    report.set("completed_bound", json!(depths));
    // exhaustive within the stated depth bounds: every level up to the bound was fully expanded
    report.set("exhaustive", json!(complete));
    report.set(
        "rule",
        json!("E1: breadth-first search over a pool of 3 real Messages paired with 3 Vec<u8>; states = distinct pools up to renaming of slots, buffers and byte values (key = Message::verif_layout of every slot + the vectors); every transition runs the real operation and then compares every message of the new and of the previous pool with its vector (to_vec, iter, len, is_empty, Display) and == on all pairs. distinct_nontrivial = distinct states in which some message has >= 2 chunks, or a chunk that is a strict sub-window of its buffer, or two chunks share a buffer (plus the non-empty constructor cases of the E3 part)."),
    );
}

pub fn replay(w: &serde_json::Value, tier: &str) -> String {
    if w["part"].as_str() == Some(CTOR_PART) {
        let i = w["index"].as_u64().unwrap_or(0);
        let out = match vkit::catch(|| ctor_run(i)) {
            Ok(o) => o,
            Err(p) => CaseOutcome::bad(Violation::panic(CTOR_PART, &p)),
        };
        let mut s = format!("case {i}: {}\n", ctor_describe(i));
        if out.violations.is_empty() {
            s.push_str("no violation");
        }
        for v in out.violations {
            s.push_str(&format!("VIOLATION {} :: {}\n", v.signature(), v.detail));
        }
        return s;
    }
    let name = w["model"].as_str().unwrap_or("");
    for t in ["quick", "thorough", tier] {
        for (n, seeded, _) in models(t) {
            if n == name {
                let m = PoolModel::new(&n, seeded);
                let path: Vec<u32> = w["path"]
                    .as_array()
                    .map(|a| a.iter().map(|x| x.as_u64().unwrap_or(0) as u32).collect())
                    .unwrap_or_default();
                if path.is_empty() {
                    return "witness has no path".into();
                }
                return search::replay(&m, &path).0.join("\n");
            }
        }
    }
    format!("unknown model/part {name}")
}
