//! C05 - The simulated link delivers frames as configured, to the right taps.

use elvis_core::{
    message::Message,
    network::{Baud, Latency, NetworkBuilder, Throughput},
    protocol::{DemuxError, StartError},
    protocols::{pci::DemuxInfo, Pci},
    session::SendError,
    Control, Machine, Network, Protocol, Session, Shutdown,
};
use serde_json::json;
use std::{
    any::TypeId,
    sync::{Arc, Mutex},
    time::Duration,
};
use tokio::sync::Barrier;
use vkit::{
    sched::{self, Bounds, Scenario},
    Report, Violation,
};

#[derive(Clone, Debug, PartialEq)]
pub enum Lat {
    None,
    /// microseconds
    Const(u64),
    /// base and randomness in microseconds
    Var(u64, u64),
}

#[derive(Clone, Debug)]
pub struct LinkCfg {
    pub name: String,
    /// taps[m] = the networks machine m is attached to (slot order)
    pub taps: Vec<Vec<usize>>,
    pub nets: usize,
    pub mtu: u16,
    pub lat: Lat,
    /// bytes per second, 0 = unlimited
    pub bps: u64,
    /// > 0: the rate is configured in bits per second through `Baud::bits_per_second`
    pub bits: u64,
    /// frame lengths used for the unicast/broadcast sends (besides the MTU boundary cases)
    pub extra_len: Vec<usize>,
}

#[derive(Clone, Debug)]
struct Planned {
    id: u16,
    machine: usize,
    slot: u32,
    /// Some(Some(mac)) unicast, Some(None) broadcast via None, None => BROADCAST_MAC constant
    dest: Dest,
    len: usize,
}

#[derive(Clone, Debug, PartialEq)]
enum Dest {
    Tap(usize, u32), // machine, slot
    Unknown,
    /// an address nobody owns whose low `bits` bits equal those of tap (machine, slot)'s address
    AliasOfTap(usize, u32, u32),
    /// an address nobody owns whose low 48 bits equal those of the broadcast address
    AliasOfBroadcast,
    BroadcastNone,
    BroadcastMac,
}

#[derive(Debug, Clone)]
struct Rx {
    t: Duration,
    machine: usize,
    info: Option<DemuxInfo>,
    bytes: Vec<u8>,
}

#[derive(Debug, Clone)]
struct Tx {
    t: Duration,
    id: u16,
    result: Result<(), SendError>,
}

#[derive(Default)]
struct Book {
    rx: Mutex<Vec<Rx>>,
    tx: Mutex<Vec<Tx>>,
    macs: Mutex<Vec<(usize, Vec<u64>)>>,
}

struct Probe {
    machine: usize,
    plan: Vec<(Planned, Option<u64>)>, // resolved destination mac
    book: Arc<Book>,
}

#[async_trait::async_trait]
impl Protocol for Probe {
    async fn start(
        &self,
        _shutdown: Shutdown,
        initialized: Arc<Barrier>,
        machine: Arc<Machine>,
    ) -> Result<(), StartError> {
        initialized.wait().await;
        let pci = machine.protocol::<Pci>().unwrap();
        for (p, mac) in &self.plan {
            let mut bytes = vec![0u8; p.len.max(2)];
            bytes[0] = (p.id >> 8) as u8;
            bytes[1] = p.id as u8;
            for (i, b) in bytes.iter_mut().enumerate().skip(2) {
                *b = (i % 251) as u8;
            }
            let dest = match p.dest {
                Dest::Tap(..) | Dest::Unknown | Dest::AliasOfTap(..) | Dest::AliasOfBroadcast => {
                    Some(mac.unwrap())
                }
                Dest::BroadcastNone => None,
                Dest::BroadcastMac => Some(Network::BROADCAST_MAC),
            };
            let t = sched::vnow();
            let r = pci
                .open(p.slot)
                .send_pci(Message::new(bytes), dest, TypeId::of::<Probe>());
            self.book.tx.lock().unwrap().push(Tx {
                t,
                id: p.id,
                result: r,
            });
        }
        Ok(())
    }
    fn demux(
        &self,
        m: Message,
        _c: Arc<dyn Session>,
        ctl: Control,
        _mach: Arc<Machine>,
    ) -> Result<(), DemuxError> {
        self.book.rx.lock().unwrap().push(Rx {
            t: sched::vnow(),
            machine: self.machine,
            info: ctl.get::<DemuxInfo>().copied(),
            bytes: m.to_vec(),
        });
        Ok(())
    }
}

struct Ender;
#[async_trait::async_trait]
impl Protocol for Ender {
    async fn start(
        &self,
        shutdown: Shutdown,
        initialized: Arc<Barrier>,
        _machine: Arc<Machine>,
    ) -> Result<(), StartError> {
        initialized.wait().await;
        tokio::time::sleep(Duration::from_secs(600)).await;
        shutdown.shut_down();
        Ok(())
    }
    fn demux(&self, _m: Message, _c: Arc<dyn Session>, _ctl: Control, _mach: Arc<Machine>) -> Result<(), DemuxError> {
        Ok(())
    }
}

pub struct LinkSc(pub LinkCfg);

fn build_plan(cfg: &LinkCfg) -> Vec<Planned> {
    let mut plan = vec![];
    let mut id = 1u16;
    let mtu = cfg.mtu as usize;
    for (m, taps) in cfg.taps.iter().enumerate() {
        for (slot, net) in taps.iter().enumerate() {
            let slot = slot as u32;
            // first other tap on this network
            let mut other = None;
            for (m2, t2) in cfg.taps.iter().enumerate() {
                for (s2, n2) in t2.iter().enumerate() {
                    if n2 == net && (m2, s2 as u32) != (m, slot) && other.is_none() {
                        other = Some((m2, s2 as u32));
                    }
                }
            }
            let mut push = |dest: Dest, len: usize| {
                plan.push(Planned {
                    id,
                    machine: m,
                    slot,
                    dest,
                    len,
                });
                id += 1;
            };
            if let Some((m2, s2)) = other {
                push(Dest::Tap(m2, s2), mtu);
                push(Dest::Tap(m2, s2), mtu + 1);
                if m == 0 && slot == 0 {
                    // addresses that no tap owns but that look like an owned one when narrowed
                    push(Dest::AliasOfTap(m2, s2, 48), 10);
                    push(Dest::AliasOfTap(m2, s2, 32), 10);
                    push(Dest::AliasOfBroadcast, 10);
                    // oversize lengths whose low 16 bits look harmless
                    push(Dest::Tap(m2, s2), 65536);
                    push(Dest::Tap(m2, s2), 65536 + mtu.min(1500));
                }
                for l in &cfg.extra_len {
                    push(Dest::Tap(m2, s2), *l);
                }
            }
            // only the first machine broadcasts and probes unknown addresses, to keep runs small
            if m == 0 {
                push(Dest::BroadcastNone, mtu.saturating_sub(1).max(2));
                push(Dest::BroadcastMac, cfg.extra_len.first().copied().unwrap_or(10));
                push(Dest::Unknown, 10);
            }
        }
    }
    plan
}

#[derive(Debug, Hash)]
pub struct LinkObs {
    deliveries: Vec<(u16, usize, u64)>, // frame id, machine, time in us
    refused: Vec<u16>,
}

impl Scenario for LinkSc {
    type Obs = LinkObs;
    fn name(&self) -> String {
        self.0.name.clone()
    }
    fn run(&self) -> (LinkObs, Vec<Violation>) {
        let cfg = self.0.clone();
        sched::install_rand_jitter(vec![], vec![], matches!(cfg.lat, Lat::Var(..)));
        let mut nets = vec![];
        for _ in 0..cfg.nets {
            let mut b = NetworkBuilder::new().mtu(cfg.mtu);
            b = match cfg.lat {
                Lat::None => b,
                Lat::Const(us) => b.latency(Latency::constant(Duration::from_micros(us))),
                Lat::Var(us, r) => b.latency(Latency::variable(
                    Duration::from_micros(us),
                    Duration::from_micros(r),
                )),
            };
            if cfg.bits > 0 {
                b = b.throughput(Throughput::constant(Baud::bits_per_second(cfg.bits)));
            } else if cfg.bps > 0 {
                b = b.throughput(Throughput::constant(Baud::bytes_per_second(cfg.bps)));
            }
            nets.push(b.build());
        }
        let refs: Vec<&Arc<Network>> = nets.iter().collect();
        sched::register_networks(&refs);
        sched::install_wire_hooks(|_| elvis_core::verif::Verdict::Deliver);
        let book = Arc::new(Book::default());
        let plan = build_plan(&cfg);
        // build Pci first to learn the MACs
        let mut pcis = vec![];
        for taps in &cfg.taps {
            pcis.push(Pci::new(taps.iter().map(|n| nets[*n].clone())));
        }
        let macs: Vec<Vec<u64>> = pcis.iter().map(|p| p.mac_addresses().collect()).collect();
        let mut viols = vec![];
        // distinct hardware addresses per network
        for n in 0..cfg.nets {
            let mut on_net = vec![];
            for (m, taps) in cfg.taps.iter().enumerate() {
                for (s, nn) in taps.iter().enumerate() {
                    if *nn == n {
                        on_net.push(macs[m][s]);
                    }
                }
            }
            let mut d = on_net.clone();
            d.sort();
            d.dedup();
            if d.len() != on_net.len() {
                viols.push(Violation::new(
                    "distinct-mac",
                    "Network::next_mac",
                    "two-taps-share-an-address",
                    format!("network {n}: tap addresses {on_net:?}"),
                ));
            }
        }
        let unknown_mac = 0x00ab_cdef_0123u64;
        let mut machines = vec![];
        for (m, pci) in pcis.into_iter().enumerate() {
            let my_plan: Vec<(Planned, Option<u64>)> = plan
                .iter()
                .filter(|p| p.machine == m)
                .map(|p| {
                    let mac = match p.dest {
                        Dest::Tap(m2, s2) => Some(macs[m2][s2 as usize]),
                        Dest::Unknown => Some(unknown_mac),
                        Dest::AliasOfTap(m2, s2, bits) => Some(macs[m2][s2 as usize] | (1u64 << bits)),
                        Dest::AliasOfBroadcast => Some(Network::BROADCAST_MAC | (1u64 << 48)),
                        _ => None,
                    };
                    (p.clone(), mac)
                })
                .collect();
            let mach = Machine::new().with(pci).with(Probe {
                machine: m,
                plan: my_plan,
                book: book.clone(),
            });
            let mach = if m == 0 { mach.with(Ender) } else { mach };
            machines.push(mach.arc());
        }
        sched::register_machines(&machines);
        let _ = sched::block_on_paused_send(async move {
            sched::start_clock();
            elvis_core::run_internet_with_timeout(&machines, Duration::from_secs(900)).await
        });
        let rx = book.rx.lock().unwrap().clone();
        let tx = book.tx.lock().unwrap().clone();
        let wire = sched::take_wire();
        let id_of = |b: &[u8]| -> u16 { ((b[0] as u16) << 8) | b[1] as u16 };

        let base_lat = match cfg.lat {
            Lat::None => Duration::ZERO,
            Lat::Const(us) | Lat::Var(us, _) => Duration::from_micros(us),
        };
        let max_lat = match cfg.lat {
            Lat::Var(us, r) => Duration::from_micros(us + r),
            _ => base_lat,
        };
        let _ = max_lat;
        for p in &plan {
            let t = tx.iter().find(|t| t.id == p.id);
            let Some(t) = t else {
                viols.push(Violation::new("send-result", "harness", "send-not-attempted", format!("{p:?}")));
                continue;
            };
            let on_wire: Vec<_> = wire.iter().filter(|w| id_of(&w.bytes) == p.id).collect();
            let got: Vec<&Rx> = rx.iter().filter(|r| id_of(&r.bytes) == p.id).collect();
            let what = format!(
                "frame {} from machine {} slot {} to {:?} len {} (mtu {})",
                p.id, p.machine, p.slot, p.dest, p.len, cfg.mtu
            );
            if p.len > cfg.mtu as usize {
                if t.result != Err(SendError::Mtu(cfg.mtu)) {
                    viols.push(Violation::new(
                        "mtu",
                        "PciSession::send_pci",
                        "oversize-frame-not-refused",
                        format!("{what}: result {:?}", t.result),
                    ));
                }
                if !on_wire.is_empty() || !got.is_empty() {
                    viols.push(Violation::new(
                        "mtu",
                        "PciSession::send_pci",
                        "oversize-frame-on-the-wire",
                        what.clone(),
                    ));
                }
                continue;
            }
            if t.result.is_err() {
                viols.push(Violation::new(
                    "mtu",
                    "PciSession::send_pci",
                    "frame-within-mtu-refused",
                    format!("{what}: result {:?}", t.result),
                ));
                continue;
            }
            let net = cfg.taps[p.machine][p.slot as usize];
            let src_mac = macs[p.machine][p.slot as usize];
            // expected receivers
            let mut expect: Vec<(usize, u32)> = vec![];
            match p.dest {
                Dest::Tap(m2, s2) => expect.push((m2, s2)),
                Dest::Unknown | Dest::AliasOfTap(..) | Dest::AliasOfBroadcast => {}
                Dest::BroadcastNone | Dest::BroadcastMac => {
                    for (m2, t2) in cfg.taps.iter().enumerate() {
                        for (s2, n2) in t2.iter().enumerate() {
                            if *n2 == net && (m2, s2 as u32) != (p.machine, p.slot) {
                                expect.push((m2, s2 as u32));
                            }
                        }
                    }
                }
            }
            let is_bc = matches!(p.dest, Dest::BroadcastNone | Dest::BroadcastMac);
            for (m2, s2) in &expect {
                let n = got
                    .iter()
                    .filter(|r| r.machine == *m2 && r.info.map(|i| i.slot) == Some(*s2))
                    .count();
                if n != 1 {
                    viols.push(Violation::new(
                        "delivery",
                        "Network::send",
                        if n == 0 {
                            if is_bc { "broadcast-missed-a-tap" } else { "unicast-not-delivered" }
                        } else {
                            "delivered-more-than-once"
                        },
                        format!("{what}: machine {m2} slot {s2} received it {n} times"),
                    ));
                }
            }
            for r in &got {
                let slot = r.info.map(|i| i.slot);
                let own = r.machine == p.machine && slot == Some(p.slot);
                let expected = expect.iter().any(|(m2, s2)| r.machine == *m2 && slot == Some(*s2));
                if !expected && !(is_bc && own) {
                    viols.push(Violation::new(
                        "delivery",
                        "Network::send",
                        if is_bc { "broadcast-left-its-network" } else { "unicast-seen-by-third-party" },
                        format!("{what}: also delivered to machine {} slot {:?}", r.machine, slot),
                    ));
                }
                // payload and link info unchanged
                let mut want = vec![0u8; p.len.max(2)];
                want[0] = (p.id >> 8) as u8;
                want[1] = p.id as u8;
                for (i, b) in want.iter_mut().enumerate().skip(2) {
                    *b = (i % 251) as u8;
                }
                if r.bytes != want {
                    viols.push(Violation::new("payload", "PciSession::receive", "payload-changed", what.clone()));
                }
                match r.info {
                    None => viols.push(Violation::new("link-info", "PciSession::receive", "demux-info-missing", what.clone())),
                    Some(i) => {
                        if i.source != src_mac {
                            viols.push(Violation::new(
                                "link-info",
                                "PciSession::receive",
                                "sender-address-changed",
                                format!("{what}: source {} expected {}", i.source, src_mac),
                            ));
                        }
                        if i.mtu != cfg.mtu {
                            viols.push(Violation::new("link-info", "PciSession::receive", "mtu-wrong", what.clone()));
                        }
                    }
                }
                // timing
                let dt = r.t.saturating_sub(t.t);
                if dt < base_lat {
                    viols.push(Violation::new(
                        "timing",
                        "Network::send",
                        "delivered-before-latency",
                        format!("{what}: sent at {:?}, delivered at {:?}, latency {:?}", t.t, r.t, base_lat),
                    ));
                }
                if cfg.bps > 0 || cfg.bits > 0 {
                    let need = tx_time(&cfg, p.len.max(2)) + base_lat;
                    if dt < need {
                        viols.push(Violation::new(
                            "timing",
                            "Network::send",
                            "delivered-faster-than-throughput",
                            format!("{what}: took {:?}, {} bytes at {} need {:?}", dt, p.len.max(2), rate_text(&cfg), need),
                        ));
                    }
                }
            }
        }
        // medium serialisation: with a throughput, the total time for all frames on one network
        // is at least the sum of their transmission times
        if cfg.bps > 0 || cfg.bits > 0 {
            for n in 0..cfg.nets {
                let mut arrivals: Vec<(Duration, usize)> = vec![];
                let mut seen_ids = vec![];
                for r in &rx {
                    let id = id_of(&r.bytes);
                    let Some(p) = plan.iter().find(|p| p.id == id) else { continue };
                    if cfg.taps[p.machine][p.slot as usize] != n || seen_ids.contains(&id) {
                        continue;
                    }
                    seen_ids.push(id);
                    arrivals.push((r.t, p.len.max(2)));
                }
                arrivals.sort();
                let mut total = Duration::ZERO;
                for (i, (t, len)) in arrivals.iter().enumerate() {
                    total += tx_time(&cfg, *len);
                    // the (i+1)-th frame cannot be through before the first i+1 transmissions
                    let earliest = total + base_lat;
                    if *t < earliest {
                        viols.push(Violation::new(
                            "timing",
                            "Network::send",
                            "frames-overlap-on-the-medium",
                            format!("network {n}: frame #{i} delivered at {:?}, the medium needs {:?} for the frames so far", t, earliest),
                        ));
                        break;
                    }
                }
            }
        }
        let mut deliveries: Vec<(u16, usize, u64)> = rx
            .iter()
            .map(|r| (id_of(&r.bytes), r.machine, r.t.as_micros() as u64))
            .collect();
        deliveries.sort();
        let refused = tx.iter().filter(|t| t.result.is_err()).map(|t| t.id).collect();
        (LinkObs { deliveries, refused }, viols)
    }
}

/// The least time the configured rate allows for `len` bytes (rounded down to whole ns).
fn tx_time(cfg: &LinkCfg, len: usize) -> Duration {
    let ns = if cfg.bits > 0 {
        len as u128 * 8 * 1_000_000_000 / cfg.bits as u128
    } else {
        len as u128 * 1_000_000_000 / cfg.bps as u128
    };
    Duration::from_nanos(ns as u64)
}

fn rate_text(cfg: &LinkCfg) -> String {
    if cfg.bits > 0 {
        format!("{} bit/s", cfg.bits)
    } else {
        format!("{} B/s", cfg.bps)
    }
}

pub fn cfgs(tier: &str) -> Vec<(LinkCfg, Bounds)> {
    let q = tier == "quick";
    let mut v = vec![];
    let wall = Duration::from_secs(if q { 150 } else { 900 });
    let mut add = |name: &str, taps: Vec<Vec<usize>>, nets: usize, mtu: u16, lat: Lat, bps: u64, extra: Vec<usize>, d: usize| {
        v.push((
            LinkCfg {
                name: name.into(),
                taps,
                nets,
                mtu,
                lat,
                bps,
                bits: 0,
                extra_len: extra,
            },
            Bounds::new(d).wall(wall),
        ));
    };
    let d = if q { 2 } else { 3 };
    add("2 machines, 1 net, mtu 100, no latency", vec![vec![0], vec![0]], 1, 100, Lat::None, 0, vec![10], d);
    add("3 machines, 1 net, mtu 1500, latency 7 ms", vec![vec![0], vec![0], vec![0]], 1, 1500, Lat::Const(7000), 0, vec![10], d);
    add("3 machines (one with 2 taps), 2 nets, mtu 100, latency 5+3 ms", vec![vec![0, 1], vec![0], vec![1]], 2, 100, Lat::Var(5000, 3000), 0, vec![10], 1);
    add("2 machines, 1 net, mtu 1500, 1000 B/s (whole ms)", vec![vec![0], vec![0]], 1, 1500, Lat::None, 1000, vec![10, 500], d);
    add("3 machines, 1 net, mtu 100, 100000 B/s (fractions of a ms)", vec![vec![0], vec![0], vec![0]], 1, 100, Lat::Const(7000), 100_000, vec![50], 1);
    add("2 machines, 1 net, mtu 65535 (the default), no latency", vec![vec![0], vec![0]], 1, 65535, Lat::None, 0, vec![10], 1);
    // latencies below one millisecond (a timer wheel ticks in ms; the configured latency still holds)
    add("2 machines, 1 net, mtu 100, latency 900 us", vec![vec![0], vec![0]], 1, 100, Lat::Const(900), 0, vec![10], 1);
    add("2 machines, 1 net, mtu 100, latency 600+800 us", vec![vec![0], vec![0]], 1, 100, Lat::Var(600, 800), 0, vec![10], 1);
    add("2 machines, 1 net, mtu 100, latency 1 us", vec![vec![0], vec![0]], 1, 100, Lat::Const(1), 0, vec![10], 1);
    // rates given in bits per second: a multiple of 8, one that is not, one below 8
    let bit_rates: Vec<u64> = if q { vec![8000, 12, 7] } else { vec![8000, 8001, 9, 12, 15, 7] };
    for r in bit_rates {
        add(&format!("2 machines, 1 net, mtu 100, {r} bit/s"), vec![vec![0], vec![0]], 1, 100, Lat::None, 0, vec![3], 1);
    }
    if !q {
        add("4 machines, 2 nets (two dual-homed), mtu 65535", vec![vec![0, 1], vec![1, 0], vec![0], vec![1]], 2, 65535, Lat::None, 0, vec![10], 1);
        add("2 machines, 1 net, mtu 65535, 100000 B/s", vec![vec![0], vec![0]], 1, 65535, Lat::Var(5000, 3000), 100_000, vec![100, 333], 2);
        add("4 machines, 1 net, mtu 1500, latency 5+3 ms", vec![vec![0], vec![0], vec![0], vec![0]], 1, 1500, Lat::Var(5000, 3000), 0, vec![10], 1);
        add("3 machines, 1 net, mtu 1500, 1000 B/s, latency 7 ms", vec![vec![0], vec![0], vec![0]], 1, 1500, Lat::Const(7000), 1000, vec![7, 10], 1);
    }
    // the bit-rate configurations carry their rate in the name
    for (c, _) in v.iter_mut() {
        if let Some(r) = c.name.strip_suffix(" bit/s").and_then(|n| n.rsplit(' ').next()) {
            c.bits = r.parse().unwrap();
        }
    }
    v
}

pub fn run(report: &mut Report, tier: &str) {
    report.assume("delivery of a broadcast frame to the sender's own tap is neither required nor forbidden");
    report.assume("taps are constructed from one thread; concurrent construction from several OS threads is outside a single-threaded explorer");
    for (cfg, b) in cfgs(tier) {
        sched::run_into(&LinkSc(cfg), &b, report);
    }
    report.set("exhaustive", json!(true));
    report.set("rule", json!("per configuration: every schedule within d deviations (task order, latency jitter fraction in {0, 1/2, ~1}) of the concurrent sends; virtual time makes the timing bounds exact"));
}

pub fn replay(w: &serde_json::Value, tier: &str) -> String {
    let name = w["scenario"].as_str().unwrap_or("");
    let ch: Vec<u16> = w["choices"]
        .as_array()
        .map(|a| a.iter().map(|x| x.as_u64().unwrap() as u16).collect())
        .unwrap_or_default();
    for t in ["quick", "thorough", tier] {
        for (c, _) in cfgs(t) {
            if c.name == name {
                return sched::replay(&LinkSc(c), &ch);
            }
        }
    }
    format!("unknown scenario {name}")
}
