//! E3: bounded-exhaustive enumeration of a finite input alphabet (full Cartesian products,
//! nothing drawn at random), run in parallel, each case inside `catch_unwind`.

use crate::report::Violation;
use dashmap::DashSet;
use rayon::prelude::*;
use serde_json::{json, Value};
use std::{
    collections::BTreeMap,
    sync::{
        atomic::{AtomicU64, Ordering},
        Mutex,
    },
    time::Instant,
};

/// Mixed-radix decoder: `decode(i)` gives the index into each dimension.
#[derive(Debug, Clone)]
pub struct Product {
    pub dims: Vec<usize>,
}

impl Product {
    pub fn new(dims: &[usize]) -> Self {
        Self {
            dims: dims.to_vec(),
        }
    }
    pub fn total(&self) -> u64 {
        self.dims.iter().map(|&d| d as u64).product()
    }
    pub fn decode(&self, mut i: u64) -> Vec<usize> {
        let mut out = vec![0; self.dims.len()];
        for (k, &d) in self.dims.iter().enumerate().rev() {
            out[k] = (i % d as u64) as usize;
            i /= d as u64;
        }
        out
    }
}

pub struct CaseOutcome {
    /// `Some(k)` when the case is non-trivial by the part's stated rule; `k` identifies it for
    /// distinct counting
    pub nontrivial: Option<u64>,
    pub violations: Vec<Violation>,
}

impl CaseOutcome {
    pub fn ok(nontrivial: Option<u64>) -> Self {
        Self {
            nontrivial,
            violations: vec![],
        }
    }
    pub fn bad(v: Violation) -> Self {
        Self {
            nontrivial: None,
            violations: vec![v],
        }
    }
}

pub struct EnumStats {
    pub name: String,
    pub evaluations: u64,
    pub distinct_nontrivial: u64,
    pub wall_s: f64,
    pub found: Vec<(Violation, Value, u64)>,
}

/// Evaluates `f(i)` for every `i in 0..total`. `describe(i)` renders a case for witnesses/samples.
pub fn run<F, D>(name: &str, total: u64, f: F, describe: D) -> EnumStats
where
    F: Fn(u64) -> CaseOutcome + Sync,
    D: Fn(u64) -> Value + Sync,
{
    let start = Instant::now();
    let distinct: DashSet<u64> = DashSet::new();
    let evals = AtomicU64::new(0);
    // signature -> (violation, smallest index, count)
    let found: Mutex<BTreeMap<String, (Violation, u64, u64)>> = Mutex::new(BTreeMap::new());
    (0..total).into_par_iter().for_each(|i| {
        evals.fetch_add(1, Ordering::Relaxed);
        let out = match crate::catch(|| f(i)) {
            Ok(o) => o,
            Err(p) => CaseOutcome::bad(Violation::panic(name, &p)),
        };
        if let Some(k) = out.nontrivial {
            distinct.insert(k);
        }
        if !out.violations.is_empty() {
            let mut g = found.lock().unwrap();
            for v in out.violations {
                let sig = v.signature();
                match g.get_mut(&sig) {
                    Some(e) => {
                        e.2 += 1;
                        if i < e.1 {
                            e.1 = i;
                            e.0 = v;
                        }
                    }
                    None => {
                        g.insert(sig, (v, i, 1));
                    }
                }
            }
        }
    });
    let found = found
        .into_inner()
        .unwrap()
        .into_values()
        .map(|(v, i, n)| {
            (
                v,
                json!({"engine": "E3", "part": name, "index": i, "case": describe(i)}),
                n,
            )
        })
        .collect();
    EnumStats {
        name: name.into(),
        evaluations: evals.load(Ordering::Relaxed),
        distinct_nontrivial: distinct.len() as u64,
        wall_s: start.elapsed().as_secs_f64(),
        found,
    }
}

/// Runs a part and folds it into the report.
pub fn run_into<F, D>(
    report: &mut crate::Report,
    name: &str,
    rule: &str,
    total: u64,
    f: F,
    describe: D,
) where
    F: Fn(u64) -> CaseOutcome + Sync,
    D: Fn(u64) -> Value + Sync,
{
    let st = run(name, total, f, &describe);
    report.add_count("evaluations", st.evaluations);
    report.add_count("distinct_nontrivial", st.distinct_nontrivial);
    report.part(json!({
        "part": name, "rule": rule, "evaluations": st.evaluations,
        "distinct_nontrivial": st.distinct_nontrivial, "exhaustive": true,
        "wall_s": (st.wall_s * 1000.0).round() / 1000.0,
        "distinct_violation_signatures": st.found.len(),
    }));
    if total > 0 {
        report.sample(json!({"part": name, "index": total / 2, "case": describe(total / 2)}));
    }
    for (v, mut w, n) in st.found {
        w["occurrences"] = json!(n);
        report.violation(v, w);
    }
    if st.evaluations != total {
        report.machinery_error(format!(
            "part {name}: evaluated {} of {} cases",
            st.evaluations, total
        ));
    }
}
