#!/usr/bin/env python3
"""Writes /verif/MANIFEST.json from the table below (kept in one place so it stays valid)."""
import json, os, subprocess
HERE = os.path.dirname(os.path.dirname(os.path.abspath(__file__)))

E1 = "E1 explicit-state BFS over real objects (vkit::search)"
E2 = "E2 deviation-bounded schedule search over the real tokio stack (vkit::sched)"
E3 = "E3 bounded-exhaustive input enumeration (vkit::enumerate)"

# id -> (built, engine, level, technique, text, note, design_ref)
CHECKS = {
 "C01": (True, E1 + " + " + E2.split(' (')[0] + " driver", "model_checking",
   "explicit-state BFS to fixpoint over two real Tcbs + deviation-bounded enumeration of driver decisions",
   "Every interleaving of writes, reads, flushes, RTO expiries and per-segment deliver/drop/duplicate choices of a two-endpoint system built from the real Tcb is enumerated to a fixpoint within small budgets; in every state the stream-prefix invariant is checked and a fair continuation must deliver, acknowledge and fall silent. Large transfers (above MSS and above the 64 KiB window) are covered by bounded-deviation enumeration around the loss-free run.",
   "Budgets (writes, drops, duplicates, timer expiries) and MTU/ISN values are those listed in the evidence parts; the network model loses/duplicates/reorders but does not corrupt.", "6 C01"),
}
REASON_UNBUILT = "check not built yet in this session (see DESIGN.md section 6 for the planned check)"

def main():
    props = [json.loads(l) for l in open(os.path.join(HERE, "properties.jsonl"))]
    checks, na = [], []
    for p in props:
        pid = p["id"]
        c = CHECKS.get(pid)
        if not c or not c[0]:
            na.append({"property_id": pid, "reason": REASON_UNBUILT if not c else c[5]})
            continue
        _, engine, level, technique, text, note, ref = c
        checks.append({
            "property_id": pid,
            "quick_cmd": f"./check {pid} --tier quick",
            "thorough_cmd": f"./check {pid} --tier thorough",
            "evidence_file": f"/verif/evidence/{pid}.json",
            "replay_cmd_template": f"./check {pid} --replay {{path}}",
            "engine": engine,
            "level_claimed": {"category": level, "text": text, "design_ref": "DESIGN.md section " + ref},
            "level_note": note,
            "technique": technique,
        })
    hooks = subprocess.run(["git", "-C", "/repo", "log", "--format=%h %s", "--grep=^verif hooks"],
                           capture_output=True, text=True).stdout.strip().splitlines()
    m = {
        "version": 1,
        "setup_cmd": "./setup.sh",
        "hooks": {
            "guard": "cargo feature `verif` of elvis-core",
            "enable": "harness crates depend on elvis-core by path with features=[\"verif\"]; tokio is patched to /verif/vendor/tokio via [patch.crates-io] in /verif/harness/Cargo.toml",
            "baseline_off_cmd": "/verif/baseline.sh",
            "source_commits": [h.split()[0] for h in hooks],
            "add_only": True,
        },
        "engines": [
            {"name": "E1", "path": "harness/vkit/src/search.rs", "kind_free_text": E1,
             "serves_properties": ["C01", "C03", "C07", "C09", "C11", "C12", "C15", "C17"]},
            {"name": "E2", "path": "harness/vkit/src/sched.rs", "kind_free_text": E2 + "; vendored tokio 1.53.1 with a task chooser and a select-branch chooser in /verif/vendor/tokio",
             "serves_properties": ["C01", "C02", "C04", "C05", "C06", "C13", "C14", "C15", "C16", "C19", "C20"]},
            {"name": "E3", "path": "harness/vkit/src/enumerate.rs", "kind_free_text": E3,
             "serves_properties": ["C08", "C09", "C10", "C12", "C14", "C18", "C19"]},
        ],
        "checks": checks,
        "not_applicable": na,
        "notes": "All checks enter through ./check <ID> --tier quick|thorough; known genuine defects are listed in known_findings.json (open entries print KNOWN-FINDING and exit 0; fixed entries suppress nothing).",
    }
    json.dump(m, open(os.path.join(HERE, "MANIFEST.json"), "w"), indent=1)
    print("claimed", [c["property_id"] for c in checks], "not_applicable", len(na))

if __name__ == "__main__":
    main()
