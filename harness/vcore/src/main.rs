//! Check binary for the properties that need elvis-core only.
//! Usage: vcore <ID> --tier quick|thorough [--replay file]

mod c01;
mod c02;
mod c03;
mod c04;
mod c05;
mod c06;
mod c07;
mod c08;
mod c09;
mod c10;
mod c11;
mod c12;
mod c17;
mod c20;
mod stack;
mod c14dec;
mod tcpmodel;

use vkit::report::{load_replay, parse_args, Report};

type RunFn = fn(&mut Report, &str);
type ReplayFn = fn(&serde_json::Value, &str) -> String;

/// id, evidence level, run, replay
const CHECKS: &[(&str, &str, RunFn, ReplayFn)] = &[
    ("C01", "model_checking", c01::run, c01::replay),
    ("C02", "model_checking", c02::run, c02::replay),
    ("C03", "model_checking", c03::run, c03::replay),
    ("C04", "model_checking", c04::run, c04::replay),
    ("C05", "model_checking", c05::run, c05::replay),
    ("C06", "model_checking", c06::run, c06::replay),
    ("C07", "model_checking", c07::run, c07::replay),
    ("C08", "exploration", c08::run, c08::replay),
    ("C09", "model_checking", c09::run, c09::replay),
    ("C10", "exploration", c10::run, c10::replay),
    ("C11", "model_checking", c11::run, c11::replay),
    ("C12", "model_checking", c12::run, c12::replay),
    ("C17", "model_checking", c17::run, c17::replay),
    ("C20", "model_checking", c20::run, c20::replay),
    // decoder part of C14, runnable on its own; ./check C14 runs the vapp binary, which includes it
    ("C14dec", "exploration", c14dec::run, c14dec::replay),
];

fn main() {
    let args = parse_args();
    vkit::install_panic_hook();
    rayon::ThreadPoolBuilder::new()
        .num_threads(vkit::threads())
        .stack_size(16 << 20)
        .build_global()
        .ok();
    let Some(c) = CHECKS.iter().find(|c| c.0 == args.id) else {
        eprintln!("MACHINERY-ERROR unknown property {}", args.id);
        std::process::exit(2);
    };
    if let Some(path) = &args.replay {
        let v = load_replay(path);
        println!("{}", (c.3)(&v["witness"], &args.tier));
        return;
    }
    vkit::quiet_stdout();
    let mut r = Report::new(c.0, &args.tier, c.1);
    (c.2)(&mut r, &args.tier);
    std::process::exit(r.finish());
}
