//! C01 - TCP delivers a reliable, ordered, exactly-once byte stream.

use crate::tcpmodel::*;
use serde_json::json;
use std::time::Duration;
use vkit::{
    key128,
    sched::{self, Bounds, Scenario},
    search::{self, Limits, Model},
    Report, Violation,
};

pub struct T1 {
    pub cfg: Cfg,
    pub name: String,
    pub max_rto: usize,
}

impl Model for T1 {
    type State = Sys;
    type Action = Act;

    fn name(&self) -> String {
        self.name.clone()
    }
    fn init(&self) -> Vec<Sys> {
        vec![Sys::new(&self.cfg)]
    }
    fn actions(&self, s: &Sys) -> Vec<Act> {
        s.actions(&self.cfg)
    }
    fn step(&self, s: &Sys, a: &Act) -> Result<Sys, Violation> {
        let mut n = s.clone();
        guarded(|| {
            n.apply(&self.cfg, a);
        })?;
        if let Some(v) = n.prefix_violation() {
            return Err(v);
        }
        Ok(n)
    }
    fn key(&self, s: &Sys) -> u128 {
        key128(&s.canon())
    }
    fn check(&self, s: &Sys) -> Vec<Violation> {
        closure_check(&self.cfg, s, self.max_rto)
    }
    fn describe(&self, s: &Sys) -> String {
        s.describe()
    }
}

/// (O3) from this state, with faults over, everything written is delivered, acknowledged, and
/// both sides fall silent.
pub fn closure_check(cfg: &Cfg, s: &Sys, max_rto: usize) -> Vec<Violation> {
    let mut c = s.clone();
    let r = guarded(|| {
        let r = c.converge(cfg, max_rto);
        if let Some(v) = c.prefix_violation() {
            return Err(v);
        }
        match r {
            Ok(_) => match c.silent_after() {
                Ok(()) => Ok(()),
                Err(d) => Err(Violation::new(
                    "eventual-silence",
                    "fair-continuation",
                    "transmits-after-convergence",
                    d,
                )),
            },
            Err((kind, detail)) => Err(Violation::new(
                "eventual-delivery",
                "fair-continuation",
                &kind,
                format!("after {max_rto} RTO rounds: {detail}"),
            )),
        }
    });
    match r {
        Ok(Ok(())) => vec![],
        Ok(Err(v)) => vec![v],
        Err(v) => vec![v],
    }
}

// ---------------------------------------------------------------------------------------------
// T2: large transfers, deviation-bounded.

pub struct T2 {
    pub cfg: Cfg,
    pub name: String,
    pub max_rto: usize,
    /// The application reads as late as possible: only when nothing can be delivered or written
    /// (so the 64 KiB receive buffer fills up, possibly in the middle of a segment).
    pub lazy_reader: bool,
}

/// Enabled actions in default-priority order: index 0 is what a loss-free, eager, FIFO world does.
fn prioritized(sys: &Sys, cfg: &Cfg, lazy_reader: bool) -> Vec<Act> {
    let acts = sys.actions(cfg);
    let mut out = vec![];
    // 0. an eager application reads as soon as something is readable
    if !lazy_reader {
        for s in [B, A] {
            if acts.contains(&Act::Read(s)) {
                out.push(Act::Read(s));
            }
        }
    }
    // 1. deliver the oldest segment (towards B first, then towards A)
    for d in [B, A] {
        if acts.contains(&Act::Deliver(d, 0)) {
            out.push(Act::Deliver(d, 0));
        }
    }
    // 2. application writes, A first
    for s in [A, B] {
        if acts.contains(&Act::Write(s)) {
            out.push(Act::Write(s));
        }
    }
    // 2b. a lazy application reads only now
    if lazy_reader && out.is_empty() {
        for s in [B, A] {
            if acts.contains(&Act::Read(s)) {
                out.push(Act::Read(s));
            }
        }
    }
    // 3. timers only when nothing else is enabled by default
    let idle = out.is_empty();
    // everything else is a deviation
    for a in acts {
        if out.contains(&a) {
            continue;
        }
        match a {
            Act::Tick(_) | Act::Step(_) if idle => out.insert(0, a),
            _ => out.push(a),
        }
    }
    out
}

impl Scenario for T2 {
    type Obs = (Vec<usize>, Vec<usize>, u64);
    fn name(&self) -> String {
        self.name.clone()
    }
    fn run(&self) -> (Self::Obs, Vec<Violation>) {
        let cfg = &self.cfg;
        let mut sys = Sys::new(cfg);
        let mut viols = vec![];
        let mut steps = 0u64;
        loop {
            let acts = prioritized(&sys, cfg, self.lazy_reader);
            // stop when only budgeted timer actions are left and nothing is in flight
            let only_timers = acts
                .iter()
                .all(|a| matches!(a, Act::Tick(_) | Act::Step(_)));
            if acts.is_empty() || (only_timers && sys.settled()) {
                break;
            }
            // limit the menu: alternatives beyond 12 add little and cost quadratically
            let n = acts.len().min(12);
            let i = sched::choose(sched::KIND_ENV, n);
            sys.apply(cfg, &acts[i]);
            steps += 1;
            if let Some(v) = sys.prefix_violation() {
                viols.push(v);
                break;
            }
            if steps > 20_000 {
                viols.push(Violation::new(
                    "terminates",
                    "driver",
                    "step-cap",
                    "more than 20000 driver steps",
                ));
                break;
            }
        }
        if viols.is_empty() {
            viols.extend(closure_check(cfg, &sys, self.max_rto));
        }
        (
            (
                vec![sys.side[A].read.len(), sys.side[B].read.len()],
                vec![sys.net[A].len(), sys.net[B].len()],
                steps,
            ),
            viols,
        )
    }
}

pub fn t1_cfg(tier: &str) -> Vec<(String, Cfg)> {
    let mut v = vec![];
    let mut c = Cfg::basic(100, 100, 300);
    c.writes = [vec![3], vec![2]];
    c.drops = 1;
    c.dups = 1;
    c.ticks = [1, 1];
    v.push(("T1 mtu100 iss(100,300) w[3|2] drop1 dup1 tick1".to_string(), c.clone()));
    if tier == "thorough" {
        let mut c2 = c.clone();
        c2.iss = [u32::MAX - 1, u32::MAX];
        v.push(("T1 mtu100 iss(2^32-2,2^32-1) w[3|2] drop1 dup1 tick1".into(), c2));
        let mut c3 = Cfg::basic(100, 100, 300);
        c3.writes = [vec![1, 3], vec![3]];
        c3.drops = 2;
        c3.dups = 0;
        c3.ticks = [2, 1];
        c3.steps = [1, 0];
        v.push(("T1 mtu100 w[1,3|3] drop2 tick(2,1) step(1,0)".into(), c3));
        let mut c4 = Cfg::basic(100, 100, 300);
        c4.writes = [vec![3], vec![2]];
        c4.drops = 1;
        c4.dups = 0;
        c4.ticks = [1, 1];
        c4.auto_flush = false;
        c4.auto_read = false;
        v.push(("T1 mtu100 w[3|2] drop1 tick1 separate Flush/Read".into(), c4));
    }
    v
}

pub fn t2_cfgs(tier: &str) -> Vec<(String, Cfg, usize, bool)> {
    let mut v = vec![];
    let sizes: &[(u16, usize, usize)] = if tier == "quick" {
        // (100, 9000, 0): 150 segments of 60 bytes in one window, so that one lost or overtaken
        // segment leaves far more than a hundred segments queued behind the gap
        &[(100, 51, 120), (1500, 1451, 51), (1500, 70_000, 0), (100, 9000, 0)]
    } else {
        &[
            (100, 51, 120),
            (101, 120, 51),
            (576, 1451, 120),
            (1500, 1451, 51),
            (1500, 70_000, 0),
            (65535, 70_000, 1451),
            (100, 1451, 0),
            (100, 9000, 0),
            (100, 9000, 9000),
        ]
    };
    for &(mtu, wa, wb) in sizes {
        let mut c = Cfg::basic(mtu, 100, 300);
        c.writes = [
            if wa > 0 { vec![wa] } else { vec![] },
            if wb > 0 { vec![wb] } else { vec![] },
        ];
        c.drops = 2;
        c.dups = 1;
        c.ticks = [3, 3];
        c.reorder = true;
        let big = wa.max(wb) > 2000;
        // hundreds of segments: a second level of deviations is tens of millions of stored
        // prefixes (the first thorough run of this configuration took 64 GB)
        let many = mtu <= 101 && wa.max(wb) >= 9000;
        // 25 segments: the third level alone is millions of executions
        let medium = mtu <= 101 && wa.max(wb) > 1000;
        let d = if tier == "quick" || many {
            1
        } else if big || medium {
            2
        } else {
            3
        };
        v.push((format!("T2 mtu{mtu} w[{wa}|{wb}] drop2 dup1 tick3"), c.clone(), d, false));
        if big {
            // the same transfer with an application that reads as late as possible
            let mut l = c.clone();
            l.auto_read = false;
            l.ticks = [6, 6];
            v.push((format!("T2 mtu{mtu} w[{wa}|{wb}] drop2 dup1 tick6, late reader"), l, if tier == "quick" || many { 1 } else { 2 }, true));
        }
    }
    {
        // 70 writes of 1000 bytes, acknowledged as they go (the sender is never window-limited),
        // read as late as possible: the 65535-byte buffer fills in the middle of segment 66, whose
        // retransmission must later be trimmed at the front
        let mut l = Cfg::basic(1050, 100, 300);
        l.writes = [vec![1000; 70], vec![]];
        l.drops = 1;
        l.dups = 1;
        l.ticks = [6, 6];
        l.auto_read = false;
        v.push(("T2 mtu1050 w[70 x 1000|0] drop1 dup1 tick6, late reader".to_string(), l, if tier == "quick" { 1 } else { 2 }, true));
    }
    if tier != "quick" {
        // 1000-byte segments: 65535 is not a multiple, the buffer fills inside segment 66
        let mut l = Cfg::basic(1050, 100, 300);
        l.writes = [vec![70_000], vec![]];
        l.drops = 1;
        l.dups = 1;
        l.ticks = [6, 6];
        l.auto_read = false;
        v.push(("T2 mtu1050 w[70000|0] drop1 dup1 tick6, late reader".to_string(), l, 1, true));
    }
    v
}

pub fn run(report: &mut Report, tier: &str) {
    report.assume("the network may lose, duplicate and reorder but not corrupt or forge segments");
    report.assume("explicit-state search is exhaustive up to the fault/write/timer budgets named in each part");
    let limits = Limits {
        max_wall: Duration::from_secs(if tier == "quick" { 120 } else { 1500 }),
        ..Default::default()
    };
    let mut all_fixpoint = true;
    for (name, cfg) in t1_cfg(tier) {
        let m = T1 {
            cfg,
            name,
            max_rto: 8,
        };
        let st = search::run_into(&m, &limits, report);
        all_fixpoint &= st.fixpoint;
    }
    for (name, cfg, d, lazy_reader) in t2_cfgs(tier) {
        let s = T2 {
            cfg,
            name,
            max_rto: 8,
            lazy_reader,
        };
        let b = Bounds::new(d).wall(Duration::from_secs(if tier == "quick" { 60 } else { 600 }));
        sched::run_into(&s, &b, report);
    }
    report.set("exhaustive", json!(all_fixpoint));
    report.set(
        "rule",
        json!("T1: breadth-first search to a fixpoint over two real Tcbs and a network of real Segments (states = distinct canonical full states incl. Debug of both Tcbs). T2: deviation-bounded enumeration of driver decisions for large transfers (states = executions)."),
    );
}

pub fn replay(w: &serde_json::Value, tier: &str) -> String {
    let name = w["model"].as_str().or(w["scenario"].as_str()).unwrap_or("");
    for t in ["quick", "thorough", tier] {
        for (n, cfg) in t1_cfg(t) {
            if n == name {
                let m = T1 {
                    cfg,
                    name: n,
                    max_rto: 8,
                };
                let path: Vec<u32> = w["path"]
                    .as_array()
                    .unwrap()
                    .iter()
                    .map(|x| x.as_u64().unwrap() as u32)
                    .collect();
                return search::replay(&m, &path).0.join("\n");
            }
        }
        for (n, cfg, _, lazy_reader) in t2_cfgs(t) {
            if n == name {
                let s = T2 {
                    cfg,
                    name: n,
                    max_rto: 8,
                    lazy_reader,
                };
                let ch: Vec<u16> = w["choices"]
                    .as_array()
                    .unwrap()
                    .iter()
                    .map(|x| x.as_u64().unwrap() as u16)
                    .collect();
                return sched::replay(&s, &ch);
            }
        }
    }
    format!("unknown model/scenario {name}")
}
