//! C11 - IPv4 reassembly rebuilds exactly the datagrams that were fragmented.
//!
//! E1: breadth-first search over a real `Reassembly` (cloned per transition). The fragment pools
//! are produced by the real `fragmentation::fragment` (also through MTU chains, so that pieces of
//! two chains overlap without coinciding). Actions: deliver any fragment of the pool (again, while
//! the duplicate budget lasts), or let time pass until the k oldest expiry callbacks have fired.
//!
//! Reference (plain code): per buffer key the multiset of pool fragments received since the last
//! completion or discard. `receive_packet` must return `Complete` iff their byte ranges cover
//! `0..len`, and then the header and the payload must be the original ones. A callback discards
//! the buffer iff no fragment of that key arrived after the callback was requested; this is
//! observed through the next deliveries: right after every callback the missing pieces are
//! delivered to a *clone* of the reassembler, which must complete iff the buffer should still be
//! there (a control clone taken just before the callback shows that these deliveries do complete
//! the datagram when no callback interferes).
//!
//! Separate models keep the acknowledged weak spots (duplicates, overlapping pieces, reuse of
//! epoch numbers) from hiding everything else: the models without duplicates/overlap/expiry must
//! be completely clean.

use elvis_core::{
    protocols::ipv4::{
        fragmentation::{fragment, Fragments},
        ipv4_parsing::{verif_build_header, Ipv4Header},
        verif::{Reassembly, ReceivePacketResult},
        Ipv4Address,
    },
    Message,
};
use serde_json::json;
use std::{collections::HashSet, sync::Mutex, time::Duration};
use vkit::{
    catch, key128,
    search::{self, Limits, Model},
    Report, Violation,
};

const RECV: &str = "Reassembly::receive_packet";
const CULL: &str = "Reassembly::maybe_cull_segment";
/// Payload byte i of the datagram with tag t is `t * 31 + i % 31`: the tag names the datagram,
/// and since fragment boundaries are multiples of 8 (never of 31) a piece put at the wrong place
/// changes the bytes.
const MODULUS: usize = 31;

// ---------------------------------------------------------------------------------------------
// Datagrams and fragment pools

#[derive(Clone)]
struct DgSpec {
    label: &'static str,
    tag: u8,
    src: [u8; 4],
    dst: [u8; 4],
    proto: u8,
    id: u16,
    len: usize,
    /// MTU chains the datagram travels through; the first one is the "primary" chain
    chains: Vec<Vec<u16>>,
    /// `Some(p)`: a later datagram with the same key as datagram p. Its fragments are enabled
    /// once p has completed and nothing of p is buffered (by the reference); from its first
    /// fragment on, fragments of p no longer arrive.
    after: Option<usize>,
}

fn x() -> DgSpec {
    DgSpec {
        label: "X",
        tag: 0,
        src: [10, 0, 0, 1],
        dst: [10, 0, 0, 2],
        proto: 17,
        id: 7,
        len: 100,
        chains: vec![vec![68]],
        after: None,
    }
}
fn y(which: &str) -> DgSpec {
    let mut d = x();
    match which {
        "src" => {
            d.label = "Ysrc";
            d.tag = 1;
            d.src = [10, 0, 0, 3];
        }
        "dst" => {
            d.label = "Ydst";
            d.tag = 2;
            d.dst = [10, 0, 0, 4];
        }
        "proto" => {
            d.label = "Yproto";
            d.tag = 3;
            d.proto = 6;
        }
        _ => {
            d.label = "Yid";
            d.tag = 4;
            d.id = 8;
        }
    }
    d
}
/// Same key as X (datagram 0 of the model), other bytes, other length, sent later.
fn x2() -> DgSpec {
    let mut d = x();
    d.label = "X'";
    d.tag = 5;
    d.len = 60;
    d.after = Some(0);
    d
}
/// 200 bytes; MTU 68 gives 48,48,48,48,8 and the chain 124->68 gives 48,48,8,48,48.
fn z(chains: Vec<Vec<u16>>) -> DgSpec {
    let mut d = x();
    d.label = "Z";
    d.tag = 6;
    d.id = 9;
    d.len = 200;
    d.chains = chains;
    d
}
/// Fits into the MTU: one piece with offset 0 and MF clear.
fn w() -> DgSpec {
    let mut d = x();
    d.label = "W";
    d.tag = 7;
    d.id = 10;
    d.len = 8;
    d
}

pub struct Dg {
    label: &'static str,
    tag: u8,
    header: Ipv4Header,
    payload: Vec<u8>,
    key: usize,
    after: Option<usize>,
    successor: Option<usize>,
    /// pool indices of the fragments of the first chain, by offset
    primary: Vec<usize>,
}

pub struct Frag {
    dg: usize,
    lo: usize,
    hi: usize,
    header: Ipv4Header,
    body: Vec<u8>,
    label: String,
}

pub struct Cfg {
    pub name: String,
    dgs: Vec<Dg>,
    pool: Vec<Frag>,
    nkeys: usize,
    /// how many deliveries may be repeats of a fragment delivered before (each fragment at most twice)
    dups: u8,
    /// how many times time may advance to an expiry
    expiries: u8,
}

fn build_cfg(name: &str, specs: Vec<DgSpec>, dups: u8, expiries: u8) -> Result<Cfg, String> {
    let mut dgs: Vec<Dg> = vec![];
    let mut pool: Vec<Frag> = vec![];
    let mut keys: Vec<([u8; 4], [u8; 4], u8, u16)> = vec![];
    for (di, s) in specs.iter().enumerate() {
        let k = (s.src, s.dst, s.proto, s.id);
        let key = match keys.iter().position(|x| *x == k) {
            Some(i) => {
                // two datagrams may share a key only as predecessor/successor
                let ok = s.after.map(|p| dgs[p].key == i).unwrap_or(false);
                if !ok {
                    return Err(format!("{name}: {} shares a key without `after`", s.label));
                }
                i
            }
            None => {
                keys.push(k);
                keys.len() - 1
            }
        };
        let payload: Vec<u8> = (0..s.len)
            .map(|i| s.tag * MODULUS as u8 + (i % MODULUS) as u8)
            .collect();
        let hb = verif_build_header(
            Ipv4Address::new(s.src),
            Ipv4Address::new(s.dst),
            s.proto,
            s.len as u16,
            None,
            Some(s.id),
            None,
            None,
        )
        .map_err(|e| format!("{name}: header of {}: {e}", s.label))?;
        let header = Ipv4Header::from_bytes(hb.into_iter())
            .map_err(|e| format!("{name}: header of {} does not parse: {e}", s.label))?;
        let mut primary = vec![];
        for (ci, chain) in s.chains.iter().enumerate() {
            let mut cur = vec![(header, Message::new(payload.clone()))];
            for &mtu in chain {
                let mut next = vec![];
                for (h, b) in cur {
                    match fragment(h, b, mtu) {
                        Fragments::Fragmented(v) => next.extend(v),
                        Fragments::DontFragment(f) => next.push(f),
                        Fragments::Discard => {
                            return Err(format!("{name}: fragment() discarded a piece of {}", s.label))
                        }
                    }
                }
                cur = next;
            }
            // precondition (the business of the fragmentation property, not of this one): the
            // pieces tile the payload
            let mut at = 0usize;
            for (h, b) in &cur {
                let lo = h.fragment_offset as usize * 8;
                let body = b.to_vec();
                let hi = lo + body.len();
                if lo != at || hi > s.len || body != payload[lo..hi] {
                    return Err(format!(
                        "{name}: fragment() output for {} chain {chain:?} does not tile the payload at {lo}..{hi}",
                        s.label
                    ));
                }
                at = hi;
                let idx = match pool
                    .iter()
                    .position(|f| f.dg == di && f.header == *h && f.body == body)
                {
                    Some(i) => i,
                    None => {
                        pool.push(Frag {
                            dg: di,
                            lo,
                            hi,
                            header: *h,
                            body,
                            label: format!(
                                "{}[{lo}..{hi}){}",
                                s.label,
                                if h.flags.is_last_fragment() { "L" } else { "" }
                            ),
                        });
                        pool.len() - 1
                    }
                };
                if ci == 0 {
                    primary.push(idx);
                }
            }
            if at != s.len {
                return Err(format!("{name}: fragment() output for {} ends at {at}", s.label));
            }
        }
        dgs.push(Dg {
            label: s.label,
            tag: s.tag,
            header,
            payload,
            key,
            after: s.after,
            successor: None,
            primary,
        });
    }
    for i in 0..dgs.len() {
        if let Some(p) = dgs[i].after {
            dgs[p].successor = Some(i);
        }
    }
    Ok(Cfg {
        name: name.into(),
        dgs,
        pool,
        nkeys: keys.len(),
        dups,
        expiries,
    })
}

/// Datagrams of other lengths: `len` bytes under its own identification.
fn l(label: &'static str, tag: u8, id: u16, len: usize, chains: Vec<Vec<u16>>) -> DgSpec {
    let mut d = x();
    d.label = label;
    d.tag = tag;
    d.id = id;
    d.len = len;
    d.chains = chains;
    d
}

type Spec = (&'static str, Vec<DgSpec>, u8, u8);

fn specs(tier: &str) -> Vec<Spec> {
    let direct = vec![vec![68u16]];
    let chain = vec![vec![124u16, 68]];
    let both = vec![vec![68u16], vec![124, 68]];
    // 49 = 48+1, 96 = 48+48 (last piece full), 104 = 48+48+8
    let lens = || {
        vec![
            l("L49", 1, 11, 49, vec![vec![68]]),
            l("L96", 2, 12, 96, vec![vec![68]]),
            l("L104", 3, 13, 104, vec![vec![68]]),
        ]
    };
    // 300 bytes through 156 then 68: 48,48,40 | 48,48,40 | 28 (middle pieces shorter than the MTU allows)
    let v300 = || l("V", 4, 14, 300, vec![vec![156, 68]]);
    let mut v: Vec<Spec> = vec![
        // must be clean
        ("A1 X+Yid+W once, no expiry", vec![x(), y("id"), w()], 0, 0),
        ("A2 Z@68 once, no expiry", vec![z(direct.clone())], 0, 0),
        ("A3 Z@124>68 once, no expiry", vec![z(chain.clone())], 0, 0),
        ("A4 X+Yid once, expiry<=2", vec![x(), y("id")], 0, 2),
        ("A5 L49+L96+L104 once, no expiry", lens(), 0, 0),
        ("A6 V@156>68 once, no expiry", vec![v300()], 0, 0),
        ("A7 X then X' + Yproto once, no expiry", vec![x(), x2(), y("proto")], 0, 0),
        // acknowledged weak spots, one mechanism per model
        ("B1 X+Yid dup<=1, no expiry", vec![x(), y("id")], 1, 0),
        ("C1 Z@68+Z@124>68 once, no expiry", vec![z(both.clone())], 0, 0),
        ("D1 X then X' once, expiry<=2", vec![x(), x2()], 0, 2),
        ("D3 X then X' dup<=1, expiry<=2", vec![x(), x2()], 1, 2),
    ];
    if tier == "thorough" {
        v.extend([
            (
                "A8 X then X' +Ysrc+Ydst+Yproto+Yid+W once, no expiry",
                vec![x(), x2(), y("src"), y("dst"), y("proto"), y("id"), w()],
                0,
                0,
            ),
            ("A9 X+Ysrc+Ydst once, expiry<=2", vec![x(), y("src"), y("dst")], 0, 2),
            ("A10 X+Yproto once, expiry<=4", vec![x(), y("proto")], 0, 4),
            ("A11 Z@68+V@156>68 once, no expiry", vec![z(direct), v300()], 0, 0),
            ("A12 L49+L96+L104 once, expiry<=2", lens(), 0, 2),
            ("B2 X+Ysrc dup<=2, no expiry", vec![x(), y("src")], 2, 0),
            ("B3 X+Ydst dup<=2, no expiry", vec![x(), y("dst")], 2, 0),
            ("B4 X+Yproto dup<=2, no expiry", vec![x(), y("proto")], 2, 0),
            ("B5 X+Yid dup<=2, no expiry", vec![x(), y("id")], 2, 0),
            ("B6 X then X' dup<=2, no expiry", vec![x(), x2()], 2, 0),
            (
                "B7 X+Ysrc+Ydst+Yproto+Yid dup<=2, no expiry",
                vec![x(), y("src"), y("dst"), y("proto"), y("id")],
                2,
                0,
            ),
            ("B8 L49+L96+L104 dup<=2, no expiry", lens(), 2, 0),
            ("C2 Z@68+Z@124>68 dup<=2, no expiry", vec![z(both.clone())], 2, 0),
            ("C3 Z@68+Z@124>68 + Yid once, no expiry", vec![z(both), y("id")], 0, 0),
            ("D2 X then X' + Yid once, expiry<=2", vec![x(), x2(), y("id")], 0, 2),
            ("D4 X+Yid dup<=2, expiry<=2", vec![x(), y("id")], 2, 2),
            ("D5 X then X' dup<=2, expiry<=3", vec![x(), x2()], 2, 3),
        ]);
    }
    v
}

pub fn cfgs(tier: &str) -> Vec<Result<Cfg, String>> {
    specs(tier)
        .into_iter()
        .map(|(n, s, d, e)| build_cfg(n, s, d, e))
        .collect()
}

// ---------------------------------------------------------------------------------------------
// The model

#[derive(Clone)]
struct Cb {
    /// the `Incomplete(timeout, buf_id, epoch)` the reassembler returned (BufId/Epoch are opaque)
    token: ReceivePacketResult,
    key: usize,
    /// a fragment of this key arrived after the callback was requested
    superseded: bool,
}

#[derive(Clone)]
pub struct St {
    real: Reassembly,
    delivered: Vec<u8>,
    dups_used: u8,
    expiries_used: u8,
    /// reference: per key the sorted multiset of pool fragments since the last completion/discard
    pieces: Vec<Vec<usize>>,
    completed: Vec<u8>,
    started: Vec<bool>,
    /// expiry callbacks requested and not yet fired, oldest first
    pending: Vec<Cb>,
    /// per key the epoch the reassembler reported for its live buffer (None: no live buffer)
    live_epoch: Vec<Option<u16>>,
}

#[derive(Clone, PartialEq)]
pub enum Act {
    Deliver(usize, String),
    /// time passes until the n oldest pending callbacks have fired (all timeouts are equal, so
    /// callbacks fire in the order they were requested)
    Expire(usize),
}

impl std::fmt::Debug for Act {
    fn fmt(&self, f: &mut std::fmt::Formatter<'_>) -> std::fmt::Result {
        match self {
            Act::Deliver(_, l) => write!(f, "deliver {l}"),
            Act::Expire(n) => write!(f, "fire the {n} oldest expiry callback(s)"),
        }
    }
}

/// Counts distinct keys (the engine re-executes paths when it renders samples and witnesses, so
/// plain counters would drift).
struct Distinct(Vec<Mutex<HashSet<u128>>>);

impl Distinct {
    fn new() -> Self {
        Self((0..64).map(|_| Mutex::new(HashSet::new())).collect())
    }
    fn insert(&self, k: u128) {
        self.0[(k % 64) as usize].lock().unwrap().insert(k);
    }
    fn len(&self) -> u64 {
        self.0.iter().map(|m| m.lock().unwrap().len() as u64).sum()
    }
}

pub struct M {
    pub cfg: Cfg,
    /// distinct reference states with >= 2 pieces buffered
    nontrivial: Distinct,
    /// distinct (reference state, fragment) deliveries that returned a datagram equal to the original
    completions: Distinct,
    /// distinct (reference state, callback) firings followed by the delivery of the missing pieces
    probes: Distinct,
}

impl M {
    pub fn new(cfg: Cfg) -> Self {
        Self {
            cfg,
            nontrivial: Distinct::new(),
            completions: Distinct::new(),
            probes: Distinct::new(),
        }
    }

    /// Key of the reference part of a state (everything but the real reassembler).
    fn ref_key(s: &St) -> u128 {
        let pend: Vec<(usize, bool)> = s.pending.iter().map(|c| (c.key, c.superseded)).collect();
        key128(&(
            &s.delivered,
            s.dups_used,
            s.expiries_used,
            &s.pieces,
            &s.completed,
            &s.started,
            pend,
        ))
    }

    fn labels(&self, pieces: &[usize]) -> String {
        pieces
            .iter()
            .map(|&f| self.cfg.pool[f].label.as_str())
            .collect::<Vec<_>>()
            .join(" ")
    }

    /// Do the ranges of these pool fragments cover `0..len`?
    fn covers(&self, pieces: &[usize], len: usize) -> bool {
        let mut r: Vec<(usize, usize)> = pieces
            .iter()
            .map(|&f| (self.cfg.pool[f].lo, self.cfg.pool[f].hi))
            .collect();
        r.sort();
        let mut at = 0;
        for (lo, hi) in r {
            if lo > at {
                return false;
            }
            at = at.max(hi);
        }
        at >= len
    }

    fn contained(&self, f: usize, pieces: &[usize]) -> bool {
        // is every byte of fragment f inside the union of `pieces`?
        let fr = &self.cfg.pool[f];
        (fr.lo..fr.hi).all(|b| {
            pieces
                .iter()
                .any(|&p| self.cfg.pool[p].lo <= b && b < self.cfg.pool[p].hi)
        })
    }

    fn header_diff(want: &Ipv4Header, got: &Ipv4Header) -> Option<&'static str> {
        if want.source != got.source {
            Some("source")
        } else if want.destination != got.destination {
            Some("destination")
        } else if want.protocol != got.protocol {
            Some("protocol")
        } else if want.identification != got.identification {
            Some("identification")
        } else if want.total_length != got.total_length {
            Some("total_length")
        } else if want.fragment_offset != got.fragment_offset {
            Some("fragment_offset")
        } else if want.flags != got.flags {
            Some("flags")
        } else if want.ihl != got.ihl {
            Some("ihl")
        } else if want.time_to_live != got.time_to_live {
            Some("time_to_live")
        } else if want.type_of_service != got.type_of_service {
            Some("type_of_service")
        } else if want.checksum != got.checksum {
            Some("checksum")
        } else {
            None
        }
    }

    /// Names the mechanism behind a wrong payload from the witness (which pieces were buffered)
    /// and the shape of what came back.
    fn classify_payload(&self, dg: &Dg, pieces: &[usize], got: &[u8]) -> &'static str {
        let pool = &self.cfg.pool;
        let sum: usize = pieces.iter().map(|&f| pool[f].hi - pool[f].lo).sum();
        let has_dup = pieces.windows(2).any(|w| w[0] == w[1]);
        let has_overlap = pieces.iter().any(|&a| {
            pieces
                .iter()
                .any(|&b| a != b && pool[a].lo < pool[b].hi && pool[b].lo < pool[a].hi)
        });
        let foreign = got.iter().any(|&b| b / MODULUS as u8 != dg.tag);
        if foreign {
            "foreign-bytes-mixed"
        } else if got.len() == sum && sum > dg.payload.len() && has_overlap {
            "overlapping-fragment-concatenated"
        } else if got.len() == sum && sum > dg.payload.len() && has_dup {
            "duplicate-fragment-concatenated"
        } else if has_dup || has_overlap {
            "payload-wrong-with-repeated-pieces"
        } else if got.len() != dg.payload.len() {
            "payload-length-wrong"
        } else {
            let mut a = got.to_vec();
            let mut b = dg.payload.clone();
            a.sort();
            b.sort();
            if a == b {
                "payload-misordered"
            } else {
                "payload-corrupted"
            }
        }
    }

    fn deliver(&self, n: &mut St, f: usize) -> Result<(), Violation> {
        let cfg = &self.cfg;
        let before = Self::ref_key(n);
        let fr = &cfg.pool[f];
        let dg = &cfg.dgs[fr.dg];
        let key = dg.key;
        let res = catch(|| {
            n.real
                .receive_packet(fr.header, Message::new(fr.body.clone()))
        })
        .map_err(|p| Violation::panic(RECV, &p))?;
        n.delivered[f] += 1;
        if n.delivered[f] > 1 {
            n.dups_used += 1;
        }
        n.started[fr.dg] = true;
        for cb in n.pending.iter_mut() {
            if cb.key == key {
                cb.superseded = true;
            }
        }
        n.live_epoch[key] = match &res {
            ReceivePacketResult::Incomplete(_, _, e) => Some(*e),
            ReceivePacketResult::Complete(..) => None,
        };
        n.pieces[key].push(f);
        n.pieces[key].sort();
        let pieces = n.pieces[key].clone();
        let covered = self.covers(&pieces, dg.payload.len());
        match (covered, res) {
            (true, ReceivePacketResult::Complete(h, m)) => {
                if let Some(field) = Self::header_diff(&dg.header, &h) {
                    return Err(Violation::new(
                        "original-header",
                        RECV,
                        &format!("header-differs-{field}"),
                        format!(
                            "{}: buffered [{}]; returned {h:?}, original {:?}",
                            dg.label,
                            self.labels(&pieces),
                            dg.header
                        ),
                    ));
                }
                let got = m.to_vec();
                if got != dg.payload {
                    let d = self.classify_payload(dg, &pieces, &got);
                    return Err(Violation::new(
                        "original-payload",
                        RECV,
                        d,
                        format!(
                            "{} ({} bytes): pieces since last completion [{}]; returned {} bytes, first difference at byte {}",
                            dg.label,
                            dg.payload.len(),
                            self.labels(&pieces),
                            got.len(),
                            got.iter()
                                .zip(dg.payload.iter())
                                .position(|(a, b)| a != b)
                                .unwrap_or(got.len().min(dg.payload.len()))
                        ),
                    ));
                }
                self.completions.insert(key128(&(before, f)));
                n.pieces[key].clear();
                n.completed[fr.dg] = (n.completed[fr.dg] + 1).min(3);
                Ok(())
            }
            (true, ReceivePacketResult::Incomplete(..)) => Err(Violation::new(
                "complete-iff-covered",
                RECV,
                "no-complete-with-cover",
                format!(
                    "{}: pieces since last completion [{}] cover 0..{} but the result is Incomplete",
                    dg.label,
                    self.labels(&pieces),
                    dg.payload.len()
                ),
            )),
            (false, ReceivePacketResult::Complete(h, m)) => Err(Violation::new(
                "complete-iff-covered",
                RECV,
                "complete-without-cover",
                format!(
                    "{}: pieces since last completion [{}] do not cover 0..{} but a datagram came back: {h:?} with {} bytes",
                    dg.label,
                    self.labels(&pieces),
                    dg.payload.len(),
                    m.len()
                ),
            )),
            (false, r @ ReceivePacketResult::Incomplete(..)) => {
                // callbacks are only kept while they can still be fired
                if n.expiries_used < cfg.expiries {
                    n.pending.push(Cb {
                        token: r,
                        key,
                        superseded: false,
                    });
                }
                Ok(())
            }
        }
    }

    fn fire(&self, n: &mut St) -> Result<(), Violation> {
        let cfg = &self.cfg;
        let before = Self::ref_key(n);
        let cb = n.pending.remove(0);
        let pre = n.pieces[cb.key].clone();
        let ReceivePacketResult::Incomplete(_, id, epoch) = cb.token.clone() else {
            unreachable!()
        };
        // the pieces still missing (of the first chain), for the probes below
        let missing: Vec<usize> = match pre.first() {
            Some(&f0) => cfg.dgs[cfg.pool[f0].dg]
                .primary
                .iter()
                .copied()
                .filter(|&f| !self.contained(f, &pre))
                .collect(),
            None => vec![],
        };
        // does delivering them to a clone of the reassembler return a datagram?
        let probe = |r: &Reassembly| -> Result<bool, Violation> {
            let mut r = r.clone();
            let mut completed = false;
            for &f in &missing {
                let fr = &cfg.pool[f];
                let res = catch(|| r.receive_packet(fr.header, Message::new(fr.body.clone())))
                    .map_err(|p| Violation::panic(RECV, &p))?;
                if matches!(res, ReceivePacketResult::Complete(..)) {
                    completed = true;
                }
            }
            Ok(completed)
        };
        // control: the same deliveries without the callback (if these do not complete, the
        // callback is not to blame and the delivery oracle reports it on its own path)
        let control = if pre.is_empty() { false } else { probe(&n.real)? };
        let live_epoch = n.live_epoch[cb.key];
        catch(|| n.real.maybe_cull_segment(id, epoch)).map_err(|p| Violation::panic(CULL, &p))?;
        if !cb.superseded {
            n.pieces[cb.key].clear();
            n.live_epoch[cb.key] = None;
        }
        if pre.is_empty() || !control {
            return Ok(());
        }
        let dg = &cfg.dgs[cfg.pool[pre[0]].dg];
        let completed = probe(&n.real)?;
        self.probes.insert(before);
        let should_remain = cb.superseded;
        if should_remain && !completed {
            // the listed finding is the coincidence of epochs (a new buffer restarts at 0 and
            // reaches the stale token's epoch); any other stale token must leave the buffer alone
            let same_epoch = live_epoch == Some(epoch);
            return Err(Violation::new(
                "expiry",
                CULL,
                if same_epoch { "stale-expiry-culled-live-buffer" } else { "stale-expiry-with-another-epoch-culled-live-buffer" },
                format!(
                    "{}: callback {:?} was requested before the latest fragment of its key arrived; buffered [{}]; after it fired, delivering the missing [{}] does not complete the datagram",
                    dg.label,
                    cb.token,
                    self.labels(&pre),
                    self.labels(&missing)
                ),
            ));
        }
        if !should_remain && completed {
            return Err(Violation::new(
                "expiry",
                CULL,
                "expired-buffer-not-discarded",
                format!(
                    "{}: no fragment arrived after callback {:?} was requested; buffered [{}]; after it fired, delivering only [{}] still completes a datagram",
                    dg.label,
                    cb.token,
                    self.labels(&pre),
                    self.labels(&missing)
                ),
            ));
        }
        Ok(())
    }
}

/// `Debug` of the reassembler with the order-dependent parts sorted: the entries of the segment
/// map and the backing array of each fragment heap (pop order depends on offsets only). Falls
/// back to the raw string (sound, only less merging) when the shape is not the expected one.
fn canon_real(r: &Reassembly) -> String {
    let s = format!("{r:?}");
    fn close(s: &str, open: usize) -> Option<usize> {
        let mut depth = 0i32;
        for (i, c) in s[open..].char_indices() {
            match c {
                '{' | '[' | '(' => depth += 1,
                '}' | ']' | ')' => {
                    depth -= 1;
                    if depth == 0 {
                        return Some(open + i);
                    }
                }
                _ => {}
            }
        }
        None
    }
    fn split0(s: &str) -> Vec<String> {
        // Debug output of the reassembler is ASCII; cut at ", " outside any bracket
        let b = s.as_bytes();
        let mut out = vec![];
        let mut depth = 0i32;
        let mut from = 0;
        let mut i = 0;
        while i < b.len() {
            match b[i] {
                b'{' | b'[' | b'(' => depth += 1,
                b'}' | b']' | b')' => depth -= 1,
                b',' if depth == 0 && b.get(i + 1) == Some(&b' ') => {
                    out.push(s[from..i].to_string());
                    i += 2;
                    from = i;
                    continue;
                }
                _ => {}
            }
            i += 1;
        }
        if from < b.len() {
            out.push(s[from..].to_string());
        }
        out
    }
    let pat = "segments: {";
    let Some(p) = s.find(pat) else { return s };
    let open = p + pat.len() - 1;
    let Some(end) = close(&s, open) else { return s };
    let mut entries = split0(&s[open + 1..end]);
    for e in entries.iter_mut() {
        let fp = "fragments: [";
        if let Some(q) = e.find(fp) {
            let fo = q + fp.len() - 1;
            if let Some(fe) = close(e, fo) {
                let mut items = split0(&e[fo + 1..fe]);
                items.sort();
                *e = format!("{}{}{}", &e[..fo + 1], items.join(", "), &e[fe..]);
            }
        }
    }
    entries.sort();
    format!("{}{}{}", &s[..open + 1], entries.join(", "), &s[end..])
}

impl Model for M {
    type State = St;
    type Action = Act;

    fn name(&self) -> String {
        self.cfg.name.clone()
    }

    fn init(&self) -> Vec<St> {
        vec![St {
            real: Reassembly::new(),
            delivered: vec![0; self.cfg.pool.len()],
            dups_used: 0,
            expiries_used: 0,
            pieces: vec![vec![]; self.cfg.nkeys],
            completed: vec![0; self.cfg.dgs.len()],
            started: vec![false; self.cfg.dgs.len()],
            pending: vec![],
            live_epoch: vec![None; self.cfg.nkeys],
        }]
    }

    fn actions(&self, s: &St) -> Vec<Act> {
        let cfg = &self.cfg;
        let mut out = vec![];
        for (f, fr) in cfg.pool.iter().enumerate() {
            let dg = &cfg.dgs[fr.dg];
            if s.delivered[f] >= 2 || (s.delivered[f] == 1 && s.dups_used >= cfg.dups) {
                continue;
            }
            if let Some(p) = dg.after {
                let p_buffered = s.pieces[dg.key].iter().any(|&q| cfg.pool[q].dg == p);
                if s.completed[p] == 0 || p_buffered {
                    continue;
                }
            }
            if let Some(n) = dg.successor {
                if s.started[n] {
                    continue;
                }
            }
            out.push(Act::Deliver(f, fr.label.clone()));
        }
        if s.expiries_used < cfg.expiries {
            for n in 1..=s.pending.len() {
                out.push(Act::Expire(n));
            }
        }
        out
    }

    fn step(&self, s: &St, a: &Act) -> Result<St, Violation> {
        let mut n = s.clone();
        match a {
            Act::Deliver(f, _) => self.deliver(&mut n, *f)?,
            Act::Expire(k) => {
                n.expiries_used += 1;
                for _ in 0..*k {
                    self.fire(&mut n)?;
                }
                if n.expiries_used >= self.cfg.expiries {
                    // nothing can fire any more
                    n.pending.clear();
                }
            }
        }
        Ok(n)
    }

    fn key(&self, s: &St) -> u128 {
        let pend: Vec<(usize, bool, String)> = s
            .pending
            .iter()
            .map(|c| (c.key, c.superseded, format!("{:?}", c.token)))
            .collect();
        key128(&(
            &s.delivered,
            s.dups_used,
            s.expiries_used,
            &s.pieces,
            &s.completed,
            &s.started,
            pend,
            canon_real(&s.real),
        ))
    }

    fn check(&self, s: &St) -> Vec<Violation> {
        // non-trivial: a reassembly is in progress with at least two pieces buffered
        if s.pieces.iter().map(|p| p.len()).sum::<usize>() >= 2 {
            self.nontrivial.insert(Self::ref_key(s));
        }
        vec![]
    }

    fn describe(&self, s: &St) -> String {
        let bufs: Vec<String> = s
            .pieces
            .iter()
            .enumerate()
            .filter(|(_, p)| !p.is_empty())
            .map(|(k, p)| format!("key{k}:[{}]", self.labels(p)))
            .collect();
        let done: Vec<String> = self
            .cfg
            .dgs
            .iter()
            .zip(&s.completed)
            .filter(|(_, &c)| c > 0)
            .map(|(d, c)| format!("{}x{c}", d.label))
            .collect();
        let pend: Vec<String> = s
            .pending
            .iter()
            .map(|c| format!("key{}{}", c.key, if c.superseded { "(stale)" } else { "" }))
            .collect();
        format!(
            "expected buffers {{{}}} completed {{{}}} pending callbacks [{}]",
            bufs.join(" "),
            done.join(" "),
            pend.join(" ")
        )
    }
}

// ---------------------------------------------------------------------------------------------
// Cross-check of the search engine: the same init/actions/step/key driven by stateright's BFS
// must find the same number of distinct states.

#[derive(Clone)]
struct SrState {
    st: St,
    key: u128,
}
impl PartialEq for SrState {
    fn eq(&self, o: &Self) -> bool {
        self.key == o.key
    }
}
impl std::hash::Hash for SrState {
    fn hash<H: std::hash::Hasher>(&self, h: &mut H) {
        self.key.hash(h)
    }
}
impl std::fmt::Debug for SrState {
    fn fmt(&self, f: &mut std::fmt::Formatter<'_>) -> std::fmt::Result {
        write!(f, "{:032x}", self.key)
    }
}

struct SrModel(M);

impl stateright::Model for SrModel {
    type State = SrState;
    type Action = Act;
    fn init_states(&self) -> Vec<SrState> {
        Model::init(&self.0)
            .into_iter()
            .map(|st| SrState {
                key: self.0.key(&st),
                st,
            })
            .collect()
    }
    fn actions(&self, s: &SrState, out: &mut Vec<Act>) {
        out.extend(Model::actions(&self.0, &s.st));
    }
    fn next_state(&self, s: &SrState, a: Act) -> Option<SrState> {
        // a violating transition has no successor, exactly as in vkit::search
        self.0.step(&s.st, &a).ok().map(|st| SrState {
            key: self.0.key(&st),
            st,
        })
    }
    fn properties(&self) -> Vec<stateright::Property<Self>> {
        // never falsified: keeps the checker running until the state space is exhausted
        vec![stateright::Property::always("explore", |_, _| true)]
    }
}

fn stateright_states(cfg: Cfg) -> u64 {
    use stateright::{Checker, Model as _};
    SrModel(M::new(cfg))
        .checker()
        .threads(vkit::threads())
        .spawn_bfs()
        .join()
        .unique_state_count() as u64
}

// ---------------------------------------------------------------------------------------------

pub fn run(report: &mut Report, tier: &str) {
    report.assume("fragments are not corrupted or forged: every delivered piece is one that the real fragment() produced for one of the datagrams of the model");
    report.assume("a key (source, destination, protocol, identification) is reused only by a later datagram whose fragments start arriving after the earlier datagram has completed and nothing of it is buffered");
    report.assume("all fragments carry the same TTL, so all reassembly timeouts are equal and expiry callbacks fire in the order they were requested; their timing relative to arrivals is free");
    let limits = Limits {
        max_wall: Duration::from_secs(if tier == "quick" { 25 } else { 600 }),
        ..Default::default()
    };
    let mut all_fixpoint = true;
    let mut nontrivial = 0;
    let mut completions = 0;
    let mut probes = 0;
    let mut cross = vec![];
    let quick_names: Vec<String> = cfgs("quick").into_iter().flatten().map(|c| c.name).collect();
    for c in cfgs(tier) {
        let cfg = match c {
            Ok(c) => c,
            Err(e) => {
                report.machinery_error(format!("fragment pool precondition: {e}"));
                continue;
            }
        };
        let pool: Vec<String> = cfg.pool.iter().map(|f| f.label.clone()).collect();
        let m = M::new(cfg);
        let st = search::run_into(&m, &limits, report);
        all_fixpoint &= st.fixpoint;
        let nt = m.nontrivial.len();
        if let Some(p) = report.parts.last_mut() {
            p["pool"] = json!(pool);
            p["dup_budget"] = json!(m.cfg.dups);
            p["expiry_budget"] = json!(m.cfg.expiries);
            p["distinct_nontrivial"] = json!(nt);
            p["completions_verified"] = json!(m.completions.len());
            p["expiry_probes"] = json!(m.probes.len());
        }
        nontrivial += nt;
        completions += m.completions.len();
        probes += m.probes.len();
        if quick_names.contains(&m.cfg.name) && st.fixpoint {
            let name = m.cfg.name.clone();
            if let Some(Ok(again)) = cfgs("quick").into_iter().find(|c| matches!(c, Ok(c) if c.name == name)) {
                let sr = stateright_states(again);
                if sr != st.states {
                    report.machinery_error(format!(
                        "stateright cross-check: model {name}: vkit::search found {} states, stateright {sr}",
                        st.states
                    ));
                }
                cross.push(json!({"model": name, "vkit_states": st.states, "stateright_unique_states": sr}));
            }
        }
    }
    report.set("stateright_cross_check", json!(cross));
    report.add_count("distinct_nontrivial", nontrivial);
    report.set("completions_verified_byte_for_byte", json!(completions));
    report.set("expiry_probes", json!(probes));
    report.set("exhaustive", json!(all_fixpoint));
    report.set(
        "rule",
        json!("E1: breadth-first search to a fixpoint over a real Reassembly; states = distinct (delivery counts, reference buffers, pending callbacks, Debug of the reassembler with map entries and heap arrays sorted). Every transition calls the real receive_packet / maybe_cull_segment; every expiry is followed by delivering the missing pieces to a clone. distinct_nontrivial = distinct reference states (delivery counts, expected buffers, pending callbacks, budgets used) in which at least two pieces are buffered at once; completions_verified = distinct (reference state, fragment) deliveries whose result was compared with the original header and payload; expiry_probes = distinct (reference state, callback) firings followed by delivery of the missing pieces to a clone."),
    );
}

fn find_model(name: &str, tier: &str) -> Option<M> {
    for t in ["quick", "thorough", tier] {
        for c in cfgs(t).into_iter().flatten() {
            if c.name == name {
                return Some(M::new(c));
            }
        }
    }
    None
}

pub fn replay(w: &serde_json::Value, tier: &str) -> String {
    let name = w["model"].as_str().unwrap_or("");
    let Some(m) = find_model(name, tier) else {
        return format!("unknown model {name}");
    };
    let path: Vec<u32> = w["path"]
        .as_array()
        .map(|a| a.iter().map(|x| x.as_u64().unwrap_or(0) as u32).collect())
        .unwrap_or_default();
    if path.is_empty() {
        return "witness has no path".into();
    }
    let mut out = vec![format!(
        "model {name}; pool: {}",
        m.cfg
            .pool
            .iter()
            .map(|f| f.label.as_str())
            .collect::<Vec<_>>()
            .join(" ")
    )];
    out.extend(search::replay(&m, &path).0);
    out.join("\n")
}
