#!/bin/bash
# Round 6: adopts a seeded change left UNCOMMITTED in a helper's scratch worktree /tmp/seedwt_<ID>
# (source change + sim/<crate>/tests/seed_demo.rs). Confirms independently:
#   demo passes without the change, fails with it, pinned suite passes with it.
# usage: adopt_seed.sh <ID> <name>
set -u
ID=$1; NAME=$2
WT=/tmp/seedwt_$ID
cd $WT || exit 2
DEMO=$(git status --porcelain | grep -E 'tests/seed_demo\.rs' | awk '{print $2}' | head -1)
[ -n "$DEMO" ] || { echo "no demo test"; exit 2; }
CRATE=$(echo $DEMO | cut -d/ -f2)
OUT=/tmp/adopt_$NAME; rm -rf $OUT; mkdir -p $OUT/demo
git diff -- sim ':!sim/*/tests/seed_demo.rs' > $OUT/patch.diff
[ -s $OUT/patch.diff ] || { echo "empty patch"; exit 2; }
LOW=$(echo $NAME | tr A-Z a-z)
cp $DEMO $OUT/demo/${LOW}_seed_demo.rs
cp SEED_NOTES.md $OUT/demo/SEED_NOTES.md 2>/dev/null
cat > $OUT/demo/run.sh <<EOF
#!/bin/sh
# usage: run.sh <checkout>   (the directory that contains sim/)
# Exit status 0: the property holds in the demonstration; non-zero: violated.
set -u
CHECKOUT="\${1:?usage: run.sh <path of checkout>}"
HERE="\$(cd "\$(dirname "\$0")" && pwd)"
mkdir -p "\$CHECKOUT/sim/$CRATE/tests" || exit 2
cp "\$HERE/${LOW}_seed_demo.rs" "\$CHECKOUT/sim/$CRATE/tests/${LOW}_seed_demo.rs" || exit 2
cd "\$CHECKOUT/sim" || exit 2
cargo test -p $CRATE --release --offline --test ${LOW}_seed_demo -- --test-threads=1 --nocapture
EOF
chmod +x $OUT/demo/run.sh
export CARGO_TARGET_DIR=$WT/target
RES=/tmp/adopt_$NAME.log; : > $RES
git stash -q -u || exit 2
echo "== demo WITHOUT patch" | tee -a $RES
sh $OUT/demo/run.sh $WT >> $RES 2>&1; A=$?; echo "exit $A" | tee -a $RES
rm -f sim/$CRATE/tests/${LOW}_seed_demo.rs
git apply $OUT/patch.diff || { echo "patch does not apply to HEAD"; git stash drop -q; exit 2; }
echo "== demo WITH patch" | tee -a $RES
sh $OUT/demo/run.sh $WT >> $RES 2>&1; B=$?; echo "exit $B" | tee -a $RES
rm -f sim/$CRATE/tests/${LOW}_seed_demo.rs
echo "== suite WITH patch" | tee -a $RES
/verif/baseline.sh $WT 2>&1 | grep -E "Summary|FAIL|^error|test result" | tee -a $RES
echo "RESULT without=$A with=$B" | tee -a $RES
if [ $A -eq 0 ] && [ $B -ne 0 ]; then
  mkdir -p /verif/seeded/$NAME; cp $OUT/patch.diff /verif/seeded/$NAME/; rm -rf /verif/seeded/$NAME/demo; cp -r $OUT/demo /verif/seeded/$NAME/demo
  echo "CONFIRMED -> /verif/seeded/$NAME"
else echo "NOT CONFIRMED"; fi
