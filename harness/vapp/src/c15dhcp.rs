//! C15, DHCP part - concurrent clients are leased pairwise distinct pool addresses, each learns
//! the address it was acknowledged, released addresses are leased again.

use elvis::{applications::dhcp_server::DhcpServer, ip_generator::IpRange};
use elvis_core::{
    message::Message,
    protocol::{DemuxError, StartError},
    protocols::{
        dhcp::{
            dhcp_client::DhcpClient,
            dhcp_parsing::{DhcpMessage, MessageType},
        },
        ipv4::{ipv4_parsing::Ipv4Header, Ipv4, Ipv4Address, Recipient},
        udp::UdpHeader,
        Endpoint, Endpoints, Pci, Udp,
    },
    run_internet_with_timeout,
    verif::Verdict,
    Control, IpTable, Machine, Network, Protocol, Session, Shutdown,
};
use std::{
    any::TypeId,
    sync::{Arc, Mutex},
    time::Duration,
};
use tokio::sync::Barrier;
use vkit::{
    sched::{self, Bounds, Scenario, KIND_FRAME},
    Report, Violation,
};

const SERVER_IP: Ipv4Address = Ipv4Address::new([10, 9, 9, 9]);
const POOL_BASE: u32 = 0x0a00_0064; // 10.0.0.100

#[derive(Clone, Debug)]
pub struct DhcpCfg {
    pub name: String,
    pub pool: u32,
    pub clients: usize,
    /// client 0 releases its lease once it has it; the last client's DISCOVER is held back 600 ms
    pub release_then_late: bool,
    pub faults: bool,
}

#[derive(Default)]
struct Book {
    leases: Mutex<Vec<(usize, Option<Ipv4Address>)>>,
    notes: Mutex<Vec<String>>,
}

/// Sits next to a DhcpClient, reports what the client ended up with, optionally releases it.
struct Watcher {
    client: usize,
    cfg: DhcpCfg,
    book: Arc<Book>,
}

#[async_trait::async_trait]
impl Protocol for Watcher {
    async fn start(&self, shutdown: Shutdown, initialized: Arc<Barrier>, machine: Arc<Machine>) -> Result<(), StartError> {
        initialized.wait().await;
        let dhcp = machine.protocol::<DhcpClient>().unwrap();
        if self.cfg.release_then_late && self.client == 0 {
            let mine = dhcp.ip_address().await;
            self.book.leases.lock().unwrap().push((100, Some(mine)));
            let udp = machine.protocol::<Udp>().unwrap();
            let eps = Endpoints::new(Endpoint::new(Ipv4Address::CURRENT_NETWORK, 68), Endpoint::new(SERVER_IP, 67));
            match udp.open_for_sending(self.id(), eps, machine.clone()).await {
                Ok(s) => {
                    let mut m = DhcpMessage::default();
                    m.your_ip = mine;
                    m.msg_type = MessageType::Release;
                    let _ = s.send(DhcpMessage::to_message(m).unwrap(), machine.clone());
                }
                Err(e) => self.book.notes.lock().unwrap().push(format!("release open failed {e:?}")),
            }
        }
        // horizon
        tokio::time::sleep(Duration::from_millis(2000)).await;
        let got = *dhcp.ip_address.read().unwrap();
        self.book.leases.lock().unwrap().push((self.client, got));
        if self.client == 0 {
            tokio::time::sleep(Duration::from_millis(10)).await;
            shutdown.shut_down();
        }
        Ok(())
    }
    fn demux(&self, _m: Message, _c: Arc<dyn Session>, _ctl: Control, _mach: Arc<Machine>) -> Result<(), DemuxError> {
        Ok(())
    }
}

pub struct DhcpSc(pub DhcpCfg);

#[derive(Debug, Hash)]
pub struct DhcpObs {
    leases: Vec<(usize, Option<[u8; 4]>)>,
    status: String,
}

fn parse_dhcp(bytes: &[u8]) -> Option<(Ipv4Header, UdpHeader, DhcpMessage)> {
    let ih = Ipv4Header::from_bytes(bytes.iter().cloned()).ok()?;
    if ih.protocol != 17 || bytes.len() < 28 {
        return None;
    }
    let body = &bytes[20..];
    let uh = UdpHeader::from_bytes_ipv4(body.iter().cloned(), body.len(), ih.source, ih.destination).ok()?;
    let m = DhcpMessage::from_bytes(body[8..].iter().cloned()).ok()?;
    Some((ih, uh, m))
}

impl Scenario for DhcpSc {
    type Obs = DhcpObs;
    fn name(&self) -> String {
        self.0.name.clone()
    }
    fn run(&self) -> (DhcpObs, Vec<Violation>) {
        let cfg = self.0.clone();
        sched::install_rand(vec![], vec![]);
        let net = Network::basic();
        sched::register_networks(&[&net]);
        let book = Arc::new(Book::default());
        let table: IpTable<Recipient> = [("0.0.0.0/0", Recipient::new(0, None))].into_iter().collect();
        let server_pci = Pci::new([net.clone()]);
        let server_mac = server_pci.mac_addresses().next().unwrap();
        let pool = IpRange::new(Ipv4Address::from(POOL_BASE), Ipv4Address::from(POOL_BASE + cfg.pool - 1));
        let mut machines = vec![Machine::new()
            .with(Udp::new())
            .with(Ipv4::new(table.clone()))
            .with(server_pci)
            .with(DhcpServer::new(SERVER_IP, pool))
            .arc()];
        let mut macs = vec![];
        for c in 0..cfg.clients {
            let pci = Pci::new([net.clone()]);
            macs.push(pci.mac_addresses().next().unwrap());
            machines.push(
                Machine::new()
                    .with(Udp::new())
                    .with(Ipv4::new(table.clone()))
                    .with(pci)
                    .with(DhcpClient::new(SERVER_IP))
                    .with(Watcher {
                        client: c,
                        cfg: cfg.clone(),
                        book: book.clone(),
                    })
                    .arc(),
            );
        }
        let late_mac = if cfg.release_then_late { Some(macs[cfg.clients - 1]) } else { None };
        let faults = cfg.faults;
        let mut late_done = false;
        sched::install_wire_hooks(move |f| {
            if Some(f.sender) == late_mac && !late_done {
                late_done = true;
                return Verdict::Delay(Duration::from_millis(600));
            }
            if !faults {
                return Verdict::Deliver;
            }
            match sched::choose(KIND_FRAME, 3) {
                0 => Verdict::Deliver,
                1 => Verdict::Duplicate(Duration::from_millis(1)),
                _ => Verdict::Delay(Duration::from_millis(3)),
            }
        });
        sched::register_machines(&machines);
        let status = sched::block_on_paused_send(async move {
            sched::start_clock();
            run_internet_with_timeout(&machines, Duration::from_millis(4000)).await
        });
        let status = match status {
            Ok(s) => format!("{s:?}"),
            Err(e) => e,
        };
        let wire = sched::take_wire();
        let leases = book.leases.lock().unwrap().clone();
        let mut viols = vec![];
        let dups = wire.iter().filter(|f| matches!(f.verdict, Verdict::Duplicate(_))).count();
        let final_leases: Vec<(usize, Option<Ipv4Address>)> = leases.iter().filter(|l| l.0 < 100).cloned().collect();
        let released: Option<Ipv4Address> = leases.iter().find(|l| l.0 == 100).and_then(|l| l.1);
        let in_pool = |a: Ipv4Address| (POOL_BASE..POOL_BASE + cfg.pool).contains(&a.to_u32());
        // pairwise distinct (a released lease no longer counts for client 0)
        let holders: Vec<(usize, Ipv4Address)> = final_leases
            .iter()
            .filter(|l| !(cfg.release_then_late && l.0 == 0))
            .filter_map(|l| l.1.map(|a| (l.0, a)))
            .collect();
        for (i, a) in &holders {
            if !in_pool(*a) {
                viols.push(Violation::new(
                    "lease-from-pool",
                    "DhcpServer::demux",
                    "address-outside-pool",
                    format!("client {i} holds {a}, the pool has {} addresses from 10.0.0.100", cfg.pool),
                ));
            }
            if let Some((j, _)) = holders.iter().find(|(j, b)| j != i && b == a) {
                viols.push(Violation::new(
                    "leases-distinct",
                    "DhcpServer::demux",
                    "same-address-leased-twice",
                    format!("clients {i} and {j} both hold {a}"),
                ));
                break;
            }
        }
        // each client learnt the address of the last Ack addressed to its MAC
        let ip_type = TypeId::of::<Ipv4>();
        for (c, lease) in &final_leases {
            let acks: Vec<Ipv4Address> = wire
                .iter()
                .filter(|f| f.protocol == ip_type && f.sender == server_mac && f.destination == Some(macs[*c]))
                .filter_map(|f| parse_dhcp(&f.bytes))
                .filter(|(_, _, m)| m.msg_type == MessageType::Ack)
                .map(|(_, _, m)| m.your_ip)
                .collect();
            match lease {
                Some(a) => {
                    if !acks.contains(a) {
                        viols.push(Violation::new(
                            "client-learns-its-lease",
                            "DhcpClient::demux",
                            "address-never-acknowledged-to-this-client",
                            format!("client {c} believes it has {a}; Acks sent to its MAC carried {acks:?}"),
                        ));
                    }
                }
                None => {
                    if !acks.is_empty() {
                        viols.push(Violation::new(
                            "client-learns-its-lease",
                            "DhcpClient::demux",
                            "acknowledged-but-no-address",
                            format!("client {c} has no address although Acks {acks:?} were sent to it"),
                        ));
                    } else if dups == 0 && !cfg.release_then_late && cfg.pool as usize >= cfg.clients {
                        viols.push(Violation::new(
                            "lease-from-pool",
                            "DhcpServer::demux",
                            "client-without-lease-although-pool-suffices",
                            format!("client {c} got nothing; pool {} clients {} (status {status})", cfg.pool, cfg.clients),
                        ));
                    }
                }
            }
        }
        if cfg.release_then_late {
            let late = final_leases.iter().find(|l| l.0 == cfg.clients - 1).and_then(|l| l.1);
            if released.is_some() && late != released {
                viols.push(Violation::new(
                    "released-address-leased-again",
                    "DhcpServer::demux",
                    "late-client-did-not-get-the-released-address",
                    format!("client 0 released {released:?}; the late client holds {late:?} (pool {})", cfg.pool),
                ));
            }
        }
        let mut obs: Vec<_> = final_leases.iter().map(|l| (l.0, l.1.map(|a| a.to_bytes()))).collect();
        obs.sort();
        (DhcpObs { leases: obs, status }, viols)
    }
}

pub fn cfgs(tier: &str) -> Vec<(DhcpCfg, Bounds)> {
    let q = tier == "quick";
    let wall = Duration::from_secs(if q { 150 } else { 900 });
    let mut v = vec![];
    for n in 1..=3usize {
        v.push((
            DhcpCfg {
                name: format!("pool of {n}, {n} clients at once, duplicate/delay faults"),
                pool: n as u32,
                clients: n,
                release_then_late: false,
                faults: true,
            },
            Bounds::new(if q { 1 } else { 2 }).cap(KIND_FRAME, 1).wall(wall),
        ));
    }
    v.push((
        DhcpCfg {
            name: "pool of 4, 3 clients at once, duplicate/delay faults".into(),
            pool: 4,
            clients: 3,
            release_then_late: false,
            faults: true,
        },
        Bounds::new(if q { 1 } else { 2 }).cap(KIND_FRAME, 2).wall(wall),
    ));
    v.push((
        DhcpCfg {
            name: "pool of 1: client 0 leases and releases, late client 1".into(),
            pool: 1,
            clients: 2,
            release_then_late: true,
            faults: false,
        },
        Bounds::new(if q { 2 } else { 3 }).wall(wall),
    ));
    v
}

pub fn run(report: &mut Report, tier: &str) {
    report.assume("a duplicated DISCOVER makes the server offer (and burn) a second address; availability after such a duplicate is not judged, uniqueness and consistency are");
    for (cfg, b) in cfgs(tier) {
        sched::run_into(&DhcpSc(cfg), &b, report);
    }
}

pub fn replay(w: &serde_json::Value, tier: &str) -> String {
    let name = w["scenario"].as_str().unwrap_or("");
    let ch: Vec<u16> = w["choices"]
        .as_array()
        .map(|a| a.iter().map(|x| x.as_u64().unwrap() as u16).collect())
        .unwrap_or_default();
    for t in ["quick", "thorough", tier] {
        for (c, _) in cfgs(t) {
            if c.name == name {
                return sched::replay(&DhcpSc(c), &ch);
            }
        }
    }
    format!("unknown scenario {name}")
}
