//! C14 (decoder part) - Malformed input is rejected with an error, never with a crash.
//!
//! E3 only: for each of the six packet decoders (`Ipv4Header::from_bytes`,
//! `UdpHeader::from_bytes_ipv4`, `TcpHeader::from_bytes`, `ArpPacket::from_bytes`,
//! `DnsMessage::from_bytes` + `DnsQuestion::query_name`, `DhcpMessage::from_bytes`) and a handful
//! of valid seed packets built with Elvis' own builders, every case of five finite alphabets is
//! fed to the real decoder through a real `Message::iter()`, exactly as the `demux` functions do:
//!
//! * `trunc`   every truncation length of every seed
//! * `byte1`   every byte position x all 256 values
//! * `pairN`   every pair of structural positions (version/IHL, lengths, type/opcode, flags,
//!             terminators) x N x N values (N = 12 boundary values, thorough: all 256)
//! * `prefix2x3` (thorough) every byte string of length <= 2 over all 256 values followed by the
//!             seed's tail from offset 0, 1 or 2 (insertion, replacement, shift);
//!   `prefix2` (quick) the same for strings of length <= 1, and every string of length 2 followed
//!             by the seed's tail from offset 2 (replacement of the first two bytes)
//! * `xlen`    extreme length fields: length fields / length parameters at their boundaries
//!             against byte strings of boundary sizes (up to 64 KiB + a little)
//!
//! Oracle (nothing more than the statement): the call returns `Ok` or `Err` and never unwinds;
//! the value it returns can be looked at (`Debug`, accessors, `query_name`) without unwinding; and
//! an input shorter than the protocol's fixed-size header is never accepted.

use elvis_core::{
    protocols::{
        arp::arp_parsing::{self as arp, ArpPacket},
        dhcp::dhcp_parsing::{self as dhcp, DhcpMessage, MessageType},
        dns::dns_parsing::{
            DnsHeader, DnsMessage, DnsMessageType, DnsQuestion, DnsResourceRecord,
        },
        ipv4::{
            ipv4_parsing::{self as ip4, Ipv4Header},
            Ipv4Address,
        },
        tcp::verif::{self as tcp, TcpHeader, TcpHeaderBuilder},
        udp::verif::{self as udp, UdpHeader},
    },
    Message,
};
use serde_json::{json, Value};
use std::{
    hash::{Hash, Hasher},
    sync::atomic::{AtomicU64, Ordering},
};
use vkit::{
    enumerate::{self, CaseOutcome, Product},
    Report, Violation,
};

// ---------------------------------------------------------------------------------------------
// The six decoders

#[derive(Debug, Clone, Copy, PartialEq, Eq, Hash)]
pub enum Dec {
    Ipv4,
    Udp,
    Tcp,
    Arp,
    Dns,
    Dhcp,
}

pub const DECS: [Dec; 6] = [Dec::Ipv4, Dec::Udp, Dec::Tcp, Dec::Arp, Dec::Dns, Dec::Dhcp];

impl Dec {
    /// The real entry point (discriminator of panic signatures).
    pub fn entry(self) -> &'static str {
        match self {
            Dec::Ipv4 => "Ipv4Header::from_bytes",
            Dec::Udp => "UdpHeader::from_bytes_ipv4",
            Dec::Tcp => "TcpHeader::from_bytes",
            Dec::Arp => "ArpPacket::from_bytes",
            Dec::Dns => "DnsMessage::from_bytes",
            Dec::Dhcp => "DhcpMessage::from_bytes",
        }
    }
    /// Size of the fixed part of the header: no decoder of this protocol can fill its fields
    /// from fewer bytes (DNS: the 12-byte header; DHCP: everything up to the message type).
    pub fn fixed_len(self) -> usize {
        match self {
            Dec::Ipv4 => 20,
            Dec::Udp => 8,
            Dec::Tcp => 20,
            Dec::Arp => 28,
            Dec::Dns => 12,
            Dec::Dhcp => 30,
        }
    }
    fn idx(self) -> usize {
        DECS.iter().position(|d| *d == self).unwrap()
    }
}

pub struct Seed {
    pub name: &'static str,
    pub bytes: Vec<u8>,
    pub src: Ipv4Address,
    pub dst: Ipv4Address,
}

const A: Ipv4Address = Ipv4Address::new([10, 0, 0, 1]);
const B: Ipv4Address = Ipv4Address::new([10, 0, 0, 2]);

fn seed(name: &'static str, bytes: Vec<u8>) -> Seed {
    Seed {
        name,
        bytes,
        src: A,
        dst: B,
    }
}

fn cat(mut a: Vec<u8>, b: &[u8]) -> Vec<u8> {
    a.extend_from_slice(b);
    a
}

/// Valid packets, built with Elvis' own builders wherever one exists.
pub fn seeds(dec: Dec) -> Vec<Seed> {
    use ip4::{ControlFlags, Delay, Precedence, Reliability, Throughput, TypeOfService};
    match dec {
        Dec::Ipv4 => {
            let h = |s, d, proto, plen, tos, id, off, fl| {
                ip4::verif_build_header(s, d, proto, plen, tos, id, off, fl).expect("seed header")
            };
            vec![
                seed(
                    "ipv4/udp-13-payload",
                    cat(h(A, B, 17, 13, None, None, None, None), b"Hello, world!"),
                ),
                seed(
                    "ipv4/tcp-df-header-only",
                    h(A, B, 6, 0, None, Some(0xbeef), None, Some(ControlFlags::new(false, true))),
                ),
                seed(
                    "ipv4/fragment-mf-off185-tos",
                    cat(
                        h(
                            Ipv4Address::new([192, 168, 1, 77]),
                            Ipv4Address::new([8, 8, 8, 8]),
                            253,
                            1480,
                            Some(TypeOfService::new(
                                Precedence::NetworkControl,
                                Delay::Low,
                                Throughput::High,
                                Reliability::High,
                            )),
                            Some(0xffff),
                            Some(185),
                            Some(ControlFlags::new(true, false)),
                        ),
                        &[0xde, 0xad, 0xbe, 0xef, 0, 1, 2, 3],
                    ),
                ),
                seed(
                    "ipv4/max-total-length-broadcast",
                    h(
                        Ipv4Address::new([255, 255, 255, 255]),
                        Ipv4Address::new([0, 0, 0, 0]),
                        255,
                        65515,
                        None,
                        None,
                        None,
                        None,
                    ),
                ),
            ]
        }
        Dec::Udp => {
            let mk = |name, sp: u16, dp: u16, text: Vec<u8>| {
                let h = udp::build_udp_header(A, sp, B, dp, text.iter().cloned(), text.len())
                    .expect("seed header");
                seed(name, cat(h, &text))
            };
            vec![
                mk("udp/hello", 0xbeef, 0xface, b"Hello, world!".to_vec()),
                mk("udp/empty-ports-0-65535", 0, 65535, vec![]),
                mk("udp/odd-1-byte-dns-port", 53, 67, vec![0x7f]),
                mk("udp/64-byte-payload", 1024, 1025, (0..64u8).collect()),
            ]
        }
        Dec::Tcp => {
            let mk = |name, b: TcpHeaderBuilder, text: Vec<u8>| {
                let h = b
                    .build(A, B, text.iter().cloned(), text.len())
                    .expect("seed header");
                seed(name, cat(h.serialize(), &text))
            };
            vec![
                mk("tcp/syn", TcpHeaderBuilder::new(0xbeef, 80, 100).syn().wnd(4096), vec![]),
                mk(
                    "tcp/psh-ack-hello",
                    TcpHeaderBuilder::new(80, 0xbeef, u32::MAX).ack(1).psh().wnd(65535),
                    b"Hello, world!".to_vec(),
                ),
                mk(
                    "tcp/fin-ack-urg-1-byte",
                    TcpHeaderBuilder::new(1, 65535, 0x8000_0000).ack(0x7fff_ffff).fin().urg(1),
                    vec![0xff],
                ),
                mk(
                    "tcp/rst-64-byte-payload",
                    TcpHeaderBuilder::new(0, 0, 0).rst(),
                    (0..64u8).collect(),
                ),
            ]
        }
        Dec::Arp => vec![
            seed("arp/request", ArpPacket::new_request(0x0011_2233_4455, A, B).build()),
            seed(
                "arp/reply",
                ArpPacket::new_reply(0x0011_2233_4455, A, 0x6677_8899_aabb, B).build(),
            ),
            seed(
                "arp/reply-all-ones",
                ArpPacket::new_reply(
                    0xffff_ffff_ffff,
                    Ipv4Address::new([255; 4]),
                    0xffff_ffff_ffff,
                    Ipv4Address::new([255; 4]),
                )
                .build(),
            ),
            seed(
                "arp/request-with-4-padding-bytes",
                cat(ArpPacket::new_request(1, B, A).build(), &[0, 0, 0, 0]),
            ),
        ],
        Dec::Dns => {
            let mk = |name, id, ty, q: &[u8], n: &[u8], ttl, ip: [u8; 4]| {
                let m = DnsMessage::new(
                    DnsHeader::new(id, ty),
                    DnsQuestion::new(q.to_vec()),
                    DnsResourceRecord::new(n.to_vec(), ttl, Ipv4Address::new(ip)),
                )
                .expect("seed message");
                seed(name, m.to_message().expect("seed message").to_vec())
            };
            // hand-written: recursion flags, counts 1/1, UTF-8 name, TXT record with rdlength 0
            let mut hand = vec![0xff, 0xff, 0x81, 0x80, 0, 1, 0, 1, 0, 0, 0, 0];
            hand.extend_from_slice("münchen.de".as_bytes());
            hand.extend_from_slice(&[b' ', 0, 1, 0, 1]);
            hand.extend_from_slice(&[b'm', b' ', 0, 16, 0, 1, 0xff, 0xff, 0xff, 0xff, 0, 0]);
            vec![
                mk(
                    "dns/query-google.com",
                    1337,
                    DnsMessageType::QUERY,
                    b"google.com",
                    b"google.com",
                    0,
                    [0; 4],
                ),
                mk(
                    "dns/response-a",
                    0x8001,
                    DnsMessageType::RESPONSE,
                    b"a",
                    b"a",
                    u32::MAX,
                    [10, 11, 12, 13],
                ),
                mk("dns/empty-names", 0, DnsMessageType::RESPONSE, b"", b"", 1600, [1, 3, 3, 7]),
                seed("dns/handwritten-utf8-rdlength-0", hand),
            ]
        }
        Dec::Dhcp => {
            // the vector of the decoder's own unit test
            let mut unit = vec![
                1, 1, 1, 1, 0, 0, 0, 2, 1, 33, 1, 5, 5, 5, 5, 6, 6, 6, 2, 7, 7, 7, 2, 8, 8, 8, 2,
                0, 99, 1,
            ];
            unit.extend_from_slice(b"Serv\0BootFileBootFile\0");
            let mut offer = DhcpMessage::default();
            offer.op = 2;
            offer.your_ip = Ipv4Address::new([10, 0, 0, 77]);
            offer.msg_type = MessageType::Offer;
            let offer = DhcpMessage::to_message(offer).expect("seed message").to_vec();
            let mut release = vec![0xff; 29];
            release.extend_from_slice(&[7, 0, 0]);
            let mut ack = unit[..29].to_vec();
            ack.push(5);
            ack.extend_from_slice("sérveur\0bööt\0".as_bytes());
            ack.extend_from_slice(&[0xde, 0xad]);
            let mut minimal = vec![0; 29];
            minimal.extend_from_slice(&[1, 0, 0]);
            vec![
                seed("dhcp/minimal-zeros-discover-empty-names", minimal),
                seed("dhcp/discover-unit-test-vector", unit),
                seed("dhcp/offer-from-default", offer),
                seed("dhcp/release-empty-names-all-ones", release),
                seed("dhcp/ack-utf8-names-trailing-bytes", ack),
            ]
        }
    }
}

/// Positions of the structural bytes of a seed (deduplicated, inside the seed).
pub fn structural(dec: Dec, s: &[u8]) -> Vec<usize> {
    let last = s.len().saturating_sub(1);
    let find = |from: usize, b: u8| {
        s.iter()
            .skip(from)
            .position(|x| *x == b)
            .map(|p| p + from)
            .unwrap_or(last)
    };
    let mut v: Vec<usize> = match dec {
        // version/IHL, TOS, total length, flags/fragment offset, protocol, checksum
        Dec::Ipv4 => vec![0, 1, 2, 3, 6, 7, 9, 10, 11],
        // ports (hi), length, checksum, first payload byte, last byte
        Dec::Udp => vec![0, 2, 4, 5, 6, 7, 8, last],
        // data offset, control bits, window, checksum, urgent pointer, last byte
        Dec::Tcp => vec![12, 13, 14, 15, 16, 17, 18, 19, last],
        // htype, ptype, hlen, plen, oper, first MAC byte, last byte
        Dec::Arp => vec![0, 1, 2, 3, 4, 5, 6, 7, 8, last],
        Dec::Dns => {
            // properties, qdcount lo, qname first byte / terminator, qtype lo, answer name first
            // byte / terminator, rdlength hi/lo, last byte
            let qterm = find(12, b' ');
            let aterm = find(qterm + 5, b' ');
            vec![2, 3, 5, 12, qterm, qterm + 2, qterm + 5, aterm, aterm + 9, aterm + 10, last]
        }
        Dec::Dhcp => {
            // op, hlen, flags, message type, name first bytes / terminators, last byte
            let sterm = find(30, 0);
            let fterm = find(sterm + 1, 0);
            vec![0, 2, 10, 28, 29, 30, sterm, sterm + 1, fterm, last]
        }
    };
    v.retain(|p| *p < s.len());
    v.sort_unstable();
    v.dedup();
    v
}

/// Twelve boundary values: zero/one, IHL and version digits, DHCP type limits (7, 8), the DNS
/// terminator (space), a valid IPv4 first byte, sign boundary, UTF-8 continuation / lead bytes.
pub const BOUNDARY: [u8; 12] = [
    0x00, 0x01, 0x04, 0x05, 0x07, 0x08, 0x20, 0x45, 0x7f, 0x80, 0xc3, 0xff,
];

const LEN16: [u16; 16] = [
    0, 1, 7, 8, 19, 20, 21, 28, 255, 256, 1500, 0x7fff, 0x8000, 0xfffe, 0xffff, 0x0100,
];
const FRAG16: [u16; 12] = [
    0, 1, 0x00b9, 0x1fff, 0x2000, 0x3fff, 0x4000, 0x5fff, 0x6000, 0x7fff, 0x8000, 0xffff,
];
const UDP_N: [usize; 6] = [8, 9, 21, 65535, 65536, 65543];
const TCP_N: [usize; 7] = [20, 21, 33, 65535, 65536, 65537, 65556];
const ARP_OPER: [u16; 7] = [0, 1, 2, 3, 0x0100, 0x0200, 0xffff];
const NAME_LEN: [usize; 9] = [0, 1, 63, 64, 65, 255, 256, 65535, 65536];
const FILL: [u8; 4] = [b'a', 0xff, 0xc3, 0x80];
const DNS_RD: [u16; 11] = [0, 1, 3, 4, 5, 255, 256, 0x7fff, 0x8000, 0xfffe, 0xffff];
const DHCP_MT: [u8; 12] = [0, 1, 2, 3, 6, 7, 8, 9, 0x7f, 0x80, 0xfe, 0xff];

/// The length parameters tried against a packet of `n` bytes.
fn plens(n: usize) -> [usize; 13] {
    [
        0,
        1,
        7,
        8,
        19,
        20,
        n.saturating_sub(1),
        n,
        n + 1,
        65535,
        65536,
        u32::MAX as usize,
        usize::MAX,
    ]
}

/// Available rdata bytes tried against an rdlength of `r`.
fn avails(r: usize) -> [usize; 12] {
    [0, 1, 3, 4, 5, r.saturating_sub(1), r, r + 1, 65534, 65535, 65536, 65537]
}

// ---------------------------------------------------------------------------------------------
// Parts: index -> case

#[derive(Debug, Clone, Copy, PartialEq, Eq)]
pub enum Kind {
    Trunc,
    Byte1,
    Pair(usize),
    /// `true`: strings of length <= 2 before all three tails; `false` (quick): strings of length
    /// <= 1 before all three tails and strings of length 2 before the tail from offset 2
    Prefix(bool),
    Xlen,
}

struct Block {
    seed: usize,
    prod: Product,
    start: u64,
    pairs: Vec<(usize, usize)>,
    /// Prefix parts: index of the first string of this block
    first_string: usize,
}

pub struct Part {
    pub dec: Dec,
    pub kind: Kind,
    pub name: String,
    pub rule: String,
    pub seeds: Vec<Seed>,
    blocks: Vec<Block>,
    pub total: u64,
}

pub struct Case {
    pub seed: usize,
    pub bytes: Vec<u8>,
    /// `packet_len` argument of the UDP and TCP decoders (`message.len()` in `demux`)
    pub plen: usize,
    pub what: String,
}

const STRINGS_LE2: usize = 1 + 256 + 65536;
const TAILS: usize = 3;

fn xlen_dims(dec: Dec) -> Vec<usize> {
    match dec {
        Dec::Ipv4 => vec![256, LEN16.len(), FRAG16.len(), 2],
        Dec::Udp => vec![LEN16.len() + 1, 13, UDP_N.len()],
        Dec::Tcp => vec![16, 13, TCP_N.len()],
        Dec::Arp => vec![256, 256, ARP_OPER.len()],
        Dec::Dns => vec![NAME_LEN.len(), 3, DNS_RD.len(), 12],
        Dec::Dhcp => vec![DHCP_MT.len(), NAME_LEN.len(), NAME_LEN.len(), FILL.len()],
    }
}

impl Part {
    fn new(dec: Dec, kind: Kind) -> Self {
        let seeds = seeds(dec);
        let mut blocks = vec![];
        let mut start = 0u64;
        let mut push = |seed: usize, dims: &[usize], pairs: Vec<(usize, usize)>, first_string| {
            let prod = Product::new(dims);
            let n = prod.total();
            if n > 0 {
                blocks.push(Block {
                    seed,
                    prod,
                    start,
                    pairs,
                    first_string,
                });
                start += n;
            }
        };
        for (k, s) in seeds.iter().enumerate() {
            match kind {
                Kind::Trunc => push(k, &[s.bytes.len() + 1], vec![], 0),
                Kind::Byte1 => push(k, &[s.bytes.len(), 256], vec![], 0),
                Kind::Pair(n) => {
                    let pos = structural(dec, &s.bytes);
                    let mut pairs = vec![];
                    for i in 0..pos.len() {
                        for j in i + 1..pos.len() {
                            pairs.push((pos[i], pos[j]));
                        }
                    }
                    push(k, &[pairs.len(), n, n], pairs, 0)
                }
                Kind::Prefix(true) => push(k, &[TAILS, STRINGS_LE2], vec![], 0),
                Kind::Prefix(false) => {
                    push(k, &[TAILS, 257], vec![], 0);
                    push(k, &[1, 65536], vec![], 257)
                }
                Kind::Xlen => {
                    if k == 0 {
                        push(0, &xlen_dims(dec), vec![], 0)
                    }
                }
            }
        }
        let (suffix, rule) = match kind {
            Kind::Trunc => ("trunc".to_string(), "every truncation length 0..=len of every seed"),
            Kind::Byte1 => ("byte1".to_string(), "every byte position of every seed x all 256 values"),
            Kind::Pair(n) => (
                format!("pair{n}"),
                if n == 256 {
                    "every pair of structural positions of every seed x 256 x 256 values"
                } else {
                    "every pair of structural positions of every seed x 12 x 12 boundary values"
                },
            ),
            Kind::Prefix(true) => (
                "prefix2x3".to_string(),
                "every byte string of length <= 2 followed by every seed's tail from offset 0, 1, 2",
            ),
            Kind::Prefix(false) => (
                "prefix2".to_string(),
                "every byte string of length <= 1 followed by every seed's tail from offset 0, 1, 2, and every byte string of length 2 followed by every seed's tail from offset 2",
            ),
            Kind::Xlen => (
                "xlen".to_string(),
                "length fields / length parameters at boundary values x byte strings of boundary sizes (full product)",
            ),
        };
        Part {
            dec,
            kind,
            name: format!("{}/{}", dec.entry(), suffix),
            rule: format!(
                "{rule}; non-trivial = input (bytes or length parameter) differs from its seed, counted distinct by 64-bit hash of (decoder, bytes, length parameter)"
            ),
            seeds,
            blocks,
            total: start,
        }
    }

    pub fn case(&self, i: u64) -> Case {
        let b = self.blocks.partition_point(|b| b.start <= i) - 1;
        let blk = &self.blocks[b];
        let ix = blk.prod.decode(i - blk.start);
        let s = &self.seeds[blk.seed].bytes;
        let (bytes, plen, what) = match self.kind {
            Kind::Trunc => (s[..ix[0]].to_vec(), ix[0], format!("truncated to {} of {} bytes", ix[0], s.len())),
            Kind::Byte1 => {
                let mut v = s.clone();
                v[ix[0]] = ix[1] as u8;
                (v, s.len(), format!("byte[{}] := {:#04x} (was {:#04x})", ix[0], ix[1], s[ix[0]]))
            }
            Kind::Pair(n) => {
                let (p, q) = blk.pairs[ix[0]];
                let val = |k: usize| if n == 256 { k as u8 } else { BOUNDARY[k] };
                let mut v = s.clone();
                v[p] = val(ix[1]);
                v[q] = val(ix[2]);
                let w = format!(
                    "byte[{p}] := {:#04x} (was {:#04x}), byte[{q}] := {:#04x} (was {:#04x})",
                    v[p], s[p], v[q], s[q]
                );
                (v, s.len(), w)
            }
            Kind::Prefix(_) => {
                let tail = if blk.first_string == 0 { ix[0] } else { 2 };
                let t = tail.min(s.len());
                let mut v: Vec<u8> = match ix[1] + blk.first_string {
                    0 => vec![],
                    k @ 1..=256 => vec![(k - 1) as u8],
                    k => vec![((k - 257) >> 8) as u8, ((k - 257) & 255) as u8],
                };
                let w = format!("bytes {v:02x?} followed by seed[{t}..]");
                v.extend_from_slice(&s[t..]);
                let n = v.len();
                (v, n, w)
            }
            Kind::Xlen => xlen_case(self.dec, s, &ix),
        };
        Case {
            seed: blk.seed,
            bytes,
            plen,
            what,
        }
    }
}

fn xlen_case(dec: Dec, s: &[u8], ix: &[usize]) -> (Vec<u8>, usize, String) {
    let padded = |head: &[u8], n: usize| {
        let mut v = head.to_vec();
        v.resize(n.max(head.len()), b'a');
        v
    };
    match dec {
        Dec::Ipv4 => {
            let mut v = s.to_vec();
            v[0] = ix[0] as u8;
            v[2..4].copy_from_slice(&LEN16[ix[1]].to_be_bytes());
            v[6..8].copy_from_slice(&FRAG16[ix[2]].to_be_bytes());
            if ix[3] == 0 {
                v.truncate(20);
            }
            let n = v.len();
            let w = format!(
                "version/IHL := {:#04x}, total_length := {}, flags/fragment := {:#06x}, {} bytes present",
                ix[0], LEN16[ix[1]], FRAG16[ix[2]], n
            );
            (v, n, w)
        }
        Dec::Udp => {
            let n = UDP_N[ix[2]];
            let mut v = padded(&s[..8], n);
            let field = if ix[0] < LEN16.len() { LEN16[ix[0]] } else { n as u16 };
            v[4..6].copy_from_slice(&field.to_be_bytes());
            let plen = plens(n)[ix[1]];
            (v, plen, format!("length field := {field}, packet_len argument := {plen}, {n} bytes present"))
        }
        Dec::Tcp => {
            let n = TCP_N[ix[2]];
            let mut v = padded(&s[..20], n);
            v[12] = ((ix[0] as u8) << 4) | (v[12] & 0x0f);
            let plen = plens(n)[ix[1]];
            (v, plen, format!("data offset := {}, packet_len argument := {plen}, {n} bytes present", ix[0]))
        }
        Dec::Arp => {
            let mut v = s.to_vec();
            v[4] = ix[0] as u8;
            v[5] = ix[1] as u8;
            v[6..8].copy_from_slice(&ARP_OPER[ix[2]].to_be_bytes());
            let n = v.len();
            (v, n, format!("hlen := {}, plen := {}, oper := {:#06x}", ix[0], ix[1], ARP_OPER[ix[2]]))
        }
        Dec::Dns => {
            let nl = NAME_LEN[ix[0]];
            let fill = FILL[ix[1]];
            let rd = DNS_RD[ix[2]];
            let av = avails(rd as usize)[ix[3]];
            let mut v = s[..12].to_vec();
            for _ in 0..2 {
                v.resize(v.len() + nl, fill);
                v.extend_from_slice(&[b' ', 0, 1, 0, 1]);
            }
            v.extend_from_slice(&[0, 0, 6, 64]);
            v.extend_from_slice(&rd.to_be_bytes());
            v.resize(v.len() + av, 0x0a);
            let n = v.len();
            (
                v,
                n,
                format!("both names {nl} x {fill:#04x}, rdlength := {rd}, {av} rdata bytes present ({n} bytes in all)"),
            )
        }
        Dec::Dhcp => {
            let mt = DHCP_MT[ix[0]];
            let (sl, fl, fill) = (NAME_LEN[ix[1]], NAME_LEN[ix[2]], FILL[ix[3]]);
            let mut v = s[..29].to_vec();
            v.push(mt);
            v.resize(v.len() + sl, fill);
            v.push(0);
            v.resize(v.len() + fl, fill);
            v.push(0);
            let n = v.len();
            (
                v,
                n,
                format!("message type := {mt}, server name {sl} x {fill:#04x}, boot file {fl} x {fill:#04x} ({n} bytes in all)"),
            )
        }
    }
}

pub fn parts(tier: &str) -> Vec<Part> {
    let pair = if tier == "thorough" { 256 } else { BOUNDARY.len() };
    let mut v = vec![];
    for d in DECS {
        let all = tier == "thorough";
        for k in [Kind::Trunc, Kind::Byte1, Kind::Pair(pair), Kind::Prefix(all), Kind::Xlen] {
            v.push(Part::new(d, k));
        }
    }
    v
}

// ---------------------------------------------------------------------------------------------
// Running one case on the real decoder

pub const CLASSES: [&str; 14] = [
    "Ok",
    "HeaderTooShort",
    "Checksum",
    "LengthMismatch",
    "PacketTooLong",
    "UnexpectedOptions",
    "UsedReservedTos",
    "IncorrectIpv4Version",
    "UsedReservedFlag",
    "InvalidHeaderLength",
    "InvalidOperation",
    "InvalidDhcpType",
    "OtherErr",
    "PANIC",
];
const C_OK: usize = 0;
const C_PANIC: usize = 13;

/// The variant name of an error value, read off its `Debug` rendering (robust against variants
/// being added to the repository's error enums).
fn variant<E: std::fmt::Debug>(e: &E) -> String {
    format!("{e:?}")
        .chars()
        .take_while(|c| c.is_alphanumeric() || *c == '_')
        .collect()
}

fn class(name: &str) -> usize {
    CLASSES.iter().position(|c| *c == name).unwrap_or(12)
}

enum Decoded {
    Ipv4(Ipv4Header),
    Udp(UdpHeader),
    Tcp(TcpHeader),
    Arp(ArpPacket),
    Dns(DnsMessage),
    Dhcp(DhcpMessage),
    Err(usize, String),
}

pub struct Run {
    pub class: usize,
    pub violations: Vec<Violation>,
    pub rendered: Vec<String>,
}

/// Feeds `bytes` to the real decoder through a real `Message`, the way `demux` does, then looks
/// at the decoded value. `render` additionally produces text for replays.
pub fn exercise(dec: Dec, seed: &Seed, bytes: &[u8], plen: usize, render: bool) -> Run {
    let msg = Message::new(bytes.to_vec());
    let mut run = Run {
        class: C_OK,
        violations: vec![],
        rendered: vec![],
    };
    let dbg = |e: &dyn std::fmt::Debug| if render { format!("{e:?}") } else { String::new() };
    let decoded = vkit::catch(|| match dec {
        Dec::Ipv4 => match Ipv4Header::from_bytes(msg.iter()) {
            Ok(h) => Decoded::Ipv4(h),
            Err(e) => Decoded::Err(
                class(&variant(&e)),
                dbg(&e),
            ),
        },
        Dec::Udp => match UdpHeader::from_bytes_ipv4(msg.iter(), plen, seed.src, seed.dst) {
            Ok(h) => Decoded::Udp(h),
            Err(e) => Decoded::Err(
                class(&variant(&e)),
                dbg(&e),
            ),
        },
        Dec::Tcp => match TcpHeader::from_bytes(msg.iter(), plen, seed.src, seed.dst) {
            Ok(h) => Decoded::Tcp(h),
            Err(e) => Decoded::Err(
                class(&variant(&e)),
                dbg(&e),
            ),
        },
        Dec::Arp => match ArpPacket::from_bytes(msg.iter()) {
            Ok(h) => Decoded::Arp(h),
            Err(e) => Decoded::Err(
                class(&variant(&e)),
                dbg(&e),
            ),
        },
        Dec::Dns => match DnsMessage::from_bytes(msg.iter()) {
            Ok(h) => Decoded::Dns(h),
            Err(e) => Decoded::Err(class(&variant(&e)), dbg(&e)),
        },
        Dec::Dhcp => match DhcpMessage::from_bytes(msg.iter()) {
            Ok(h) => Decoded::Dhcp(h),
            Err(e) => Decoded::Err(
                class(&variant(&e)),
                dbg(&e),
            ),
        },
    });
    let decoded = match decoded {
        Ok(d) => d,
        Err(p) => {
            run.class = C_PANIC;
            if render {
                run.rendered
                    .push(format!("{} PANICKED at {}: {}", dec.entry(), p.location, p.message));
            }
            run.violations.push(Violation::panic(dec.entry(), &p));
            return run;
        }
    };
    if let Decoded::Err(c, text) = &decoded {
        run.class = *c;
        if render {
            run.rendered.push(format!("{} returned Err({text})", dec.entry()));
        }
        return run;
    }
    if bytes.len() < dec.fixed_len() {
        run.violations.push(Violation::new(
            "short-input-rejected",
            dec.entry(),
            "ok-on-input-shorter-than-fixed-header",
            format!(
                "{} bytes were accepted; the fixed header of this protocol has {}",
                bytes.len(),
                dec.fixed_len()
            ),
        ));
    }
    // the returned value can be looked at without unwinding
    let mut look = |entry: &str, f: &dyn Fn() -> String| match vkit::catch(f) {
        Ok(s) => {
            if render {
                run.rendered.push(format!("{entry} -> {s}"));
            } else {
                std::hint::black_box(s);
            }
        }
        Err(p) => {
            if render {
                run.rendered
                    .push(format!("{entry} PANICKED at {}: {}", p.location, p.message));
            }
            run.violations.push(Violation::panic(entry, &p));
        }
    };
    match &decoded {
        Decoded::Ipv4(h) => look("Ipv4Header as Debug", &|| format!("{h:?}")),
        Decoded::Udp(h) => look("UdpHeader as Debug", &|| format!("{h:?}")),
        Decoded::Tcp(h) => {
            look("TcpHeader as Debug", &|| format!("{h:?}"));
            look("TcpHeader::bytes", &|| h.bytes().to_string());
        }
        Decoded::Arp(h) => look("ArpPacket as Debug", &|| format!("{h:?}")),
        Decoded::Dns(m) => {
            if render {
                look("DnsMessage fields", &|| {
                    format!(
                        "id {} properties {:#06x} counts {}/{}/{}/{} qname {:02x?} answer name {:02x?} type {} ttl {} rdata {} bytes",
                        m.header.id,
                        m.header.properties,
                        m.header.qdcount,
                        m.header.ancount,
                        m.header.nscount,
                        m.header.arcount,
                        &m.question.qname[..m.question.qname.len().min(32)],
                        &m.answer.name[..m.answer.name.len().min(32)],
                        m.answer.rec_type,
                        m.answer.ttl,
                        m.answer.rdata.len()
                    )
                });
            }
            look("DnsQuestion::query_name", &|| format!("{:?}", m.question.query_name()));
            look("DnsMessage::_get_type", &|| {
                match m._get_type() {
                    DnsMessageType::QUERY => "QUERY",
                    DnsMessageType::RESPONSE => "RESPONSE",
                }
                .to_string()
            });
        }
        Decoded::Dhcp(h) => look("DhcpMessage as Debug", &|| format!("{h:?}")),
        Decoded::Err(..) => unreachable!(),
    }
    run
}

fn hex(b: &[u8]) -> String {
    let mut s: String = b.iter().take(96).map(|x| format!("{x:02x}")).collect();
    if b.len() > 96 {
        s.push_str(&format!("... ({} bytes)", b.len()));
    }
    s
}

fn describe(p: &Part, i: u64) -> Value {
    let c = p.case(i);
    json!({
        "seed": p.seeds[c.seed].name,
        "mutation": c.what,
        "len": c.bytes.len(),
        "packet_len_argument": c.plen,
        "hex": hex(&c.bytes),
    })
}

fn input_key(dec: Dec, bytes: &[u8], plen: usize) -> u64 {
    let mut h = std::collections::hash_map::DefaultHasher::new();
    (dec.idx(), bytes, plen).hash(&mut h);
    h.finish()
}

pub fn run(report: &mut Report, tier: &str) {
    report.assume("decoders are driven directly with the byte iterator of a real Message (and message.len() where demux passes it); what demux does with an Err is checked by the stack part of C14");
    report.assume("inputs are bounded to the five alphabets named in the parts (truncations, single bytes, pairs of structural bytes, 2-byte prefixes, boundary length fields up to 64 KiB + 21), around 4 valid seed packets per decoder");

    // sanity of the machinery: every seed is a valid packet for its decoder
    let mut seeds_ok = 0;
    let mut rejected: Vec<String> = vec![];
    let mut checksum_enforced = false;
    for d in DECS {
        for s in seeds(d) {
            let r = exercise(d, &s, &s.bytes, s.bytes.len(), true);
            if r.class == C_OK {
                seeds_ok += 1;
            } else if r.class != C_PANIC {
                rejected.push(format!(
                    "seed {} is not accepted by {}: {}",
                    s.name,
                    d.entry(),
                    r.rendered.join("; ")
                ));
            }
            if d == Dec::Ipv4 {
                let mut b = s.bytes.clone();
                b[8] ^= 0x55; // TTL: covered by the checksum, not otherwise checked
                checksum_enforced |= exercise(d, &s, &b, b.len(), false).class != C_OK;
            }
        }
    }
    report.set("seeds_accepted", json!(seeds_ok));
    // without cargo feature `compute_checksum` (the default) the decoders only demand a zero
    // checksum field, so mutations of other bytes reach every later field check
    report.set("checksums_computed_in_this_build", json!(checksum_enforced));

    let mut outcomes = serde_json::Map::new();
    for p in parts(tier) {
        let counts: Vec<AtomicU64> = (0..CLASSES.len()).map(|_| AtomicU64::new(0)).collect();
        let f = |i: u64| {
            let c = p.case(i);
            let s = &p.seeds[c.seed];
            let r = exercise(p.dec, s, &c.bytes, c.plen, false);
            counts[r.class].fetch_add(1, Ordering::Relaxed);
            let nontrivial = if c.bytes != s.bytes || c.plen != s.bytes.len() {
                Some(input_key(p.dec, &c.bytes, c.plen))
            } else {
                None
            };
            CaseOutcome {
                nontrivial,
                violations: r.violations,
            }
        };
        enumerate::run_into(report, &p.name, &p.rule, p.total, f, |i| describe(&p, i));
        let m: serde_json::Map<String, Value> = counts
            .iter()
            .enumerate()
            .filter(|(_, c)| c.load(Ordering::Relaxed) > 0)
            .map(|(k, c)| (CLASSES[k].to_string(), json!(c.load(Ordering::Relaxed))))
            .collect();
        outcomes.insert(p.name.clone(), Value::Object(m));
    }
    report.set("outcomes", Value::Object(outcomes));
    // A rejected seed is not a violation of this property, but it hollows the enumeration out
    // (mutations are no longer around a valid packet): never report OK on top of that.
    if !rejected.is_empty() {
        report.set("seeds_rejected", json!(rejected));
        if report.violation_count() == 0 {
            for r in rejected {
                report.machinery_error(r);
            }
        }
    }
    report.set("exhaustive", json!(true));
    report.set(
        "rule",
        json!("E3: full Cartesian products, no sampling. evaluations = inputs fed to a real decoder; distinct_nontrivial = per part, distinct inputs (hash of decoder, bytes, length parameter) that differ from their seed."),
    );
}

pub fn replay(w: &Value, tier: &str) -> String {
    // hand-made witness {"decoder": "Dhcp", "hex": "..."} (packet_len argument = length)
    if let (Some(d), Some(h)) = (w["decoder"].as_str(), w["hex"].as_str()) {
        let Some(dec) = DECS.iter().find(|x| format!("{x:?}") == d) else {
            return format!("unknown decoder {d}");
        };
        let bytes: Vec<u8> = (0..h.len() / 2)
            .filter_map(|i| u8::from_str_radix(&h[2 * i..2 * i + 2], 16).ok())
            .collect();
        let s = &seeds(*dec)[0];
        let r = exercise(*dec, s, &bytes, bytes.len(), true);
        let mut out = vec![format!("input ({} bytes) = {}", bytes.len(), hex(&bytes))];
        out.extend(r.rendered);
        out.extend(r.violations.iter().map(|v| format!("VIOLATION {}", v.signature())));
        return out.join("\n");
    }
    let name = w["part"].as_str().unwrap_or("");
    let Some(i) = w["index"].as_u64() else {
        return "witness has no index".into();
    };
    for t in [tier, "quick", "thorough"] {
        for p in parts(t) {
            if p.name != name || i >= p.total {
                continue;
            }
            let c = p.case(i);
            let s = &p.seeds[c.seed];
            let r = exercise(p.dec, s, &c.bytes, c.plen, true);
            let mut out = vec![
                format!("part {name} index {i}"),
                format!("seed {} = {}", s.name, hex(&s.bytes)),
                format!("mutation: {}", c.what),
                format!(
                    "input ({} bytes, packet_len argument {}) = {}",
                    c.bytes.len(),
                    c.plen,
                    hex(&c.bytes)
                ),
            ];
            out.extend(r.rendered);
            for v in &r.violations {
                out.push(format!("VIOLATION {} detail={}", v.signature(), v.detail));
            }
            if r.violations.is_empty() {
                out.push("no violation".into());
            }
            return out.join("\n");
        }
    }
    format!("unknown part {name}")
}
