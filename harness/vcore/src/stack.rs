//! Shared pieces for the full-stack (E2) scenarios: event log, frame policies, machine builders.

use elvis_core::{
    network::NetworkBuilder,
    protocols::{
        arp::subnetting::{Ipv4Mask, SubnetInfo},
        ipv4::{Ipv4, Ipv4Address, Recipient},
        Arp, Pci, SocketAPI, Tcp, Udp,
    },
    verif::Verdict,
    IpTable, Machine, Network, Protocol,
};
use std::{
    sync::{Arc, Mutex},
    time::Duration,
};
use vkit::sched::{self, WireFrame};

#[derive(Debug, Clone, PartialEq, Eq, Hash)]
pub enum Ev {
    /// An application read: who, connection tag, bytes asked for (0 = read()), bytes obtained
    Read {
        who: u8,
        asked: usize,
        got: Vec<u8>,
    },
    Wrote {
        who: u8,
        bytes: Vec<u8>,
    },
    Done {
        who: u8,
    },
    Error {
        who: u8,
        what: String,
    },
    Note {
        who: u8,
        what: String,
    },
}

#[derive(Clone, Default)]
pub struct Log(pub Arc<Mutex<Vec<(Duration, Ev)>>>);

impl Log {
    pub fn push(&self, e: Ev) {
        self.0.lock().unwrap().push((sched::vnow(), e));
    }
    pub fn take(&self) -> Vec<(Duration, Ev)> {
        std::mem::take(&mut *self.0.lock().unwrap())
    }
    pub fn snapshot(&self) -> Vec<(Duration, Ev)> {
        self.0.lock().unwrap().clone()
    }
}

/// Frame verdict alternatives; index 0 must be `Deliver`.
pub fn fault_menu(full: bool) -> Vec<Verdict> {
    if full {
        vec![
            Verdict::Deliver,
            Verdict::Drop,
            Verdict::Duplicate(Duration::ZERO),
            Verdict::Delay(Duration::from_millis(1)),
            Verdict::Delay(Duration::from_millis(150)),
            Verdict::Duplicate(Duration::from_millis(120)),
        ]
    } else {
        vec![Verdict::Deliver]
    }
}

/// Installs wire hooks whose verdict for every frame is a `KIND_FRAME` choice over `menu`.
pub fn install_frame_choices(menu: Vec<Verdict>) {
    sched::install_wire_hooks(move |_f: &WireFrame| {
        if menu.len() <= 1 {
            Verdict::Deliver
        } else {
            menu[sched::choose(sched::KIND_FRAME, menu.len())]
        }
    });
}

pub fn default_table() -> IpTable<Recipient> {
    [("0.0.0.0/0", Recipient::new(0, None))].into_iter().collect()
}

pub fn network(mtu: Option<u16>) -> Arc<Network> {
    match mtu {
        Some(m) => NetworkBuilder::new().mtu(m).build(),
        None => Network::basic(),
    }
}

/// A host with the full socket stack and one application.
pub fn socket_host<A: Protocol + Send + Sync + 'static>(
    net: &Arc<Network>,
    ip: Ipv4Address,
    arp: bool,
    app: A,
) -> Arc<Machine> {
    let m = Machine::new()
        .with(Udp::new())
        .with(Tcp::new())
        .with(Ipv4::new(default_table()))
        .with(Pci::new([net.clone()]))
        .with(SocketAPI::new(Some(ip)));
    let m = if arp {
        let info = SubnetInfo {
            mask: Ipv4Mask::from_bitcount(0),
            default_gateway: Ipv4Address::from([1, 1, 1, 1]),
        };
        m.with(Arp::new().preconfig_subnet(ip, info))
    } else {
        m
    };
    m.with(app).arc()
}

pub fn ip(last: u8) -> Ipv4Address {
    Ipv4Address::new([10, 0, 0, last])
}
