#!/bin/bash
# Independently confirms a seeded change delivered by a helper in /tmp/seed_<ID>/seed_out:
#   1. a fresh scratch worktree of /repo HEAD + patch.diff compiles and passes the pinned suite
#   2. the demonstration fails with the patch and passes without it
# On success copies the artefacts to /verif/seeded/<name>/ (name defaults to ID).
# usage: confirm_seed.sh <ID> [name]
set -u
ID=$1; NAME=${2:-$1}
PFX=${SEED_PREFIX:-/tmp/seed_}
SRC=$PFX$ID/seed_out
# the helper's own worktree is reused (its build cache saves minutes); it is reset to HEAD first
WT=$PFX$ID
[ -f $SRC/patch.diff ] || { echo "no patch.diff in $SRC"; exit 2; }
git -C $WT checkout -q -- . ; git -C $WT clean -fdq -e sim/target -e seed_out
[ -z "$(git -C $WT status --porcelain -- sim | grep -v target)" ] || { echo "worktree not clean"; exit 2; }
cd $WT
RES=/tmp/confirm_$NAME.log; : > $RES
echo "== demo WITHOUT patch" | tee -a $RES
bash $SRC/demo/run.sh $WT >> $RES 2>&1; A=$?
echo "exit $A" | tee -a $RES
git -C $WT checkout -q -- . ; git -C $WT clean -fdq -e sim/target -e seed_out
if ! git -C $WT apply $SRC/patch.diff; then echo "patch does not apply" | tee -a $RES; exit 2; fi
echo "== suite WITH patch" | tee -a $RES
/verif/baseline.sh $WT 2>&1 | grep -E "Summary|FAIL|error" | tee -a $RES
echo "== demo WITH patch" | tee -a $RES
bash $SRC/demo/run.sh $WT >> $RES 2>&1; B=$?
echo "exit $B" | tee -a $RES
echo "RESULT without=$A with=$B" | tee -a $RES
if [ $A -eq 0 ] && [ $B -ne 0 ]; then
  mkdir -p /verif/seeded/$NAME
  cp $SRC/patch.diff /verif/seeded/$NAME/patch.diff
  rm -rf /verif/seeded/$NAME/demo; cp -r $SRC/demo /verif/seeded/$NAME/demo
  cp $SRC/meta.json /verif/seeded/$NAME/meta.agent.json 2>/dev/null
  echo "CONFIRMED -> /verif/seeded/$NAME"
else
  echo "NOT CONFIRMED"
fi
git -C $WT checkout -q -- . ; git -C $WT clean -fdq -e sim/target -e seed_out
