//! C04 - Datagrams reach exactly the listener bound to their address and port.
//!
//! The oracle is driven by the wire: for every UDP datagram the frame hook saw and every machine
//! whose tap was handed that frame, a ten-line reference demultiplexer says which recorder (if
//! any) must receive it; the recorders' logs must equal that multiset exactly.

use crate::stack::default_table;
use elvis_core::{
    message::Message,
    protocol::{DemuxError, StartError},
    protocols::{
        ipv4::{ipv4_parsing::Ipv4Header, Ipv4, Ipv4Address, Recipient},
        udp::UdpHeader,
        Arp, Endpoint, Endpoints, Pci, Udp,
    },
    run_internet_with_timeout, Control, IpTable, Machine, Network, Protocol, Session, Shutdown,
};
use serde_json::json;
use std::{
    any::TypeId,
    sync::{Arc, Mutex},
    time::Duration,
};
use tokio::sync::Barrier;
use vkit::{
    sched::{self, Bounds, Scenario},
    Report, Violation,
};

const P: u16 = 1000;
const Q: u16 = 2000;
const R: u16 = 3000;
const MTU: u16 = 200;

fn a(m: usize) -> Ipv4Address {
    Ipv4Address::new([10, 0, 0, 1 + m as u8])
}

/// The five candidate bindings of machine `m` (index = recorder number).
fn candidates(m: usize) -> [Endpoint; 5] {
    let other = if m == 1 { 2 } else { 1 };
    [
        Endpoint::new(a(m), P),
        Endpoint::new(a(m), Q),
        Endpoint::new(Ipv4Address::CURRENT_NETWORK, P),
        Endpoint::new(a(other), P),
        Endpoint::new(Ipv4Address::SUBNET, P),
    ]
}

#[derive(Clone, Debug)]
pub struct DemuxCfg {
    pub name: String,
    /// bindings[m] = bitmask over candidates(m) for receiving machines 1 and 2
    pub bind: [u8; 2],
    pub arp: bool,
    /// the sender's route names machine 1's MAC (frames reach machine 1 only) or no MAC (broadcast)
    pub route_mac: bool,
    pub machines: usize,
}

#[derive(Debug, Clone, PartialEq, Eq, PartialOrd, Ord, Hash)]
struct Got {
    machine: usize,
    rec: usize,
    payload: Vec<u8>,
    src: (u32, u16),
    dst: (u32, u16),
}

#[derive(Default)]
struct Book {
    got: Mutex<Vec<Got>>,
    notes: Mutex<Vec<String>>,
}

struct Rec<const N: usize> {
    machine: usize,
    book: Arc<Book>,
}

#[async_trait::async_trait]
impl<const N: usize> Protocol for Rec<N> {
    async fn start(&self, _s: Shutdown, initialized: Arc<Barrier>, _m: Arc<Machine>) -> Result<(), StartError> {
        initialized.wait().await;
        Ok(())
    }
    fn demux(&self, m: Message, _c: Arc<dyn Session>, ctl: Control, _mach: Arc<Machine>) -> Result<(), DemuxError> {
        let ip = ctl.get::<Ipv4Header>().copied();
        let udp = ctl.get::<UdpHeader>().copied();
        let (src, dst) = match (ip, udp) {
            (Some(i), Some(u)) => ((i.source.to_u32(), u.source), (i.destination.to_u32(), u.destination)),
            _ => ((0, 0), (0, 0)),
        };
        self.book.got.lock().unwrap().push(Got {
            machine: self.machine,
            rec: N,
            payload: m.to_vec(),
            src,
            dst,
        });
        Ok(())
    }
}

fn rec_id(n: usize) -> TypeId {
    match n {
        0 => TypeId::of::<Rec<0>>(),
        1 => TypeId::of::<Rec<1>>(),
        2 => TypeId::of::<Rec<2>>(),
        3 => TypeId::of::<Rec<3>>(),
        _ => TypeId::of::<Rec<4>>(),
    }
}

/// Binds the configured endpoints before the barrier, tries every bind a second time, and on
/// machine 0 sends the datagrams.
struct Driver {
    machine: usize,
    cfg: DemuxCfg,
    book: Arc<Book>,
}

fn payload(tag: u8, len: usize) -> Vec<u8> {
    (0..len).map(|i| if i == 0 { tag } else { (i % 251) as u8 }).collect()
}

#[async_trait::async_trait]
impl Protocol for Driver {
    async fn start(&self, shutdown: Shutdown, initialized: Arc<Barrier>, machine: Arc<Machine>) -> Result<(), StartError> {
        let udp = machine.protocol::<Udp>().unwrap();
        if self.machine >= 1 {
            let mask = self.cfg.bind[self.machine - 1];
            for (j, ep) in candidates(self.machine).iter().enumerate() {
                if mask & (1 << j) != 0 {
                    if let Err(e) = udp.listen(rec_id(j), *ep, machine.clone()) {
                        self.book.notes.lock().unwrap().push(format!("FIRST-BIND-REFUSED m{} {:?}: {e:?}", self.machine, ep));
                    }
                    // a second attempt, by another application, must be refused
                    let other = rec_id((j + 1) % 5);
                    if udp.listen(other, *ep, machine.clone()).is_ok() {
                        self.book.notes.lock().unwrap().push(format!("SECOND-BIND-ACCEPTED m{} {:?}", self.machine, ep));
                    }
                }
            }
        }
        initialized.wait().await;
        if self.machine != 0 {
            return Ok(());
        }
        let me = TypeId::of::<Driver>();
        let sizes = [0usize, 1, (MTU - 28) as usize];
        let mut tag = 1u8;
        for addr in [a(1), a(2), Ipv4Address::SUBNET] {
            for port in [P, Q, R] {
                let eps = Endpoints::new(Endpoint::new(a(0), 4000 + tag as u16), Endpoint::new(addr, port));
                match udp.open_for_sending(me, eps, machine.clone()).await {
                    Ok(s) => {
                        let len = sizes[tag as usize % 3];
                        if let Err(e) = s.send(Message::new(payload(tag, len)), machine.clone()) {
                            self.book.notes.lock().unwrap().push(format!("send {tag} failed: {e:?}"));
                        }
                    }
                    Err(e) => self.book.notes.lock().unwrap().push(format!("open {tag} failed: {e:?}")),
                }
                tag += 1;
            }
        }
        tokio::time::sleep(Duration::from_millis(500)).await;
        shutdown.shut_down();
        Ok(())
    }
    fn demux(&self, _m: Message, _c: Arc<dyn Session>, _ctl: Control, _mach: Arc<Machine>) -> Result<(), DemuxError> {
        Ok(())
    }
}

pub struct DemuxSc(pub DemuxCfg);

#[derive(Debug, Hash)]
pub struct DemuxObs {
    got: Vec<Got>,
    status: String,
    wire_udp: usize,
}

/// The reference demultiplexer: which recorder of machine `m` owns (addr, port)?
fn owner(cfg: &DemuxCfg, m: usize, addr: Ipv4Address, port: u16) -> Option<usize> {
    if m == 0 || m > 2 {
        return None;
    }
    let mask = cfg.bind[m - 1];
    let c = candidates(m);
    let bound = |ep: Endpoint| (0..5).find(|j| mask & (1 << j) != 0 && c[*j] == ep);
    bound(Endpoint::new(addr, port)).or_else(|| bound(Endpoint::new(Ipv4Address::CURRENT_NETWORK, port)))
}

impl Scenario for DemuxSc {
    type Obs = DemuxObs;
    fn name(&self) -> String {
        self.0.name.clone()
    }
    fn run(&self) -> (DemuxObs, Vec<Violation>) {
        let cfg = self.0.clone();
        sched::install_rand(vec![], vec![]);
        let net = elvis_core::network::NetworkBuilder::new().mtu(MTU).build();
        sched::register_networks(&[&net]);
        sched::install_wire_hooks(|f| {
            // arrival order: a frame may be held back
            match sched::choose(sched::KIND_FRAME, 2) {
                0 => elvis_core::verif::Verdict::Deliver,
                _ => {
                    let _ = f;
                    elvis_core::verif::Verdict::Delay(Duration::from_millis(3))
                }
            }
        });
        let book = Arc::new(Book::default());
        let mut pcis = vec![];
        for _ in 0..cfg.machines {
            pcis.push(Pci::new([net.clone()]));
        }
        let macs: Vec<u64> = pcis.iter().map(|p| p.mac_addresses().next().unwrap()).collect();
        let mut machines = vec![];
        for (m, pci) in pcis.into_iter().enumerate() {
            let table: IpTable<Recipient> = if m == 0 && cfg.route_mac {
                [("0.0.0.0/0", Recipient::with_mac(0, macs[1]))].into_iter().collect()
            } else {
                default_table()
            };
            let mut mach = Machine::new()
                .with(Udp::new())
                .with(Ipv4::new(table))
                .with(pci)
                .with(Driver {
                    machine: m,
                    cfg: cfg.clone(),
                    book: book.clone(),
                })
                .with(Rec::<0> { machine: m, book: book.clone() })
                .with(Rec::<1> { machine: m, book: book.clone() })
                .with(Rec::<2> { machine: m, book: book.clone() })
                .with(Rec::<3> { machine: m, book: book.clone() })
                .with(Rec::<4> { machine: m, book: book.clone() });
            if cfg.arp {
                mach = mach.with(Arp::new());
            }
            machines.push(mach.arc());
        }
        sched::register_machines(&machines);
        let status = sched::block_on_paused_send(async move {
            sched::start_clock();
            run_internet_with_timeout(&machines, Duration::from_secs(30)).await
        });
        let status = match status {
            Ok(s) => format!("{s:?}"),
            Err(e) => e,
        };
        let taps = sched::take_taps();
        let wire = sched::take_wire();
        let ip_type = TypeId::of::<Ipv4>();
        let mut viols = vec![];
        for n in book.notes.lock().unwrap().iter() {
            if n.starts_with("SECOND-BIND-ACCEPTED") {
                viols.push(Violation::new("duplicate-bind-refused", "Udp::listen", "second-bind-accepted", n.clone()));
            }
            if n.starts_with("FIRST-BIND-REFUSED") {
                viols.push(Violation::new("duplicate-bind-refused", "Udp::listen", "first-bind-refused", n.clone()));
            }
        }
        // expected deliveries from the tap log
        let mut expect: Vec<Got> = vec![];
        for t in taps.iter().filter(|t| t.protocol == ip_type) {
            let Some(m) = macs.iter().position(|x| *x == t.tap_mac) else { continue };
            let Ok(ih) = Ipv4Header::from_bytes(t.bytes.iter().cloned()) else { continue };
            if ih.protocol != 17 || t.bytes.len() < 28 {
                continue;
            }
            let body = &t.bytes[20..];
            let Ok(uh) = UdpHeader::from_bytes_ipv4(body.iter().cloned(), body.len(), ih.source, ih.destination) else {
                continue;
            };
            if let Some(rec) = owner(&cfg, m, ih.destination, uh.destination) {
                expect.push(Got {
                    machine: m,
                    rec,
                    payload: body[8..].to_vec(),
                    src: (ih.source.to_u32(), uh.source),
                    dst: (ih.destination.to_u32(), uh.destination),
                });
            }
        }
        let mut got = book.got.lock().unwrap().clone();
        got.sort();
        expect.sort();
        if got != expect {
            // classify the first difference
            let extra: Vec<&Got> = got.iter().filter(|g| !expect.contains(g)).collect();
            let missing: Vec<&Got> = expect.iter().filter(|g| !got.contains(g)).collect();
            if let Some(g) = extra.first() {
                let right_place = expect.iter().any(|e| e.machine == g.machine && e.payload == g.payload);
                let kind = if right_place {
                    // same datagram, same machine, other recorder or other header data
                    if expect.iter().any(|e| e.machine == g.machine && e.payload == g.payload && e.rec != g.rec) {
                        let e = expect.iter().find(|e| e.machine == g.machine && e.payload == g.payload).unwrap();
                        let c = candidates(g.machine);
                        if c[e.rec].address != Ipv4Address::CURRENT_NETWORK && c[g.rec].address == Ipv4Address::CURRENT_NETWORK {
                            "wildcard-won-over-exact-binding"
                        } else {
                            "delivered-to-wrong-listener"
                        }
                    } else {
                        "source-or-destination-in-control-wrong"
                    }
                } else if owner(&cfg, g.machine, Ipv4Address::from(g.dst.0), g.dst.1).is_none() {
                    "delivered-although-no-binding-matches"
                } else {
                    "unexpected-delivery"
                };
                viols.push(Violation::new(
                    "exact-listener",
                    "Udp::demux",
                    kind,
                    format!("machine {} recorder {} got datagram tag {:?} for {:?}; expected deliveries {:?}", g.machine, g.rec, g.payload.first(), g.dst, expect.iter().map(|e| (e.machine, e.rec, e.payload.first().copied())).collect::<Vec<_>>()),
                ));
            } else if let Some(e) = missing.first() {
                viols.push(Violation::new(
                    "exact-listener",
                    "Udp::demux",
                    "bound-listener-did-not-receive",
                    format!("machine {} recorder {} should have received datagram tag {:?} for {:?}", e.machine, e.rec, e.payload.first(), e.dst),
                ));
            } else {
                viols.push(Violation::new("exact-listener", "Udp::demux", "multiplicity-differs", format!("got {} expected {}", got.len(), expect.len())));
            }
        }
        if status != "Exited" {
            viols.push(Violation::new("run-alive", "run", "run-did-not-end-normally", status.clone()));
        }
        let wire_udp = wire.iter().filter(|f| f.protocol == ip_type).count();
        (DemuxObs { got, status, wire_udp }, viols)
    }
}

/// All binding subsets of size <= 3 (as bitmasks over the five candidates).
fn subsets() -> Vec<u8> {
    (0u8..32).filter(|m| m.count_ones() <= 3).collect()
}

pub fn run(report: &mut Report, tier: &str) {
    report.assume("the oracle judges every UDP datagram that was put on the wire; a send that fails before the wire (e.g. ARP cannot resolve an address nobody claims) produces no datagram");
    let q = tier == "quick";
    let subs = subsets();
    // quick: every subset on machine 1 with three fixed companions on machine 2;
    // thorough: the full square
    let m2: Vec<u8> = if q { vec![0b00000, 0b00101, 0b01001] } else { subs.clone() };
    let mut configs = vec![];
    for &b1 in &subs {
        for &b2 in &m2 {
            for arp in [false, true] {
                for route_mac in [false, true] {
                    if arp && route_mac {
                        continue; // with a MAC in the route ARP is never asked
                    }
                    configs.push(DemuxCfg {
                        name: format!("bind m1={b1:05b} m2={b2:05b} arp={arp} route_mac={route_mac}"),
                        bind: [b1, b2],
                        arp,
                        route_mac,
                        machines: 3,
                    });
                }
            }
        }
    }
    let bounds = Bounds::new(1).wall(Duration::from_secs(if q { 600 } else { 3000 }));
    let start = std::time::Instant::now();
    let (mut execs, mut points, mut outcomes, mut capped) = (0u64, 0u64, 0u64, 0u64);
    let mut sampled = 0;
    for (i, cfg) in configs.iter().enumerate() {
        let sc = DemuxSc(cfg.clone());
        let mut b = bounds.clone();
        b.max_wall = bounds.max_wall.saturating_sub(start.elapsed()).max(Duration::from_secs(1));
        let st = sched::explore(&sc, &b);
        execs += st.executions;
        points += st.choice_points;
        outcomes += st.distinct_outcomes;
        if st.capped.is_some() || st.completed_bound != Some(1) {
            capped += 1;
        }
        for (v, w, n) in &st.found {
            let mut w = w.clone();
            w["occurrences"] = json!(n);
            report.violation(v.clone(), w);
        }
        for m in &st.machinery {
            report.machinery_error(m.clone());
        }
        if i % (configs.len() / 3 + 1) == 0 && sampled < 3 {
            sampled += 1;
            for s in st.samples.iter().take(1) {
                report.sample(s.clone());
            }
        }
    }
    report.add_count("states", execs);
    report.add_count("transitions", points);
    report.add_count("traces_validated_against_impl", execs);
    report.add_count("executions", execs);
    report.add_count("distinct_outcomes", outcomes);
    report.part(json!({
        "part": "binding configurations", "configurations": configs.len(), "executions": execs,
        "choice_points_total": points, "distinct_outcomes_summed": outcomes,
        "deviation_bound": 1, "configurations_not_completed": capped,
        "datagrams_per_execution": 9, "wall_s": start.elapsed().as_secs_f64(),
    }));
    if capped > 0 {
        report.machinery_error(format!("{capped} configurations did not complete deviation level 1 within the wall cap"));
    }
    // two polls at the same time on two workers: the listen tables under loom
    vkit::loomrun::run_into(&loom_scenarios(tier), report);
    report.set("exhaustive", json!(capped == 0));
    report.set("rule", json!("every binding configuration (subsets of size <= 3 of five candidate bindings per receiving machine, with/without ARP, route with/without MAC) x every execution within 1 deviation (task order, frame held back 3 ms); nine datagrams per execution to {A1, A2, broadcast} x {P, Q, R}"));
}

/// E4: one worker binds further endpoints (chosen to share a map shard with the looked-up
/// keys) while another demultiplexes datagrams for an endpoint bound all along; and two
/// datagram sockets binding the same endpoint at the same time, followed by an arrival.
fn loom_scenarios(tier: &str) -> Vec<vkit::loomrun::LoomScenario> {
    let thorough = tier == "thorough";
    let mut v: Vec<String> = vec![];
    let (maxb, maxd) = if thorough { (4, 3) } else { (2, 2) };
    for binds in 1..=maxb {
        for dgrams in 1..=maxd {
            for w in ["wild", "nowild"] {
                v.push(format!("udp:{binds}:{dgrams}:{w}"));
            }
        }
    }
    v.push("sockbind:datagram".into());
    v.into_iter()
        .map(|name| vkit::loomrun::LoomScenario {
            name,
            preemptions: if thorough { 4 } else { 3 },
            wall: Duration::from_secs(if thorough { 900 } else { 120 }),
        })
        .collect()
}

pub fn replay(w: &serde_json::Value, _tier: &str) -> String {
    if let Some(s) = vkit::loomrun::replay(w) {
        return s;
    }
    let name = w["scenario"].as_str().unwrap_or("");
    let ch: Vec<u16> = w["choices"]
        .as_array()
        .map(|a| a.iter().map(|x| x.as_u64().unwrap() as u16).collect())
        .unwrap_or_default();
    // parse the configuration back from its name
    let get = |k: &str| name.split(' ').find_map(|t| t.strip_prefix(k)).unwrap_or("").to_string();
    let b1 = u8::from_str_radix(&get("m1="), 2).unwrap_or(0);
    let b2 = u8::from_str_radix(&get("m2="), 2).unwrap_or(0);
    let cfg = DemuxCfg {
        name: name.to_string(),
        bind: [b1, b2],
        arp: get("arp=") == "true",
        route_mac: get("route_mac=") == "true",
        machines: 3,
    };
    sched::replay(&DemuxSc(cfg), &ch)
}
