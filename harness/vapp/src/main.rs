//! Check binary for the properties that also need the `elvis` crate.
//! Usage: vapp <ID> --tier quick|thorough [--replay file]

#[path = "../../vcore/src/c14dec.rs"]
mod c14dec;
mod c15gen;

use vkit::report::{load_replay, parse_args, Report};

type RunFn = fn(&mut Report, &str);
type ReplayFn = fn(&serde_json::Value, &str) -> String;

fn c14_run(r: &mut Report, tier: &str) {
    c14dec::run(r, tier);
}
fn c14_replay(w: &serde_json::Value, tier: &str) -> String {
    c14dec::replay(w, tier)
}

fn c15_run(r: &mut Report, tier: &str) {
    c15gen::run(r, tier);
}
fn c15_replay(w: &serde_json::Value, tier: &str) -> String {
    c15gen::replay(w, tier)
}

const CHECKS: &[(&str, &str, RunFn, ReplayFn)] = &[
    ("C14", "exploration", c14_run, c14_replay),
    ("C15", "model_checking", c15_run, c15_replay),
];

fn main() {
    let args = parse_args();
    vkit::install_panic_hook();
    rayon::ThreadPoolBuilder::new()
        .num_threads(vkit::threads())
        .stack_size(16 << 20)
        .build_global()
        .ok();
    let Some(c) = CHECKS.iter().find(|c| c.0 == args.id) else {
        eprintln!("MACHINERY-ERROR unknown property {}", args.id);
        std::process::exit(2);
    };
    if let Some(path) = &args.replay {
        let v = load_replay(path);
        println!("{}", (c.3)(&v["witness"], &args.tier));
        return;
    }
    vkit::quiet_stdout();
    let mut r = Report::new(c.0, &args.tier, c.1);
    (c.2)(&mut r, &args.tier);
    std::process::exit(r.finish());
}
