//! E2: deviation-bounded, stateless schedule search over the real tokio stack (CHESS style).
//!
//! One *execution* runs a scenario to completion on a fresh current-thread tokio runtime with a
//! paused clock. Every source of nondeterminism is a *choice point* answered by this module:
//! which runnable task is polled next and which branch `select!` starts with (vendored tokio
//! hooks), what happens to each frame (elvis-core `verif` frame hook), and scenario-specific
//! environment answers. Choice 0 is always the default (FIFO, declaration order, deliver).
//! The explorer runs the all-default execution, then every execution that deviates from it in
//! at most `d` choices, level by level (d = 0, 1, 2, ...), each execution exactly once.

use crate::report::Violation;
use dashmap::DashSet;
use serde_json::{json, Value};
use std::{
    cell::RefCell,
    collections::BTreeMap,
    future::Future,
    sync::{
        atomic::{AtomicBool, AtomicU64, Ordering},
        Mutex,
    },
    time::{Duration, Instant},
};

pub const KIND_TASK: u8 = 0;
pub const KIND_SELECT: u8 = 1;
pub const KIND_FRAME: u8 = 2;
pub const KIND_ENV: u8 = 3;
pub const KINDS: usize = 4;
pub const KIND_NAMES: [&str; KINDS] = ["task", "select", "frame", "env"];

#[derive(Debug, Clone, Copy, PartialEq, Eq, Hash)]
pub struct Point {
    pub kind: u8,
    pub n: u16,
    pub taken: u16,
}

struct Exec {
    prefix: Vec<u16>,
    trace: Vec<Point>,
    polls: u64,
    poll_cap: u64,
    livelock: bool,
    diverged: Option<String>,
}

thread_local! {
    static EXEC: RefCell<Option<Exec>> = const { RefCell::new(None) };
}

/// Answers one choice point with `n` alternatives. Outside an execution the answer is 0.
pub fn choose(kind: u8, n: usize) -> usize {
    if n <= 1 {
        return 0;
    }
    EXEC.with(|e| {
        let mut e = e.borrow_mut();
        let Some(e) = e.as_mut() else { return 0 };
        let pos = e.trace.len();
        let mut taken = e.prefix.get(pos).copied().unwrap_or(0) as usize;
        if taken >= n {
            if e.diverged.is_none() {
                e.diverged = Some(format!(
                    "choice point {pos}: replayed choice {taken} but only {n} alternatives"
                ));
            }
            taken = 0;
        }
        e.trace.push(Point {
            kind,
            n: n.min(u16::MAX as usize) as u16,
            taken: taken as u16,
        });
        taken
    })
}

fn task_chooser(n: usize) -> usize {
    let over = EXEC.with(|e| {
        let mut e = e.borrow_mut();
        match e.as_mut() {
            Some(e) => {
                e.polls += 1;
                if e.polls > e.poll_cap {
                    e.livelock = true;
                    true
                } else {
                    false
                }
            }
            None => false,
        }
    });
    if over {
        panic!("VERIF-LIVELOCK: poll cap exceeded");
    }
    choose(KIND_TASK, n)
}

/// Runs a future to completion on a fresh paused current-thread runtime. The future is spawned,
/// so that it is scheduled by the chooser like every other task.
pub fn block_on_paused<F>(fut: F) -> Result<F::Output, String>
where
    F: Future + 'static,
    F::Output: 'static,
{
    let rt = tokio::runtime::Builder::new_current_thread()
        .enable_time()
        .start_paused(true)
        .build()
        .map_err(|e| format!("runtime build failed: {e}"))?;
    let local = tokio::task::LocalSet::new();
    let out = local.block_on(&rt, async move {
        let h = tokio::task::spawn_local(fut);
        h.await
    });
    drop(local);
    drop(rt);
    out.map_err(|e| format!("scenario main task failed: {}", strip_task_id(&e.to_string())))
}

/// Task ids are process-global counters: not part of a reproducible observation.
fn strip_task_id(s: &str) -> String {
    s.chars().filter(|c| !c.is_ascii_digit()).collect()
}

/// Like [`block_on_paused`] for `Send` futures: spawned on the runtime proper (the scheduler
/// queue the chooser controls).
pub fn block_on_paused_send<F>(fut: F) -> Result<F::Output, String>
where
    F: Future + Send + 'static,
    F::Output: Send + 'static,
{
    let rt = tokio::runtime::Builder::new_current_thread()
        .enable_time()
        .start_paused(true)
        .build()
        .map_err(|e| format!("runtime build failed: {e}"))?;
    let out = rt.block_on(async move {
        let h = tokio::spawn(fut);
        h.await
    });
    drop(rt);
    out.map_err(|e| format!("scenario main task failed: {}", strip_task_id(&e.to_string())))
}

pub struct ExecResult<O> {
    pub trace: Vec<Point>,
    pub obs: Option<O>,
    pub violations: Vec<Violation>,
    pub livelock: bool,
    pub diverged: Option<String>,
    pub polls: u64,
}

pub trait Scenario: Sync {
    type Obs: std::hash::Hash + std::fmt::Debug;
    fn name(&self) -> String;
    /// Builds the system, runs it to its horizon on a paused runtime (use [`block_on_paused_send`]),
    /// and returns what was observed together with the oracle's verdicts. Must be deterministic
    /// given the answers of [`choose`].
    fn run(&self) -> (Self::Obs, Vec<Violation>);
    /// Panics inside tasks are caught by tokio; the engine reports every recorded panic as a
    /// violation unless the scenario says the location is expected.
    fn panic_is_violation(&self, _p: &crate::PanicInfo) -> bool {
        true
    }
    fn poll_cap(&self) -> u64 {
        500_000
    }
}

/// Runs one execution with the given choice prefix.
/// Executions in progress: thread -> (start, scenario, choice prefix). A watchdog thread turns an
/// execution that makes no progress in wall-clock time (a worker blocked for good inside the
/// code under test, e.g. on a lock held across an await) into a verdict instead of a hang.
static RUNNING: std::sync::Mutex<Vec<(std::thread::ThreadId, std::time::Instant, String, Vec<u16>)>> =
    std::sync::Mutex::new(Vec::new());
static WATCHDOG: std::sync::Once = std::sync::Once::new();

fn start_watchdog() {
    WATCHDOG.call_once(|| {
        let limit = std::env::var("VERIF_EXEC_WALL")
            .ok()
            .and_then(|s| s.parse().ok())
            .unwrap_or(240u64);
        std::thread::spawn(move || loop {
            std::thread::sleep(Duration::from_secs(2));
            let stuck = RUNNING
                .lock()
                .unwrap()
                .iter()
                .find(|r| r.1.elapsed() > Duration::from_secs(limit))
                .map(|r| (r.2.clone(), r.3.clone()));
            if let Some((scenario, prefix)) = stuck {
                let prop = crate::report::current_property();
                let sig = format!("no-deadlock|execution|blocked-thread:{scenario}");
                let dir = crate::report::verif_root().join("replays").join(&prop);
                let _ = std::fs::create_dir_all(&dir);
                let path = dir.join(format!("{:016x}.json", crate::key128(&sig) as u64));
                let _ = std::fs::write(
                    &path,
                    serde_json::json!({"property": prop, "signature": sig,
                        "witness": {"scenario": scenario, "choices": prefix, "engine": "E2",
                            "note": "the execution did not finish within the wall-clock limit: a thread of the explored runtime is blocked inside the code under test"}})
                    .to_string(),
                );
                crate::out(&format!(
                    "VIOLATION property={prop} replay={} signature={sig} detail=one execution made no progress for {limit} s of wall-clock time (choice prefix {prefix:?}); a thread is blocked inside the code under test",
                    path.display()
                ));
                std::process::exit(1);
            }
        });
    });
}

pub fn execute<S: Scenario>(s: &S, prefix: &[u16]) -> ExecResult<S::Obs> {
    start_watchdog();
    let me = std::thread::current().id();
    RUNNING
        .lock()
        .unwrap()
        .push((me, std::time::Instant::now(), s.name(), prefix.to_vec()));
    // removed on every way out, also when something unwinds through here
    struct Done(std::thread::ThreadId);
    impl Drop for Done {
        fn drop(&mut self) {
            if let Ok(mut g) = RUNNING.lock() {
                g.retain(|r| r.0 != self.0);
            }
        }
    }
    let _done = Done(me);
    execute_inner(s, prefix)
}

fn execute_inner<S: Scenario>(s: &S, prefix: &[u16]) -> ExecResult<S::Obs> {
    EXEC.with(|e| {
        *e.borrow_mut() = Some(Exec {
            prefix: prefix.to_vec(),
            trace: Vec::with_capacity(256),
            polls: 0,
            poll_cap: s.poll_cap(),
            livelock: false,
            diverged: None,
        })
    });
    tokio::runtime::verif_sched::set_task_chooser(Some(Box::new(task_chooser)));
    tokio::runtime::verif_sched::set_rng_chooser(Some(Box::new(|n| choose(KIND_SELECT, n))));
    let _ = crate::take_panics();
    let r = crate::catch(|| s.run());
    tokio::runtime::verif_sched::set_task_chooser(None);
    tokio::runtime::verif_sched::set_rng_chooser(None);
    elvis_core::verif::set_frame_hook(None);
    elvis_core::verif::set_tap_hook(None);
    elvis_core::verif::set_rand_hook(None);
    teardown();
    let ex = EXEC.with(|e| e.borrow_mut().take()).unwrap();
    let panics = crate::take_panics();
    let mut violations = vec![];
    let obs = match r {
        Ok((o, v)) => {
            violations.extend(v);
            Some(o)
        }
        Err(_) => None,
    };
    for p in panics {
        if p.message.starts_with("VERIF-LIVELOCK") {
            continue;
        }
        if s.panic_is_violation(&p) {
            // the location names the mechanism; the message (first line) is the discriminator
            // (digits removed: task ids and the like are not reproducible)
            let msg: String = p
                .message
                .lines()
                .next()
                .unwrap_or("")
                .chars()
                .filter(|c| !c.is_ascii_digit())
                .take(80)
                .collect();
            violations.push(Violation::panic(&msg, &p));
        }
    }
    ExecResult {
        trace: ex.trace,
        obs,
        violations,
        livelock: ex.livelock,
        diverged: ex.diverged,
        polls: ex.polls,
    }
}

#[derive(Debug, Clone)]
pub struct Bounds {
    /// Maximum number of non-default choices per execution
    pub deviations: usize,
    /// Optional cap on non-default choices per kind
    pub per_kind: [usize; KINDS],
    /// Cap on scheduling deviations (task order + select branch) taken together
    pub sched_cap: usize,
    pub max_wall: Duration,
    pub max_runs: u64,
}

impl Bounds {
    pub fn new(deviations: usize) -> Self {
        Self {
            deviations,
            per_kind: [usize::MAX; KINDS],
            sched_cap: usize::MAX,
            max_wall: Duration::from_secs(3600),
            max_runs: u64::MAX,
        }
    }
    pub fn cap(mut self, kind: u8, n: usize) -> Self {
        self.per_kind[kind as usize] = n;
        self
    }
    pub fn sched(mut self, n: usize) -> Self {
        self.sched_cap = n;
        self
    }
    pub fn wall(mut self, d: Duration) -> Self {
        self.max_wall = d;
        self
    }
}

pub struct SchedStats {
    pub name: String,
    pub executions: u64,
    pub executions_per_level: Vec<u64>,
    pub choice_points: u64,
    pub distinct_outcomes: u64,
    pub completed_bound: Option<usize>,
    pub capped: Option<String>,
    pub branching: BTreeMap<String, u64>,
    pub max_trace_len: usize,
    pub found: Vec<(Violation, Value, u64)>,
    pub machinery: Vec<String>,
    pub wall_s: f64,
    pub default_trace_len: usize,
    pub samples: Vec<Value>,
}

fn trim(taken: &[u16]) -> Vec<u16> {
    let mut v = taken.to_vec();
    while v.last() == Some(&0) {
        v.pop();
    }
    v
}

fn witness<O: std::fmt::Debug>(name: &str, r: &ExecResult<O>) -> Value {
    let taken: Vec<u16> = r.trace.iter().map(|p| p.taken).collect();
    let devs: Vec<Value> = r
        .trace
        .iter()
        .enumerate()
        .filter(|(_, p)| p.taken != 0)
        .map(|(i, p)| json!({"at": i, "kind": KIND_NAMES[p.kind as usize], "n": p.n, "taken": p.taken}))
        .collect();
    let mut obs = format!("{:?}", r.obs);
    if obs.len() > 4000 {
        obs.truncate(4000);
        obs.push_str("...");
    }
    json!({
        "engine": "E2", "scenario": name,
        "choices": trim(&taken),
        "deviations": devs,
        "choice_points": r.trace.len(),
        "observation": obs,
    })
}

struct Shared<'a, S: Scenario> {
    s: &'a S,
    bounds: &'a Bounds,
    start: Instant,
    runs: AtomicU64,
    points: AtomicU64,
    stop: AtomicBool,
    outcomes: DashSet<u128>,
    found: Mutex<BTreeMap<String, (Violation, Value, u64, usize)>>,
    machinery: Mutex<Vec<String>>,
    branching: Mutex<BTreeMap<String, u64>>,
    max_trace: AtomicU64,
}

impl<'a, S: Scenario> Shared<'a, S> {
    /// Runs one prefix, records it, and returns the child prefixes (one more deviation).
    fn run_one(&self, prefix: &[u16], level: usize, want_children: bool) -> Vec<Vec<u16>> {
        let r = execute(self.s, prefix);
        self.runs.fetch_add(1, Ordering::Relaxed);
        self.points
            .fetch_add(r.trace.len() as u64, Ordering::Relaxed);
        self.max_trace
            .fetch_max(r.trace.len() as u64, Ordering::Relaxed);
        if let Some(d) = &r.diverged {
            self.machinery.lock().unwrap().push(format!(
                "DIVERGENCE in {} prefix {:?}: {}",
                self.s.name(),
                prefix,
                d
            ));
        }
        if r.trace.len() < prefix.len() {
            self.machinery.lock().unwrap().push(format!(
                "DIVERGENCE in {}: execution ended after {} choice points, prefix has {}",
                self.s.name(),
                r.trace.len(),
                prefix.len()
            ));
        }
        if r.livelock {
            let v = Violation::new(
                "terminates",
                &self.s.name(),
                "poll-cap-exceeded",
                format!("more than {} task polls in one execution", self.s.poll_cap()),
            );
            self.record(v, &r, level);
        }
        if r.obs.is_none() && !r.livelock && r.violations.is_empty() {
            self.machinery.lock().unwrap().push(format!(
                "scenario {} unwound without a recorded panic, prefix {:?}",
                self.s.name(),
                prefix
            ));
        }
        self.outcomes
            .insert(crate::key128(&format!("{:?}", r.obs)));
        for v in r.violations.clone() {
            self.record(v, &r, level);
        }
        if level == 0 {
            let mut b = self.branching.lock().unwrap();
            for p in &r.trace {
                *b.entry(format!("{}:{}", KIND_NAMES[p.kind as usize], p.n))
                    .or_insert(0) += 1;
            }
        }
        if !want_children {
            return vec![];
        }
        let mut kids = vec![];
        let mut per_kind = [0usize; KINDS];
        for p in &r.trace[..prefix.len().min(r.trace.len())] {
            if p.taken != 0 {
                per_kind[p.kind as usize] += 1;
            }
        }
        let taken: Vec<u16> = r.trace.iter().map(|p| p.taken).collect();
        for i in prefix.len()..r.trace.len() {
            let p = r.trace[i];
            debug_assert_eq!(p.taken, 0);
            if per_kind[p.kind as usize] >= self.bounds.per_kind[p.kind as usize] {
                continue;
            }
            if (p.kind == KIND_TASK || p.kind == KIND_SELECT)
                && per_kind[KIND_TASK as usize] + per_kind[KIND_SELECT as usize]
                    >= self.bounds.sched_cap
            {
                continue;
            }
            for alt in 1..p.n {
                let mut c = taken[..i].to_vec();
                c.push(alt);
                kids.push(c);
            }
            if std::env::var_os("VERIF_DEBUG_SCHED2").is_some() {
                eprintln!("  kid at {i} kind {} n {} per_kind {:?} cap {}", p.kind, p.n, per_kind, self.bounds.sched_cap);
            }
        }
        kids
    }

    fn record(&self, v: Violation, r: &ExecResult<S::Obs>, level: usize) {
        let sig = v.signature();
        let mut g = self.found.lock().unwrap();
        match g.get_mut(&sig) {
            Some(e) => {
                e.2 += 1;
                if level < e.3 {
                    *e = (v, witness(&self.s.name(), r), e.2, level);
                }
            }
            None => {
                g.insert(sig, (v, witness(&self.s.name(), r), 1, level));
            }
        }
    }

    fn over(&self) -> bool {
        if self.stop.load(Ordering::Relaxed) {
            return true;
        }
        if self.start.elapsed() > self.bounds.max_wall
            || self.runs.load(Ordering::Relaxed) >= self.bounds.max_runs
        {
            self.stop.store(true, Ordering::Relaxed);
            return true;
        }
        false
    }
}

/// Explores every execution within the bounds, level by level.
pub fn explore<S: Scenario>(s: &S, bounds: &Bounds) -> SchedStats {
    let sh = Shared {
        s,
        bounds,
        start: Instant::now(),
        runs: AtomicU64::new(0),
        points: AtomicU64::new(0),
        stop: AtomicBool::new(false),
        outcomes: DashSet::new(),
        found: Mutex::new(BTreeMap::new()),
        machinery: Mutex::new(vec![]),
        branching: Mutex::new(BTreeMap::new()),
        max_trace: AtomicU64::new(0),
    };
    let mut samples = vec![];

    // Guard (a): the default execution twice, identical traces and observations.
    let a = execute(s, &[]);
    let b = execute(s, &[]);
    let default_trace_len = a.trace.len();
    if a.trace != b.trace || format!("{:?}", a.obs) != format!("{:?}", b.obs) {
        sh.machinery.lock().unwrap().push(format!(
            "NONDETERMINISM in {}: two default executions differ (trace {} vs {} points)",
            s.name(),
            a.trace.len(),
            b.trace.len()
        ));
    }
    samples.push(witness(&s.name(), &a));

    let mut per_level = vec![];
    let mut completed: Option<usize> = None;
    let mut capped = None;
    let mut level_prefixes: Vec<Vec<u16>> = vec![vec![]];
    for level in 0..=bounds.deviations {
        let before = sh.runs.load(Ordering::Relaxed);
        let last = level == bounds.deviations;
        let queue = Mutex::new(std::mem::take(&mut level_prefixes));
        let next: Mutex<Vec<Vec<u16>>> = Mutex::new(vec![]);
        std::thread::scope(|sc| {
            for _ in 0..crate::threads() {
                sc.spawn(|| loop {
                    if sh.over() {
                        break;
                    }
                    let Some(p) = queue.lock().unwrap().pop() else {
                        break;
                    };
                    let kids = sh.run_one(&p, level, !last);
                    if std::env::var_os("VERIF_DEBUG_SCHED").is_some() {
                        eprintln!("level {level} prefix_len {} devs {:?} kids {}", p.len(), p.iter().enumerate().filter(|(_, x)| **x != 0).map(|(i, x)| (i, *x)).collect::<Vec<_>>(), kids.len());
                    }
                    if !kids.is_empty() {
                        next.lock().unwrap().extend(kids);
                    }
                });
            }
        });
        per_level.push(sh.runs.load(Ordering::Relaxed) - before);
        if sh.stop.load(Ordering::Relaxed) {
            capped = Some(format!(
                "wall/run cap hit during deviation level {level} ({} executions so far)",
                sh.runs.load(Ordering::Relaxed)
            ));
            break;
        }
        completed = Some(level);
        level_prefixes = next.into_inner().unwrap();
        if level_prefixes.is_empty() {
            // no further executions exist: every deeper level is empty as well
            completed = Some(bounds.deviations);
            break;
        }
    }

    // one sample from the deepest level reached
    if let Some(p) = level_prefixes.first() {
        let r = execute(s, p);
        samples.push(witness(&s.name(), &r));
    }

    let found = sh
        .found
        .into_inner()
        .unwrap()
        .into_values()
        .map(|(v, w, n, _)| (v, w, n))
        .collect();
    SchedStats {
        name: s.name(),
        executions: sh.runs.load(Ordering::Relaxed),
        executions_per_level: per_level,
        choice_points: sh.points.load(Ordering::Relaxed),
        distinct_outcomes: sh.outcomes.len() as u64,
        completed_bound: completed,
        capped,
        branching: sh.branching.into_inner().unwrap(),
        max_trace_len: sh.max_trace.load(Ordering::Relaxed) as usize,
        found,
        machinery: sh.machinery.into_inner().unwrap(),
        wall_s: sh.start.elapsed().as_secs_f64(),
        default_trace_len,
        samples,
    }
}

/// Explores a scenario and folds the result into the report.
pub fn run_into<S: Scenario>(s: &S, bounds: &Bounds, report: &mut crate::Report) -> SchedStats {
    let st = explore(s, bounds);
    // states: nodes of the execution tree visited (= executions); transitions: scheduling and
    // environment decisions taken in them; every execution ran on the real implementation.
    report.add_count("states", st.executions);
    report.add_count("transitions", st.choice_points);
    report.add_count("traces_validated_against_impl", st.executions);
    report.add_count("executions", st.executions);
    report.add_count("distinct_outcomes", st.distinct_outcomes);
    report.part(json!({
        "scenario": st.name,
        "executions": st.executions,
        "executions_per_deviation_level": st.executions_per_level,
        "choice_points_total": st.choice_points,
        "default_execution_choice_points": st.default_trace_len,
        "max_choice_points": st.max_trace_len,
        "distinct_outcomes": st.distinct_outcomes,
        "deviation_bound_requested": bounds.deviations,
        "deviation_bound_completed": st.completed_bound,
        "capped": st.capped,
        "branching_of_default_execution": st.branching,
        "distinct_violation_signatures": st.found.len(),
        "wall_s": (st.wall_s * 1000.0).round() / 1000.0,
    }));
    for smp in &st.samples {
        report.sample(smp.clone());
    }
    for (v, w, n) in &st.found {
        let mut w = w.clone();
        w["occurrences"] = json!(n);
        report.violation(v.clone(), w);
    }
    for m in &st.machinery {
        report.machinery_error(m.clone());
    }
    if st.completed_bound.is_none() {
        report.machinery_error(format!(
            "scenario {}: not even deviation level 0 completed",
            st.name
        ));
    }
    st
}

/// Replays one recorded execution and renders it.
pub fn replay<S: Scenario>(s: &S, choices: &[u16]) -> String {
    let r = execute(s, choices);
    let mut out = format!(
        "scenario {} choices {:?}\n  choice points {} polls {} livelock {} diverged {:?}\n  observation {:?}\n",
        s.name(),
        choices,
        r.trace.len(),
        r.polls,
        r.livelock,
        r.diverged,
        r.obs
    );
    for v in &r.violations {
        out.push_str(&format!("  VIOLATION {} :: {}\n", v.signature(), v.detail));
    }
    out
}

// ---------------------------------------------------------------------------------------------
// Wire log: what the frame hook saw, with virtual time stamps.

#[derive(Debug, Clone)]
pub struct WireFrame {
    pub t: Duration,
    pub network: usize,
    pub sender: u64,
    pub destination: Option<u64>,
    pub protocol: std::any::TypeId,
    pub bytes: Vec<u8>,
    pub is_duplicate: bool,
    pub verdict: elvis_core::verif::Verdict,
}

#[derive(Debug, Clone)]
pub struct TapRecord {
    pub t: Duration,
    pub network: usize,
    pub tap_mac: u64,
    pub slot: u32,
    pub sender: u64,
    pub destination: Option<u64>,
    pub protocol: std::any::TypeId,
    pub bytes: Vec<u8>,
}

thread_local! {
    static WIRE: RefCell<Vec<WireFrame>> = const { RefCell::new(Vec::new()) };
    static TAPS: RefCell<Vec<TapRecord>> = const { RefCell::new(Vec::new()) };
    static NETS: RefCell<Vec<usize>> = const { RefCell::new(Vec::new()) };
    static NET_ARCS: RefCell<Vec<std::sync::Arc<elvis_core::Network>>> = const { RefCell::new(Vec::new()) };
    static MACHINE_ARCS: RefCell<Vec<std::sync::Arc<elvis_core::Machine>>> = const { RefCell::new(Vec::new()) };
    static T0: RefCell<Option<tokio::time::Instant>> = const { RefCell::new(None) };
}

/// Virtual time since [`start_clock`] (zero outside a runtime).
pub fn vnow() -> Duration {
    T0.with(|t| match *t.borrow() {
        Some(t0) => tokio::time::Instant::now().saturating_duration_since(t0),
        None => Duration::ZERO,
    })
}

/// Call at the start of the scenario's main future.
pub fn start_clock() {
    T0.with(|t| *t.borrow_mut() = Some(tokio::time::Instant::now()));
}

fn net_index(ptr: usize) -> usize {
    NETS.with(|n| {
        let mut n = n.borrow_mut();
        match n.iter().position(|&p| p == ptr) {
            Some(i) => i,
            None => {
                n.push(ptr);
                n.len() - 1
            }
        }
    })
}

/// Registers networks in a fixed order so that indices are deterministic.
pub fn register_networks(nets: &[&std::sync::Arc<elvis_core::Network>]) {
    NETS.with(|n| {
        let mut n = n.borrow_mut();
        n.clear();
        for a in nets {
            n.push(std::sync::Arc::as_ptr(a) as usize);
        }
    });
    NET_ARCS.with(|n| n.borrow_mut().extend(nets.iter().map(|a| (*a).clone())));
}

/// Registers the machines of this execution so that their reference cycles (machine <-> tap)
/// can be broken when the execution is over; without this every execution leaks its whole
/// simulation.
pub fn register_machines(machines: &[std::sync::Arc<elvis_core::Machine>]) {
    MACHINE_ARCS.with(|m| m.borrow_mut().extend(machines.iter().cloned()));
}

fn teardown() {
    for m in MACHINE_ARCS.with(|m| std::mem::take(&mut *m.borrow_mut())) {
        if let Some(p) = m.protocol::<elvis_core::protocols::Pci>() {
            p.verif_teardown();
        }
    }
    for n in NET_ARCS.with(|n| std::mem::take(&mut *n.borrow_mut())) {
        n.verif_teardown();
    }
}

/// Installs frame and tap hooks that log everything and ask `policy` for the verdict of each
/// frame (the policy may call [`choose`]).
pub fn install_wire_hooks(
    mut policy: impl FnMut(&WireFrame) -> elvis_core::verif::Verdict + 'static,
) {
    WIRE.with(|w| w.borrow_mut().clear());
    TAPS.with(|w| w.borrow_mut().clear());
    T0.with(|t| *t.borrow_mut() = None);
    elvis_core::verif::set_frame_hook(Some(Box::new(move |f| {
        let mut rec = WireFrame {
            t: vnow(),
            network: net_index(f.network),
            sender: f.sender,
            destination: f.destination,
            protocol: f.protocol,
            bytes: f.message.to_vec(),
            is_duplicate: f.is_duplicate,
            verdict: elvis_core::verif::Verdict::Deliver,
        };
        // the copy made for a Duplicate verdict is always delivered as is
        let v = if f.is_duplicate {
            elvis_core::verif::Verdict::Deliver
        } else {
            policy(&rec)
        };
        rec.verdict = v;
        // a runaway execution (e.g. a forwarding loop that never ends) must not eat the memory
        WIRE.with(|w| {
            let mut w = w.borrow_mut();
            if w.len() < 200_000 {
                w.push(rec);
            }
        });
        v
    })));
    elvis_core::verif::set_tap_hook(Some(Box::new(|e| {
        let rec = TapRecord {
            t: vnow(),
            network: net_index(e.network),
            tap_mac: e.tap_mac,
            slot: e.slot,
            sender: e.sender,
            destination: e.destination,
            protocol: e.protocol,
            bytes: e.message.to_vec(),
        };
        TAPS.with(|w| {
            let mut w = w.borrow_mut();
            if w.len() < 200_000 {
                w.push(rec);
            }
        });
    })));
}

pub fn take_wire() -> Vec<WireFrame> {
    WIRE.with(|w| std::mem::take(&mut *w.borrow_mut()))
}
pub fn take_taps() -> Vec<TapRecord> {
    TAPS.with(|w| std::mem::take(&mut *w.borrow_mut()))
}
pub fn wire_len() -> usize {
    WIRE.with(|w| w.borrow().len())
}
pub fn with_wire<R>(f: impl FnOnce(&[WireFrame]) -> R) -> R {
    WIRE.with(|w| f(&w.borrow()))
}

/// Deterministic ISN / DNS-id / jitter source: the harness fixes the values.
pub fn install_rand(isns: Vec<u32>, dns_ids: Vec<u16>) {
    install_rand_jitter(isns, dns_ids, false)
}

/// `jitter`: the latency jitter fraction is an environment choice {0, 1/2, ~1}; otherwise it is
/// fixed at 0 (use this when no network has a variable latency - `Latency::next` draws a random
/// number even when its randomness is zero).
pub fn install_rand_jitter(isns: Vec<u32>, dns_ids: Vec<u16>, jitter: bool) {
    use elvis_core::verif::RandSite;
    let mut isn_i = 0usize;
    let mut dns_i = 0usize;
    elvis_core::verif::set_rand_hook(Some(Box::new(move |site| match site {
        RandSite::Isn => {
            let v = isns.get(isn_i).copied().unwrap_or(1000 + 1000 * isn_i as u32);
            isn_i += 1;
            v as u64
        }
        RandSite::DnsId => {
            let v = dns_ids.get(dns_i).copied().unwrap_or(7 + dns_i as u16);
            dns_i += 1;
            v as u64
        }
        // jitter fraction numerator over 2^24: an environment choice {0, 1/2, ~1}
        RandSite::LatencyJitter => {
            if !jitter {
                0
            } else {
                match choose(KIND_ENV, 3) {
                    0 => 0,
                    1 => 1 << 23,
                    _ => (1 << 24) - 1,
                }
            }
        }
        RandSite::LossCoin => (1 << 24) - 1,
    })));
}
