//! C14 (NDL part) - Malformed input is rejected with an error, never with a crash.
//!
//! E3 only: the network description parser `elvis::ndl::parsing::core_parser` is fed every text
//! of several finite mutation alphabets built from the valid NDL files of the repository (the four
//! shipped `.ndl` files, the two valid files of `tests/parsing_tests`, the ten files of
//! `tests/generator_tests/valid`; identical contents are used once):
//!
//! * `ndl/trunc`    every truncation at a character boundary, keeping the head or keeping the tail
//! * `ndl/token`    every single lexical token deleted, duplicated, replaced by each token of the
//!                  alphabet [`TOK`], and each alphabet token inserted at every token boundary
//! * `ndl/char`     every single character deleted, replaced by each character of [`CH`], and
//!                  each character of [`CH`] inserted at every character boundary
//! * `ndl/line`     every line x 16 line edits (indentation +-1 tab / 4 spaces / 1 space, CRLF,
//!                  lone CR, delete, duplicate, join, swap, blank line, trailing blanks, ...)
//! * `ndl/whole`    whole-file edits (CRLF everywhere, tabs <-> spaces, BOM, case, ...)
//! * `ndl/linepair` every pair (line i deleted, line j duplicated)
//! * `ndl/short4` (quick) / `ndl/short5` (thorough) every token string of length <= 4 / <= 5
//!                  over [`TOK`] as a complete file
//! * thorough only: `ndl/tokpairdel` every pair of tokens deleted; `ndl/tokins2` every ordered
//!   pair of alphabet tokens inserted at every token boundary; `ndl/tokrepdel` every (token i
//!   replaced by an alphabet token, token j deleted)
//!
//! Every text is written to a scratch file under `$VERIF_ROOT/target/tmp` (one file per worker
//! thread) and handed to the real `core_parser` (which takes a path).
//!
//! Oracle (nothing more than the statement): the call returns `Ok(Sim)` or `Err(String)` and never
//! unwinds; a returned `Sim` can be looked at (`Debug`) without unwinding. Only valid UTF-8 texts
//! are presented (the statement quantifies over texts).

use elvis::ndl::parsing::core_parser;
use serde_json::{json, Value};
use std::sync::atomic::{AtomicU64, Ordering};
use vkit::{
    enumerate::{self, CaseOutcome},
    Report, Violation,
};

/// The real entry point (discriminator of panic signatures).
const ENTRY: &str = "core_parser";

// ---------------------------------------------------------------------------------------------
// Seeds

macro_rules! ndl {
    ($p:literal) => {
        ($p, include_str!(concat!("../../../../repo/sim/elvis/", $p)))
    };
}

const SEED_FILES: &[(&str, &str)] = &[
    ndl!("src/ndl/basic.ndl"),
    ndl!("src/ndl/forward.ndl"),
    ndl!("src/ndl/pingpong.ndl"),
    ndl!("src/ndl/testing.ndl"),
    ndl!("tests/parsing_tests/basic_correct_1.txt"),
    ndl!("tests/parsing_tests/basic_correct_new_line.txt"),
    ndl!("tests/generator_tests/valid/basic/forward_ip_valid.txt"),
    ndl!("tests/generator_tests/valid/basic/forward_valid.txt"),
    ndl!("tests/generator_tests/valid/basic/message_ip_valid.txt"),
    ndl!("tests/generator_tests/valid/basic/message_valid.txt"),
    ndl!("tests/generator_tests/valid/basic/pingpong_ip_valid.txt"),
    ndl!("tests/generator_tests/valid/basic/pingpong_valid.txt"),
    ndl!("tests/generator_tests/valid/capture/factory_capture.txt"),
    ndl!("tests/generator_tests/valid/capture/single_capture.txt"),
    ndl!("tests/generator_tests/valid/capture/single_capture_multi_rec.txt"),
    ndl!("tests/generator_tests/valid/capture/single_message.txt"),
];

/// The grammar's token alphabet: all eleven section keywords `get_type` knows (incl. `IPtype`),
/// the punctuation, the white space the parser distinguishes, the escape character, a non-ASCII
/// letter, U+0120 (whose low byte is a space: `check_space_or_newline` casts `char as u8`) and
/// U+212A KELVIN SIGN (a non-ASCII letter whose lowercase is the ASCII `k`).
pub const TOK: &[&str] = &[
    "Template",
    "Networks",
    "Network",
    "IPtype",
    "IP",
    "Machines",
    "Machine",
    "Protocols",
    "Protocol",
    "Applications",
    "Application",
    "[",
    "]",
    "'",
    "=",
    "\t",
    "    ",
    "\n",
    "\r",
    " ",
    "\\",
    "\u{e9}",
    "\u{120}",
    "\u{212a}",
];

/// Character alphabet of the `ndl/char` part: punctuation, white space, NUL, and non-ASCII
/// characters chosen for the sites that look at characters: U+00E9 (2 bytes), U+0120 / U+0109 /
/// U+010A / U+015B / U+015D / U+0127 / U+013D (low byte is space, tab, newline, `[`, `]`, `'`,
/// `=`), U+212A KELVIN SIGN and U+0130 / U+017F (case mappings into or next to ASCII: `tag_no_case`
/// lower-cases), U+FEFF (BOM), U+2028 (line separator), U+10000 (4 bytes).
pub const CH: &[char] = &[
    '[', ']', '\'', '=', '\\', ' ', '\t', '\n', '\r', '\0', '"', 'x', '\u{e9}', '\u{120}',
    '\u{109}', '\u{10a}', '\u{15b}', '\u{15d}', '\u{127}', '\u{13d}', '\u{212a}', '\u{130}',
    '\u{17f}', '\u{feff}', '\u{2028}', '\u{10000}',
];

pub struct Seed {
    pub name: &'static str,
    pub text: &'static str,
    /// byte offsets of all character boundaries, including `text.len()`
    chars: Vec<usize>,
    /// byte ranges of the lexical tokens (they tile the text)
    tokens: Vec<(usize, usize)>,
    /// byte ranges of the lines, terminator included (they tile the text)
    lines: Vec<(usize, usize)>,
}

fn is_special(c: char) -> bool {
    matches!(c, ' ' | '\t' | '\n' | '\r' | '[' | ']' | '=' | '\'' | '\\')
}

/// Lexical tokens: a run of four spaces (one indentation unit: `core_parser` turns it into a
/// tab), each single white-space or punctuation character, each maximal run of other characters.
fn lex(text: &str) -> Vec<(usize, usize)> {
    let mut out = vec![];
    let mut i = 0;
    while i < text.len() {
        let rest = &text[i..];
        let c = rest.chars().next().unwrap();
        let end = if rest.starts_with("    ") {
            i + 4
        } else if is_special(c) {
            i + c.len_utf8()
        } else {
            i + rest.find(is_special).unwrap_or(rest.len())
        };
        out.push((i, end));
        i = end;
    }
    out
}

fn split_lines(text: &str) -> Vec<(usize, usize)> {
    let mut out = vec![];
    let mut start = 0;
    for (i, b) in text.bytes().enumerate() {
        if b == b'\n' {
            out.push((start, i + 1));
            start = i + 1;
        }
    }
    if start < text.len() {
        out.push((start, text.len()));
    }
    out
}

pub fn seeds() -> Vec<Seed> {
    let mut out: Vec<Seed> = vec![];
    for (name, text) in SEED_FILES {
        if out.iter().any(|s| s.text == *text) {
            continue;
        }
        let mut chars: Vec<usize> = text.char_indices().map(|(i, _)| i).collect();
        chars.push(text.len());
        out.push(Seed {
            name,
            text,
            chars,
            tokens: lex(text),
            lines: split_lines(text),
        });
    }
    out
}

// ---------------------------------------------------------------------------------------------
// Mutation families

#[derive(Debug, Clone, Copy, PartialEq, Eq)]
enum Kind {
    Trunc,
    Token,
    Char,
    Line,
    Whole,
    LinePair,
    Short(u32),
    TokPairDel,
    TokIns2,
    TokRepDel,
}

const LINE_OPS: &[&str] = &[
    "delete line",
    "duplicate line",
    "indent +1 tab",
    "indent +4 spaces",
    "indent -1 unit (tab or 4 spaces)",
    "indent +1 space",
    "indent -1 space",
    "line end -> CRLF",
    "line end -> lone CR",
    "blank line inserted before",
    "trailing space added",
    "trailing tab added",
    "swapped with next line",
    "line end removed (joined with next)",
    "indentation style swapped (tabs <-> 4 spaces)",
    "indentation removed",
];

const WHOLE_OPS: &[&str] = &[
    "unchanged seed",
    "CRLF everywhere",
    "lone CR everywhere",
    "tabs -> 4 spaces",
    "4 spaces -> tabs",
    "tabs -> 3 spaces",
    "every tab doubled",
    "trailing newlines removed",
    "newline appended",
    "three newlines appended",
    "BOM prepended",
    "upper-cased",
    "lower-cased",
    "all spaces removed",
    "all newlines removed",
    "single quotes -> double quotes",
    "file concatenated with itself",
    "empty file",
    "lines reversed",
    "newline prepended",
    "every line indented by one more tab",
];

fn tri(n: u64) -> u64 {
    n * n.saturating_sub(1) / 2
}

fn short_total(l: u32) -> u64 {
    (0..=l).map(|k| (TOK.len() as u64).pow(k)).sum()
}

/// Number of cases of `kind` for one seed.
fn count(kind: Kind, s: &Seed) -> u64 {
    let nt = s.tokens.len() as u64;
    let nc = (s.chars.len() - 1) as u64;
    let nl = s.lines.len() as u64;
    let a = TOK.len() as u64;
    let c = CH.len() as u64;
    match kind {
        Kind::Trunc => (nc + 1) * 2,
        Kind::Token => 2 * nt + nt * a + (nt + 1) * a,
        Kind::Char => nc + nc * c + (nc + 1) * c,
        Kind::Line => nl * LINE_OPS.len() as u64,
        Kind::Whole => WHOLE_OPS.len() as u64,
        Kind::LinePair => nl * nl,
        Kind::Short(_) => 0,
        Kind::TokPairDel => tri(nt),
        Kind::TokIns2 => (nt + 1) * a * a,
        // quadratic in the tokens: only the seeds of at most 250 tokens
        Kind::TokRepDel => {
            if nt <= 250 {
                nt * a * nt
            } else {
                0
            }
        }
    }
}

fn esc(s: &str) -> String {
    s.escape_debug().to_string()
}

/// Builds case `k` of `kind` for seed `s`: (description, mutated text).
fn make(kind: Kind, s: &Seed, k: u64, describe: bool) -> (String, String) {
    let t = s.text;
    let tok = |i: usize| &t[s.tokens[i].0..s.tokens[i].1];
    let a = TOK.len() as u64;
    let nt = s.tokens.len() as u64;
    let d = |f: &dyn Fn() -> String| if describe { f() } else { String::new() };
    match kind {
        Kind::Trunc => {
            let cut = s.chars[(k / 2) as usize];
            if k % 2 == 0 {
                (
                    d(&|| format!("first {} of {} characters kept", k / 2, s.chars.len() - 1)),
                    t[..cut].to_string(),
                )
            } else {
                (
                    d(&|| format!("first {} of {} characters removed", k / 2, s.chars.len() - 1)),
                    t[cut..].to_string(),
                )
            }
        }
        Kind::Token => {
            if k < nt {
                let i = k as usize;
                let (b, e) = s.tokens[i];
                (
                    d(&|| format!("token #{i} {:?} (byte {b}) deleted", tok(i))),
                    format!("{}{}", &t[..b], &t[e..]),
                )
            } else if k < 2 * nt {
                let i = (k - nt) as usize;
                let (b, e) = s.tokens[i];
                (
                    d(&|| format!("token #{i} {:?} (byte {b}) duplicated", tok(i))),
                    format!("{}{}{}", &t[..e], &t[b..e], &t[e..]),
                )
            } else if k < 2 * nt + nt * a {
                let r = k - 2 * nt;
                let (i, x) = ((r / a) as usize, TOK[(r % a) as usize]);
                let (b, e) = s.tokens[i];
                (
                    d(&|| format!("token #{i} {:?} (byte {b}) replaced by {x:?}", tok(i))),
                    format!("{}{}{}", &t[..b], x, &t[e..]),
                )
            } else {
                let r = k - 2 * nt - nt * a;
                let (i, x) = ((r / a) as usize, TOK[(r % a) as usize]);
                let b = if i < s.tokens.len() { s.tokens[i].0 } else { t.len() };
                (
                    d(&|| format!("{x:?} inserted before token #{i} (byte {b})")),
                    format!("{}{}{}", &t[..b], x, &t[b..]),
                )
            }
        }
        Kind::Char => {
            let nc = (s.chars.len() - 1) as u64;
            let c = CH.len() as u64;
            if k < nc {
                let i = k as usize;
                (
                    d(&|| format!("character #{i} {:?} deleted", &t[s.chars[i]..s.chars[i + 1]])),
                    format!("{}{}", &t[..s.chars[i]], &t[s.chars[i + 1]..]),
                )
            } else if k < nc + nc * c {
                let r = k - nc;
                let (i, x) = ((r / c) as usize, CH[(r % c) as usize]);
                (
                    d(&|| {
                        format!(
                            "character #{i} {:?} replaced by {x:?} (U+{:04X})",
                            &t[s.chars[i]..s.chars[i + 1]],
                            x as u32
                        )
                    }),
                    format!("{}{}{}", &t[..s.chars[i]], x, &t[s.chars[i + 1]..]),
                )
            } else {
                let r = k - nc - nc * c;
                let (i, x) = ((r / c) as usize, CH[(r % c) as usize]);
                (
                    d(&|| format!("{x:?} (U+{:04X}) inserted before character #{i}", x as u32)),
                    format!("{}{}{}", &t[..s.chars[i]], x, &t[s.chars[i]..]),
                )
            }
        }
        Kind::Line => {
            let nops = LINE_OPS.len() as u64;
            let (i, op) = ((k / nops) as usize, (k % nops) as usize);
            let (b, e) = s.lines[i];
            let line = &t[b..e];
            let (body, term) = match line.strip_suffix('\n') {
                Some(x) => (x, "\n"),
                None => (line, ""),
            };
            let ind_len = body.len() - body.trim_start_matches([' ', '\t']).len();
            let (ind, rest) = body.split_at(ind_len);
            let new: String = match op {
                0 => String::new(),
                1 => format!("{line}{}{line}", if term.is_empty() { "\n" } else { "" }),
                2 => format!("\t{line}"),
                3 => format!("    {line}"),
                4 => line
                    .strip_prefix('\t')
                    .or_else(|| line.strip_prefix("    "))
                    .unwrap_or(line)
                    .to_string(),
                5 => format!(" {line}"),
                6 => line.strip_prefix(' ').unwrap_or(line).to_string(),
                7 => format!("{body}\r\n"),
                8 => format!("{body}\r"),
                9 => format!("\n{line}"),
                10 => format!("{body} {term}"),
                11 => format!("{body}\t{term}"),
                12 => {
                    if i + 1 < s.lines.len() {
                        let (nb, ne) = s.lines[i + 1];
                        let next = &t[nb..ne];
                        let out = if next.ends_with('\n') {
                            format!("{next}{line}")
                        } else {
                            format!("{next}\n{body}")
                        };
                        return (
                            d(&|| format!("line {} {:?}: {}", i + 1, body, LINE_OPS[op])),
                            format!("{}{}{}", &t[..b], out, &t[ne..]),
                        );
                    }
                    line.to_string()
                }
                13 => body.to_string(),
                14 => {
                    let swapped = if ind.contains('\t') {
                        ind.replace('\t', "    ")
                    } else {
                        ind.replace("    ", "\t")
                    };
                    format!("{swapped}{rest}{term}")
                }
                _ => format!("{rest}{term}"),
            };
            (
                d(&|| format!("line {} {:?}: {}", i + 1, body, LINE_OPS[op])),
                format!("{}{}{}", &t[..b], new, &t[e..]),
            )
        }
        Kind::Whole => {
            let op = k as usize;
            let new = match op {
                0 => t.to_string(),
                1 => t.replace('\n', "\r\n"),
                2 => t.replace('\n', "\r"),
                3 => t.replace('\t', "    "),
                4 => t.replace("    ", "\t"),
                5 => t.replace('\t', "   "),
                6 => t.replace('\t', "\t\t"),
                7 => t.trim_end_matches('\n').to_string(),
                8 => format!("{t}\n"),
                9 => format!("{t}\n\n\n"),
                10 => format!("\u{feff}{t}"),
                11 => t.to_uppercase(),
                12 => t.to_lowercase(),
                13 => t.replace(' ', ""),
                14 => t.replace('\n', ""),
                15 => t.replace('\'', "\""),
                16 => format!("{t}{t}"),
                17 => String::new(),
                18 => {
                    let mut v: Vec<&str> = s.lines.iter().map(|&(b, e)| &t[b..e]).collect();
                    v.reverse();
                    v.concat()
                }
                19 => format!("\n{t}"),
                _ => s.lines.iter().map(|&(b, e)| format!("\t{}", &t[b..e])).collect(),
            };
            (d(&|| WHOLE_OPS[op].to_string()), new)
        }
        Kind::LinePair => {
            let nl = s.lines.len() as u64;
            let (i, j) = ((k / nl) as usize, (k % nl) as usize);
            let mut out = String::with_capacity(t.len() + 80);
            for (n, &(b, e)) in s.lines.iter().enumerate() {
                let line = &t[b..e];
                if n != i {
                    out.push_str(line);
                }
                if n == j {
                    if !out.is_empty() && !out.ends_with('\n') {
                        out.push('\n');
                    }
                    out.push_str(line);
                }
            }
            (
                d(&|| format!("line {} deleted, line {} duplicated", i + 1, j + 1)),
                out,
            )
        }
        Kind::Short(_) => unreachable!("seedless"),
        Kind::TokPairDel => {
            // k-th pair i < j in lexicographic order
            let (mut i, mut r) = (0u64, k);
            while r >= nt - 1 - i {
                r -= nt - 1 - i;
                i += 1;
            }
            let j = i + 1 + r;
            let (i, j) = (i as usize, j as usize);
            let ((b1, e1), (b2, e2)) = (s.tokens[i], s.tokens[j]);
            (
                d(&|| format!("tokens #{i} {:?} and #{j} {:?} deleted", tok(i), tok(j))),
                format!("{}{}{}", &t[..b1], &t[e1..b2], &t[e2..]),
            )
        }
        Kind::TokIns2 => {
            let (i, r) = ((k / (a * a)) as usize, k % (a * a));
            let (x, y) = (TOK[(r / a) as usize], TOK[(r % a) as usize]);
            let b = if i < s.tokens.len() { s.tokens[i].0 } else { t.len() };
            (
                d(&|| format!("{x:?} {y:?} inserted before token #{i} (byte {b})")),
                format!("{}{}{}{}", &t[..b], x, y, &t[b..]),
            )
        }
        Kind::TokRepDel => {
            let (i, r) = ((k / (a * nt)) as usize, k % (a * nt));
            let (x, j) = (TOK[(r / nt) as usize], (r % nt) as usize);
            let mut out = String::with_capacity(t.len() + 16);
            for (n, &(b, e)) in s.tokens.iter().enumerate() {
                if n == i {
                    out.push_str(x);
                } else if n != j {
                    out.push_str(&t[b..e]);
                }
            }
            (
                d(&|| {
                    format!(
                        "token #{i} {:?} replaced by {x:?}, token #{j} {:?} deleted",
                        tok(i),
                        tok(j)
                    )
                }),
                out,
            )
        }
    }
}

/// Token string number `k` of the `ndl/short` part: lengths 0, 1, ..., L in turn.
fn short_case(l: u32, mut k: u64) -> Vec<&'static str> {
    let a = TOK.len() as u64;
    let mut len = 0;
    while len <= l && k >= a.pow(len) {
        k -= a.pow(len);
        len += 1;
    }
    let mut v = vec![""; len as usize];
    for slot in v.iter_mut().rev() {
        *slot = TOK[(k % a) as usize];
        k /= a;
    }
    v
}

// ---------------------------------------------------------------------------------------------
// Parts

pub struct Part {
    pub name: &'static str,
    pub rule: &'static str,
    kind: Kind,
    /// cumulative case counts per seed (len = seeds + 1); empty for seedless parts
    cum: Vec<u64>,
    pub total: u64,
}

pub struct Case {
    pub seed: Option<usize>,
    pub what: String,
    pub text: String,
}

impl Part {
    fn new(name: &'static str, rule: &'static str, kind: Kind, seeds: &[Seed]) -> Self {
        if let Kind::Short(l) = kind {
            return Part {
                name,
                rule,
                kind,
                cum: vec![],
                total: short_total(l),
            };
        }
        let mut cum = vec![0u64];
        for s in seeds {
            cum.push(cum.last().unwrap() + count(kind, s));
        }
        let total = *cum.last().unwrap();
        Part {
            name,
            rule,
            kind,
            cum,
            total,
        }
    }

    pub fn case(&self, seeds: &[Seed], i: u64, describe: bool) -> Case {
        if let Kind::Short(l) = self.kind {
            let v = short_case(l, i);
            return Case {
                seed: None,
                what: if describe {
                    format!("file made of the {} tokens {:?}", v.len(), v)
                } else {
                    String::new()
                },
                text: v.concat(),
            };
        }
        let si = self.cum.partition_point(|&c| c <= i) - 1;
        let (what, text) = make(self.kind, &seeds[si], i - self.cum[si], describe);
        Case {
            seed: Some(si),
            what,
            text,
        }
    }
}

const NONTRIVIAL: &str = "the text differs from every seed file; counted distinct by text";

pub fn parts(tier: &str, seeds: &[Seed]) -> Vec<Part> {
    let mut v = vec![
        Part::new("ndl/trunc", NONTRIVIAL, Kind::Trunc, seeds),
        Part::new("ndl/token", NONTRIVIAL, Kind::Token, seeds),
        Part::new("ndl/char", NONTRIVIAL, Kind::Char, seeds),
        Part::new("ndl/line", NONTRIVIAL, Kind::Line, seeds),
        Part::new("ndl/whole", NONTRIVIAL, Kind::Whole, seeds),
        Part::new("ndl/linepair", NONTRIVIAL, Kind::LinePair, seeds),
    ];
    if tier == "thorough" {
        v.push(Part::new("ndl/short5", NONTRIVIAL, Kind::Short(5), seeds));
        v.push(Part::new("ndl/tokpairdel", NONTRIVIAL, Kind::TokPairDel, seeds));
        v.push(Part::new("ndl/tokins2", NONTRIVIAL, Kind::TokIns2, seeds));
        v.push(Part::new("ndl/tokrepdel", NONTRIVIAL, Kind::TokRepDel, seeds));
    } else {
        v.push(Part::new("ndl/short4", NONTRIVIAL, Kind::Short(4), seeds));
    }
    v
}

// ---------------------------------------------------------------------------------------------
// Running the real parser

/// One scratch file per worker thread, kept open and overwritten in place (`pwrite` +
/// `ftruncate` to the new length): truncating to zero and rewriting, which is what `fs::write`
/// does, makes ext4 flush the data on every close and costs milliseconds per case.
struct Scratch {
    path: String,
    file: Option<std::fs::File>,
    len: u64,
}

thread_local! {
    static SCRATCH: std::cell::RefCell<Scratch> = {
        let dir = vkit::report::scratch_dir();
        let _ = std::fs::create_dir_all(&dir);
        let who = match rayon::current_thread_index() {
            Some(i) => format!("w{i}"),
            None => "main".to_string(),
        };
        let path = dir
            .join(format!("c14ndl-{}-{who}.ndl", std::process::id()))
            .to_string_lossy()
            .into_owned();
        std::cell::RefCell::new(Scratch { path, file: None, len: 0 })
    };
}

/// Puts `text` into this thread's scratch file and returns its path.
fn write_scratch(text: &str) -> Result<String, String> {
    use std::os::unix::fs::FileExt;
    SCRATCH.with(|s| {
        let mut s = s.borrow_mut();
        if s.file.is_none() {
            let f = std::fs::OpenOptions::new()
                .write(true)
                .create(true)
                .truncate(true)
                .open(&s.path)
                .map_err(|e| format!("cannot create {}: {e}", s.path))?;
            s.file = Some(f);
            s.len = 0;
        }
        let path = s.path.clone();
        let new_len = text.len() as u64;
        let f = s.file.as_ref().unwrap();
        f.write_all_at(text.as_bytes(), 0)
            .map_err(|e| format!("cannot write {path}: {e}"))?;
        if new_len < s.len {
            f.set_len(new_len)
                .map_err(|e| format!("cannot truncate {path}: {e}"))?;
        }
        s.len = new_len;
        Ok(path)
    })
}

fn remove_scratch() {
    SCRATCH.with(|s| {
        let mut s = s.borrow_mut();
        s.file = None;
        s.len = 0;
        let _ = std::fs::remove_file(&s.path);
    });
}

/// Panic sites inside dependencies carry machine-specific prefixes (cargo registry hash, rustc
/// commit); cut them so the signature names the crate file only. Sites inside the standard
/// library (reached through callers that are not `#[track_caller]`, e.g. nom's `split_at`) have
/// no source text available and a line number that moves with the toolchain: they are named by
/// file plus the kind of failure instead.
fn stable_site(loc: &str, message: &str) -> String {
    if let Some(i) = loc.find("/registry/src/") {
        let rest = &loc[i + "/registry/src/".len()..];
        if let Some(j) = rest.find('/') {
            return rest[j + 1..].to_string();
        }
    }
    if loc.starts_with("/rustc/") {
        if let Some(i) = loc.find("/library/") {
            let file = loc[i + 1..].split(':').next().unwrap_or("");
            let kind = if message.contains("is not a char boundary") {
                "not a char boundary"
            } else if message.contains("out of range") || message.contains("out of bounds") {
                "index out of range"
            } else if message.contains("overflow") {
                "arithmetic overflow"
            } else {
                "other"
            };
            return format!("{file} ({kind})");
        }
    }
    loc.to_string()
}

pub enum Parsed {
    Ok(String),
    Err(String),
    Panic(vkit::PanicInfo),
    Io(String),
}

/// Writes `text` to this thread's scratch file and calls the real `core_parser` on it.
/// `render`: keep the full `Debug` of the result (replay); otherwise only its length.
pub fn parse(text: &str, render: bool) -> Parsed {
    let path = match write_scratch(text) {
        Ok(p) => p,
        Err(e) => return Parsed::Io(e),
    };
    let r = vkit::catch(|| match core_parser(path.clone()) {
        Ok(sim) => {
            // the value can be looked at
            let d = format!("{sim:?}");
            Ok(if render {
                format!(
                    "{} networks, {} machines: {d}",
                    sim.networks.len(),
                    sim.machines.len()
                )
            } else {
                String::new()
            })
        }
        Err(e) => Err(if render { e } else { String::new() }),
    });
    match r {
        Ok(Ok(s)) => Parsed::Ok(s),
        Ok(Err(e)) => Parsed::Err(e),
        Err(p) => Parsed::Panic(p),
    }
}

fn violation_of(p: &vkit::PanicInfo) -> Violation {
    let mut p = p.clone();
    p.location = stable_site(&p.location, &p.message);
    Violation::panic(ENTRY, &p)
}

pub fn run(report: &mut Report, tier: &str) {
    let seeds = seeds();
    let seed_keys: Vec<u64> = seeds.iter().map(|s| vkit::key128(s.text) as u64).collect();
    report.assume(
        "C14/NDL: only valid UTF-8 texts are presented to core_parser (the statement quantifies over texts); a file that is not UTF-8 is outside the enumeration",
    );
    report.set(
        "ndl_seeds",
        json!(seeds
            .iter()
            .map(|s| json!({"file": s.name, "bytes": s.text.len(), "tokens": s.tokens.len(), "lines": s.lines.len()}))
            .collect::<Vec<_>>()),
    );
    report.set("ndl_token_alphabet", json!(TOK));
    report.set(
        "ndl_char_alphabet",
        json!(CH.iter().map(|c| format!("U+{:04X}", *c as u32)).collect::<Vec<_>>()),
    );
    for p in parts(tier, &seeds) {
        let (n_ok, n_err, n_io) = (AtomicU64::new(0), AtomicU64::new(0), AtomicU64::new(0));
        enumerate::run_into(
            report,
            p.name,
            p.rule,
            p.total,
            |i| {
                let c = p.case(&seeds, i, false);
                let key = vkit::key128(c.text.as_str()) as u64;
                let nontrivial = (!seed_keys.contains(&key)).then_some(key);
                match parse(&c.text, false) {
                    Parsed::Ok(_) => {
                        n_ok.fetch_add(1, Ordering::Relaxed);
                        CaseOutcome::ok(nontrivial)
                    }
                    Parsed::Err(_) => {
                        n_err.fetch_add(1, Ordering::Relaxed);
                        CaseOutcome::ok(nontrivial)
                    }
                    Parsed::Panic(pi) => CaseOutcome {
                        nontrivial,
                        violations: vec![violation_of(&pi)],
                    },
                    Parsed::Io(_) => {
                        n_io.fetch_add(1, Ordering::Relaxed);
                        CaseOutcome::ok(None)
                    }
                }
            },
            |i| {
                let c = p.case(&seeds, i, true);
                json!({
                    "seed": c.seed.map(|s| seeds[s].name),
                    "mutation": c.what,
                    "text": c.text,
                })
            },
        );
        report.add_count("ndl_parser_returned_ok", n_ok.load(Ordering::Relaxed));
        report.add_count("ndl_parser_returned_err", n_err.load(Ordering::Relaxed));
        let io = n_io.load(Ordering::Relaxed);
        if io > 0 {
            report.machinery_error(format!("part {}: {io} scratch files could not be written", p.name));
        }
    }
    // leave no scratch files behind
    let dir = vkit::report::scratch_dir();
    let prefix = format!("c14ndl-{}-", std::process::id());
    if let Ok(rd) = std::fs::read_dir(&dir) {
        for e in rd.flatten() {
            if e.file_name().to_string_lossy().starts_with(&prefix) {
                let _ = std::fs::remove_file(e.path());
            }
        }
    }
}

fn render(text: &str) -> Vec<String> {
    let mut out = vec![format!(
        "input text ({} bytes, {} characters) = \"{}\"",
        text.len(),
        text.chars().count(),
        esc(text)
    )];
    match parse(text, true) {
        Parsed::Ok(s) => out.push(format!("core_parser returned Ok: {s}")),
        Parsed::Err(e) => out.push(format!("core_parser returned Err: \"{}\"", esc(&e))),
        Parsed::Panic(p) => {
            out.push(format!(
                "core_parser PANICKED at {}: {}",
                p.location, p.message
            ));
            out.push(format!("VIOLATION {}", violation_of(&p).signature()));
        }
        Parsed::Io(e) => out.push(format!("MACHINERY-ERROR {e}")),
    }
    remove_scratch();
    out
}

pub fn replay(w: &Value, tier: &str) -> String {
    // hand-made witness {"text": "..."}
    if w["part"].is_null() {
        if let Some(t) = w["text"].as_str() {
            return render(t).join("\n");
        }
    }
    let name = w["part"].as_str().unwrap_or("");
    let Some(i) = w["index"].as_u64() else {
        return "witness has no index".into();
    };
    let seeds = seeds();
    for t in [tier, "quick", "thorough"] {
        for p in parts(t, &seeds) {
            if p.name != name || i >= p.total {
                continue;
            }
            let c = p.case(&seeds, i, true);
            let mut out = vec![format!("part {name} index {i}")];
            if let Some(s) = c.seed {
                out.push(format!("seed file {}", seeds[s].name));
            }
            out.push(format!("mutation: {}", c.what));
            out.extend(render(&c.text));
            return out.join("\n");
        }
    }
    format!("no part named {name} with index {i}")
}
