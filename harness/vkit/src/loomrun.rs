//! Runs scenarios of the `vloom` binary (exhaustive thread interleavings under loom with a
//! preemption bound) as sub-processes and folds their reports into a [`Report`].
//!
//! Each scenario is its own process: loom keeps global state, a failing model may abort,
//! and a code path that blocks on a lock loom does not model would hang the explorer, so
//! every child has a wall-clock cap and a missing report is a machinery error, never a
//! verdict.

use crate::report::{verif_root, Report, Violation};
use serde_json::{json, Value};
use std::{
    io::Read,
    process::{Command, Stdio},
    time::{Duration, Instant},
};

pub struct LoomScenario {
    pub name: String,
    /// loom's preemption bound; 0 = unbounded
    pub preemptions: usize,
    pub wall: Duration,
}

fn run_child(name: &str, preemptions: usize, wall: Duration) -> Result<Value, String> {
    let bin = verif_root().join("target/release/vloom");
    let mut child = Command::new(&bin)
        .arg(name)
        .arg(preemptions.to_string())
        .stdout(Stdio::piped())
        .stderr(Stdio::null())
        .spawn()
        .map_err(|e| format!("cannot start {}: {e}", bin.display()))?;
    let t0 = Instant::now();
    loop {
        match child.try_wait() {
            Ok(Some(_)) => break,
            Ok(None) => {
                if t0.elapsed() > wall {
                    let _ = child.kill();
                    let _ = child.wait();
                    return Err(format!("vloom {name} exceeded its wall cap of {wall:?}"));
                }
                std::thread::sleep(Duration::from_millis(5));
            }
            Err(e) => return Err(format!("vloom {name}: {e}")),
        }
    }
    let mut out = String::new();
    child
        .stdout
        .take()
        .unwrap()
        .read_to_string(&mut out)
        .map_err(|e| e.to_string())?;
    out.lines()
        .rev()
        .find_map(|l| serde_json::from_str::<Value>(l).ok())
        .ok_or_else(|| format!("vloom {name} ended without a report"))
}

/// Signature parts are `clause|site|discriminator`, as everywhere else.
fn to_violation(sig: &str, detail: &str) -> Violation {
    let p: Vec<&str> = sig.splitn(3, '|').collect();
    Violation::new(
        p.first().copied().unwrap_or("loom"),
        p.get(1).copied().unwrap_or("?"),
        p.get(2).copied().unwrap_or("?"),
        detail.to_string(),
    )
}

pub fn run_into(scenarios: &[LoomScenario], report: &mut Report) {
    report.assume("loom part: the socket layer's std RwLocks are loom's (elvis-core feature verif_loom) and DashMap's shard locks are a spin lock over a loom atomic (vendored dashmap, feature verif_loom, 4 shards as on a one-CPU machine); tokio channels and Arc are not instrumented, so scheduling points are lock operations and thread spawn/join; sequentially consistent interleavings only");
    for s in scenarios {
        match run_child(&s.name, s.preemptions, s.wall) {
            Err(e) => report.machinery_error(e),
            Ok(v) => {
                let ex = v["executions"].as_u64().unwrap_or(0);
                let outcomes = v["outcomes"].as_object().map(|o| o.len()).unwrap_or(0);
                report.add_count("executions", ex);
                report.add_count("states", ex);
                report.add_count("loom_executions", ex);
                report.add_count("distinct_outcomes", outcomes as u64);
                report.part(json!({
                    "engine": "loom 0.7 (DPOR, preemption bound)",
                    "scenario": s.name,
                    "preemption_bound": s.preemptions,
                    "executions": ex,
                    "distinct_outcomes": outcomes,
                    "outcomes": v["outcomes"],
                    "completed": v["panic"].is_null(),
                }));
                if ex == 0 {
                    report.machinery_error(format!("vloom {} explored nothing", s.name));
                }
                let witness = json!({"loom_scenario": s.name, "preemption_bound": s.preemptions});
                if let Some(vs) = v["violations"].as_object() {
                    for (sig, d) in vs {
                        if sig.starts_with("harness|") {
                            report.machinery_error(format!("vloom {}: {sig}: {d}", s.name));
                        } else {
                            report.violation(
                                to_violation(sig, d.as_str().unwrap_or("")),
                                witness.clone(),
                            );
                        }
                    }
                }
                if let Some(p) = v["panic"].as_str() {
                    // loom itself reports deadlocks and exceeded branch budgets by panicking
                    if p.contains("deadlock") {
                        report.violation(
                            Violation::new("no-deadlock", "socket layer", &s.name, p.to_string()),
                            witness.clone(),
                        );
                    } else if p.contains("exceeded") || p.contains("Model exceeded") {
                        report.machinery_error(format!("vloom {}: {p}", s.name));
                    } else {
                        let d: String = p.chars().filter(|c| !c.is_ascii_digit()).take(80).collect();
                        report.violation(
                            Violation::new("no-panic", "socket layer under loom", &d, p.to_string()),
                            witness.clone(),
                        );
                    }
                }
            }
        }
    }
}

/// Replays a witness produced by [`run_into`]: the scenario is tiny, so the whole bounded
/// search is repeated and its report printed.
pub fn replay(w: &Value) -> Option<String> {
    let name = w["loom_scenario"].as_str()?;
    let b = w["preemption_bound"].as_u64().unwrap_or(2) as usize;
    Some(match run_child(name, b, Duration::from_secs(600)) {
        Ok(v) => format!("loom scenario {name} bound {b}: {v}"),
        Err(e) => format!("loom scenario {name}: {e}"),
    })
}
