#!/bin/bash
# Creates an isolated copy of the harness for a helper to develop one check module in.
# Usage: agent_ws.sh <name>   -> /tmp/ws_<name>/verif/harness (own target dir), /tmp/ws_<name>/repo -> /repo
set -e
N=$1
W=/tmp/ws_$N
rm -rf $W; mkdir -p $W/verif
mkdir -p $W/repo/sim
rsync -a --exclude target --exclude '*.data' --exclude '*.svg' --exclude '*.perf' --exclude perf.data.old /repo/sim/ $W/repo/sim/
cp -r /verif/harness $W/verif/harness
ln -s /verif/vendor $W/verif/vendor
cp /verif/known_findings.json $W/verif/
mkdir -p $W/verif/evidence
sed -i 's#target-dir = "../target"#target-dir = "../target"#' $W/verif/harness/.cargo/config.toml
echo $W/verif/harness
