//! Check binary for the properties that also need the `elvis` crate.
//! Usage: vapp <ID> --tier quick|thorough [--replay file]

#[path = "../../vcore/src/c14dec.rs"]
mod c14dec;
mod c14ndl;
mod c14stack;
mod c13;
mod c15dhcp;
mod c15gen;
mod c16;
mod c19;

use vkit::report::{load_replay, parse_args, Report};

type RunFn = fn(&mut Report, &str);
type ReplayFn = fn(&serde_json::Value, &str) -> String;

fn c14_run(r: &mut Report, tier: &str) {
    c14dec::run(r, tier);
    c14ndl::run(r, tier);
    c14stack::run(r, tier);
}
fn c14_replay(w: &serde_json::Value, tier: &str) -> String {
    if w["scenario"].is_string() {
        c14stack::replay(w, tier)
    } else if w["part"].as_str().map(|p| p.starts_with("ndl/")).unwrap_or(false) || (w["text"].is_string() && w["part"].is_null()) {
        c14ndl::replay(w, tier)
    } else {
        c14dec::replay(w, tier)
    }
}

fn c15_run(r: &mut Report, tier: &str) {
    c15gen::run(r, tier);
    c15dhcp::run(r, tier);
    // E4: the server's demux handling several Discovers at the same moment on several workers
    let thorough = tier == "thorough";
    let mut v = vec!["dhcp:2", "dhcp:3"];
    if thorough {
        v.push("dhcp:4");
    }
    let sc: Vec<vkit::loomrun::LoomScenario> = v
        .into_iter()
        .map(|n| vkit::loomrun::LoomScenario {
            name: n.to_string(),
            preemptions: if thorough { 0 } else { 3 },
            wall: std::time::Duration::from_secs(if thorough { 900 } else { 120 }),
        })
        .collect();
    vkit::loomrun::run_into(&sc, r);
}
fn c15_replay(w: &serde_json::Value, tier: &str) -> String {
    if let Some(s) = vkit::loomrun::replay(w) {
        return s;
    }
    if w["scenario"].is_string() {
        c15dhcp::replay(w, tier)
    } else {
        c15gen::replay(w, tier)
    }
}

const CHECKS: &[(&str, &str, RunFn, ReplayFn)] = &[
    ("C13", "model_checking", c13::run, c13::replay),
    ("C14", "exploration", c14_run, c14_replay),
    ("C15", "model_checking", c15_run, c15_replay),
    ("C16", "model_checking", c16::run, c16::replay),
    ("C19", "model_checking", c19::run, c19::replay),
];

fn main() {
    let args = parse_args();
    vkit::install_panic_hook();
    rayon::ThreadPoolBuilder::new()
        .num_threads(vkit::threads())
        .stack_size(16 << 20)
        .build_global()
        .ok();
    let Some(c) = CHECKS.iter().find(|c| c.0 == args.id) else {
        eprintln!("MACHINERY-ERROR unknown property {}", args.id);
        std::process::exit(2);
    };
    if let Some(path) = &args.replay {
        let v = load_replay(path);
        println!("{}", (c.3)(&v["witness"], &args.tier));
        return;
    }
    vkit::quiet_stdout();
    let mut r = Report::new(c.0, &args.tier, c.1);
    (c.2)(&mut r, &args.tier);
    std::process::exit(r.finish());
}
