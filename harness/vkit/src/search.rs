//! E1: explicit-state breadth-first search in which every transition calls real code.
//!
//! Level-synchronous BFS, parallel inside a level. A state is first reached at its minimal depth,
//! so parent pointers give shortest counterexamples. Caps (depth, states, wall, RSS) are reported,
//! never silently turned into "exhaustive".

use crate::report::Violation;
use dashmap::DashSet;
use rayon::prelude::*;
use serde_json::{json, Value};
use std::{
    fmt::Debug,
    sync::atomic::{AtomicBool, AtomicU64, Ordering},
    time::{Duration, Instant},
};

pub trait Model: Sync {
    type State: Clone + Send + Sync;
    type Action: Clone + Send + Sync + Debug;

    fn name(&self) -> String;
    fn init(&self) -> Vec<Self::State>;
    /// The enabled actions, in a deterministic order (witnesses store indices into this list).
    fn actions(&self, s: &Self::State) -> Vec<Self::Action>;
    /// One transition, executed on the real object(s). `Err` is a violation detected on this
    /// transition; its successor is not explored.
    fn step(&self, s: &Self::State, a: &Self::Action) -> Result<Self::State, Violation>;
    /// Canonical key; states with equal keys must have equal futures.
    fn key(&self, s: &Self::State) -> u128;
    /// Evaluated once on every distinct state (state invariants, fair-continuation checks).
    fn check(&self, _s: &Self::State) -> Vec<Violation> {
        vec![]
    }
    /// Short human-readable rendering for samples and witnesses.
    fn describe(&self, _s: &Self::State) -> String {
        String::new()
    }
}

#[derive(Debug, Clone)]
pub struct Limits {
    pub max_depth: Option<usize>,
    pub max_states: u64,
    pub max_wall: Duration,
    pub max_rss_mib: u64,
}

impl Default for Limits {
    fn default() -> Self {
        Self {
            max_depth: None,
            max_states: 50_000_000,
            max_wall: Duration::from_secs(3600),
            max_rss_mib: 24_000,
        }
    }
}

pub struct Found {
    pub violation: Violation,
    /// init index followed by action indices
    pub path: Vec<u32>,
    pub count: u64,
}

pub struct Stats {
    pub name: String,
    pub states: u64,
    pub transitions: u64,
    /// Deepest level whose states were all expanded
    pub completed_depth: usize,
    /// true when the search reached a fixpoint (no cap, no depth bound hit with states left)
    pub fixpoint: bool,
    pub capped: Option<String>,
    pub frontier_sizes: Vec<u64>,
    pub found: Vec<Found>,
    pub wall_s: f64,
    pub sample_paths: Vec<Vec<u32>>,
}

impl Stats {
    pub fn to_json(&self) -> Value {
        json!({
            "model": self.name,
            "states": self.states,
            "transitions": self.transitions,
            "completed_depth": self.completed_depth,
            "fixpoint": self.fixpoint,
            "capped": self.capped,
            "frontier_sizes": self.frontier_sizes,
            "distinct_violation_signatures": self.found.len(),
            "wall_s": (self.wall_s * 1000.0).round() / 1000.0,
        })
    }
}

/// Re-executes a path (init index, then action indices) on the current code.
/// Returns the rendered steps and the violation the path ends in, if any.
pub fn replay<M: Model>(m: &M, path: &[u32]) -> (Vec<String>, Option<Violation>) {
    let mut out = vec![];
    let inits = m.init();
    let Some(mut s) = inits.get(path[0] as usize).cloned() else {
        return (vec!["<bad init index>".into()], None);
    };
    out.push(format!("init[{}] {}", path[0], m.describe(&s)));
    for (i, &ai) in path[1..].iter().enumerate() {
        let acts = m.actions(&s);
        let Some(a) = acts.get(ai as usize) else {
            out.push(format!(
                "step {}: action index {} no longer enabled (DIVERGENCE)",
                i + 1,
                ai
            ));
            return (out, None);
        };
        match m.step(&s, a) {
            Ok(n) => {
                out.push(format!("step {}: {:?} -> {}", i + 1, a, m.describe(&n)));
                s = n;
            }
            Err(v) => {
                out.push(format!(
                    "step {}: {:?} -> VIOLATION {} :: {}",
                    i + 1,
                    a,
                    v.signature(),
                    v.detail
                ));
                return (out, Some(v));
            }
        }
    }
    let vs = m.check(&s);
    if let Some(v) = vs.into_iter().next() {
        out.push(format!(
            "state check -> VIOLATION {} :: {}",
            v.signature(),
            v.detail
        ));
        return (out, Some(v));
    }
    (out, None)
}

pub fn witness_json<M: Model>(m: &M, path: &[u32]) -> Value {
    let (steps, _) = replay(m, path);
    json!({"engine": "E1", "model": m.name(), "path": path, "steps": steps})
}

pub fn bfs<M: Model>(m: &M, limits: &Limits) -> Stats {
    let start = Instant::now();
    let seen: DashSet<u128> = DashSet::with_capacity(1 << 16);
    // parents[id] = (parent id, action index); roots have parent u32::MAX and the init index
    let mut parents: Vec<(u32, u32)> = vec![];
    let mut frontier: Vec<(u32, M::State)> = vec![];
    let mut found: Vec<(Violation, u32, Option<u32>)> = vec![]; // (violation, state id, action idx)
    let transitions = AtomicU64::new(0);

    for (i, s) in m.init().into_iter().enumerate() {
        if seen.insert(m.key(&s)) {
            let id = parents.len() as u32;
            parents.push((u32::MAX, i as u32));
            for v in m.check(&s) {
                found.push((v, id, None));
            }
            frontier.push((id, s));
        }
    }

    let mut depth = 0usize;
    let mut frontier_sizes = vec![frontier.len() as u64];
    let mut capped: Option<String> = None;
    let mut fixpoint = false;
    let stop = AtomicBool::new(false);

    loop {
        if frontier.is_empty() {
            fixpoint = true;
            break;
        }
        if let Some(d) = limits.max_depth {
            if depth >= d {
                capped = Some(format!(
                    "depth bound {d} reached with {} unexpanded states",
                    frontier.len()
                ));
                break;
            }
        }
        // expand this level
        type New<S> = (u128, u32, u32, S, Vec<Violation>);
        let results: Vec<(Vec<New<M::State>>, Vec<(Violation, u32, Option<u32>)>)> = frontier
            .par_chunks(64.max(frontier.len() / (crate::threads() * 8).max(1)))
            .map(|chunk| {
                let mut news = vec![];
                let mut viols = vec![];
                for (id, s) in chunk {
                    if stop.load(Ordering::Relaxed) {
                        break;
                    }
                    for (ai, a) in m.actions(s).iter().enumerate() {
                        transitions.fetch_add(1, Ordering::Relaxed);
                        match m.step(s, a) {
                            Ok(n) => {
                                let k = m.key(&n);
                                if seen.insert(k) {
                                    let cv = m.check(&n);
                                    news.push((k, *id, ai as u32, n, cv));
                                }
                            }
                            Err(v) => viols.push((v, *id, Some(ai as u32))),
                        }
                    }
                }
                if start.elapsed() > limits.max_wall || crate::rss_mib() > limits.max_rss_mib {
                    stop.store(true, Ordering::Relaxed);
                }
                (news, viols)
            })
            .collect();
        if stop.load(Ordering::Relaxed) {
            capped = Some(format!(
                "wall/RSS cap hit while expanding depth {depth} (wall {:.0}s, rss {} MiB)",
                start.elapsed().as_secs_f64(),
                crate::rss_mib()
            ));
            // states found so far are counted but the level is incomplete
            for (news, viols) in results {
                for (_, pid, ai, _s, cv) in news {
                    let id = parents.len() as u32;
                    parents.push((pid, ai));
                    for v in cv {
                        found.push((v, id, None));
                    }
                }
                found.extend(viols);
            }
            break;
        }
        let mut next = vec![];
        for (news, viols) in results {
            for (_, pid, ai, s, cv) in news {
                let id = parents.len() as u32;
                parents.push((pid, ai));
                let bad = !cv.is_empty();
                for v in cv {
                    found.push((v, id, None));
                }
                // a state that violates an invariant is not expanded: all its successors would
                // only repeat the report
                if !bad {
                    next.push((id, s));
                }
            }
            found.extend(viols);
        }
        depth += 1;
        frontier = next;
        frontier_sizes.push(frontier.len() as u64);
        if parents.len() as u64 > limits.max_states {
            capped = Some(format!(
                "state cap {} hit after completing depth {}",
                limits.max_states, depth
            ));
            break;
        }
    }

    // shortest witness per signature
    let path_of = |mut id: u32, last: Option<u32>| -> Vec<u32> {
        let mut rev = vec![];
        if let Some(a) = last {
            rev.push(a);
        }
        loop {
            let (p, a) = parents[id as usize];
            rev.push(a);
            if p == u32::MAX {
                break;
            }
            id = p;
        }
        rev.reverse();
        rev
    };
    let mut by_sig: std::collections::BTreeMap<String, Found> = Default::default();
    for (v, id, ai) in found {
        let path = path_of(id, ai);
        let sig = v.signature();
        match by_sig.get_mut(&sig) {
            Some(f) => {
                f.count += 1;
                if path.len() < f.path.len() || (path.len() == f.path.len() && path < f.path) {
                    f.path = path;
                    f.violation = v;
                }
            }
            None => {
                by_sig.insert(
                    sig,
                    Found {
                        violation: v,
                        path,
                        count: 1,
                    },
                );
            }
        }
    }
    // a few sample paths: the last states discovered (deepest) and one from the middle
    let mut sample_paths = vec![];
    let n = parents.len();
    for idx in [n.saturating_sub(1), n / 2, n / 7] {
        if idx < n {
            sample_paths.push(path_of(idx as u32, None));
        }
    }

    Stats {
        name: m.name(),
        states: parents.len() as u64,
        transitions: transitions.load(Ordering::Relaxed),
        completed_depth: depth,
        fixpoint,
        capped,
        frontier_sizes,
        found: by_sig.into_values().collect(),
        wall_s: start.elapsed().as_secs_f64(),
        sample_paths,
    }
}

/// Runs a model, folds its statistics, samples and violations into the report.
extern "C" {
    fn malloc_trim(pad: usize) -> i32;
}

/// Hands freed heap pages back to the OS. The resident-set cap is process-wide; without this
/// the memory a finished model has freed (but glibc keeps) counts against the next model.
pub fn trim_heap() {
    unsafe {
        malloc_trim(0);
    }
}

pub fn run_into<M: Model>(m: &M, limits: &Limits, report: &mut crate::Report) -> Stats {
    trim_heap();
    let st = bfs(m, limits);
    trim_heap();
    report.add_count("states", st.states);
    report.add_count("transitions", st.transitions);
    // every transition was executed on the real implementation
    report.add_count("traces_validated_against_impl", st.transitions);
    report.part(st.to_json());
    for p in st.sample_paths.iter().take(2) {
        let (steps, _) = replay(m, p);
        report.sample(json!({"model": st.name, "path": p, "steps": steps}));
    }
    for f in &st.found {
        let mut w = witness_json(m, &f.path);
        w["occurrences_in_search"] = json!(f.count);
        report.violation(f.violation.clone(), w);
    }
    if st.states == 0 {
        report.machinery_error(format!("model {} has no initial state", st.name));
    }
    st
}
