//! Exhaustive thread interleavings (loom, bounded preemptions) of the socket layer's
//! lock-protected hand-offs, i.e. what two polls running at the same time on two workers
//! of a multi-thread runtime can do to each other. The schedule search of `vkit::sched`
//! works at poll granularity and cannot see these.
//!
//! usage: vloom <scenario> <max-preemptions>   -> one JSON line on stdout
//!
//! A scenario never panics on a property violation: it records the observation, so loom
//! walks every schedule and the report carries all distinct outcomes.

use elvis_core::{
    protocol::NotifyType,
    protocols::{
        ipv4::{Ipv4, Ipv4Address},
        socket_api::socket::{ProtocolFamily, Socket, SocketType},
        Endpoint, Endpoints, SocketAPI, Tcp, Udp,
    },
    session::SendError,
    Control, IpTable, Machine, Message, Protocol, Session, Shutdown,
};
use std::{
    collections::BTreeMap,
    future::Future,
    pin::pin,
    sync::{
        atomic::{AtomicU64, Ordering},
        Arc, Mutex,
    },
    task::{Context, Poll, RawWaker, RawWakerVTable, Waker},
};

static EXECUTIONS: AtomicU64 = AtomicU64::new(0);
static OUTCOMES: Mutex<BTreeMap<String, u64>> = Mutex::new(BTreeMap::new());
static VIOLATIONS: Mutex<BTreeMap<String, String>> = Mutex::new(BTreeMap::new());

fn outcome(s: String) {
    *OUTCOMES.lock().unwrap().entry(s).or_insert(0) += 1;
}
fn violation(sig: &str, detail: String) {
    VIOLATIONS.lock().unwrap().entry(sig.to_string()).or_insert(detail);
}

fn noop_waker() -> Waker {
    fn clone(_: *const ()) -> RawWaker {
        RawWaker::new(std::ptr::null(), &VT)
    }
    fn noop(_: *const ()) {}
    static VT: RawWakerVTable = RawWakerVTable::new(clone, noop, noop, noop);
    unsafe { Waker::from_raw(RawWaker::new(std::ptr::null(), &VT)) }
}

/// Polls a future on the calling loom thread. A pending poll yields to the other threads
/// (a wait made visible); a future that stays pending is reported, never spun on.
fn block_on<F: Future>(what: &str, f: F) -> Option<F::Output> {
    let mut f = pin!(f);
    let w = noop_waker();
    let mut cx = Context::from_waker(&w);
    for _ in 0..64 {
        if let Poll::Ready(v) = f.as_mut().poll(&mut cx) {
            return Some(v);
        }
        loom::thread::yield_now();
    }
    violation(
        &format!("harness|block_on|{what}-stays-pending"),
        "a future of the scenario never completed".into(),
    );
    None
}

struct Sink;
impl Session for Sink {
    fn send(&self, _m: Message, _machine: Arc<Machine>) -> Result<(), SendError> {
        Ok(())
    }
}

const LOCAL: Ipv4Address = Ipv4Address::new([10, 0, 0, 1]);
const REMOTE: Ipv4Address = Ipv4Address::new([10, 0, 0, 2]);

fn machine() -> (Arc<Machine>, Arc<SocketAPI>) {
    let m = Machine::new()
        .with(SocketAPI::new(Some(LOCAL)))
        .with(Tcp::new())
        .with(Udp::new())
        .with(Ipv4::new(IpTable::new()))
        .arc();
    let api = m.protocol::<SocketAPI>().unwrap();
    api.verif_init(Shutdown::new());
    (m, api)
}

fn control(local_port: u16, remote_port: u16) -> Control {
    let mut c = Control::new();
    c.insert(Endpoints::new(
        Endpoint::new(LOCAL, local_port),
        Endpoint::new(REMOTE, remote_port),
    ));
    c
}

fn listener(m: &Arc<Machine>, api: &Arc<SocketAPI>, port: u16) -> Socket {
    let mut s = block_on(
        "new_socket",
        api.new_socket(ProtocolFamily::INET, SocketType::Stream, m.clone()),
    )
    .unwrap()
    .unwrap();
    s.bind(Endpoint::new(Ipv4Address::CURRENT_NETWORK, port)).unwrap();
    s.listen(8).unwrap();
    s
}

/// Reads whatever is queued on an accepted socket, one byte at a time so that nothing of
/// the order is hidden by the assembly in `recv`.
fn drain(sock: &mut Socket, want: usize) -> Vec<u8> {
    sock.set_blocking(false);
    let mut got = vec![];
    for _ in 0..want + 2 {
        let r = block_on("recv", sock.recv(1));
        if std::env::var("VLOOM_DEBUG").is_ok() {
            eprintln!("recv -> {r:?}");
        }
        match r {
            Some(Ok(b)) if !b.is_empty() => got.extend(b),
            _ => break,
        }
    }
    got
}

/// The TCP flow around `accept()`: the connection is announced (notify), then `before`
/// messages arrive, then the application's accept runs on one worker while the
/// connection's task delivers `during` more messages on another.
fn accept_vs_deliver(before: u8, during: u8, announce: bool) {
    let (m, api) = machine();
    let mut lst = listener(&m, &api, 80);
    let sink: Arc<dyn Session> = Arc::new(Sink);
    if announce {
        api.notify(NotifyType::NewConnection, sink.clone(), control(80, 5000));
    }
    let mut next = 1u8;
    for _ in 0..before {
        let _ = api.demux(Message::new(vec![next]), sink.clone(), control(80, 5000), m.clone());
        next += 1;
    }
    let expect: Vec<u8> = (1..=before + during).collect();
    let deliver = {
        let (api, m, sink) = (api.clone(), m.clone(), sink.clone());
        loom::thread::spawn(move || {
            let mut results = vec![];
            for i in 0..during {
                let r = api.demux(
                    Message::new(vec![next + i]),
                    sink.clone(),
                    control(80, 5000),
                    m.clone(),
                );
                results.push(r.is_ok());
            }
            results
        })
    };
    let accepted = block_on("accept", lst.accept());
    let delivered = deliver.join().unwrap();
    let Some(accepted) = accepted else { return };
    let mut sock = match accepted {
        Ok(s) => s,
        Err(e) => {
            outcome(format!("accept-error:{e:?}"));
            violation(
                "stream-order-across-accept|Socket::accept|accept-failed",
                format!("accept returned {e:?} although a connection was announced"),
            );
            return;
        }
    };
    let got = drain(&mut sock, expect.len());
    outcome(format!("{got:?}/{delivered:?}"));
    // every message the socket layer accepted (Ok from demux) must come out, in order
    let accepted_bytes: Vec<u8> = expect
        .iter()
        .copied()
        .filter(|b| *b <= before || delivered[(*b - before - 1) as usize])
        .collect();
    if got != accepted_bytes {
        let kind = {
            let mut s = got.clone();
            s.sort();
            if s == accepted_bytes {
                "reordered"
            } else if got.len() < accepted_bytes.len() {
                "bytes-lost"
            } else {
                "bytes-differ"
            }
        };
        violation(
            &format!("stream-order-across-accept|SocketSession::receive_stored_messages|{kind}"),
            format!(
                "before={before} during={during} announce={announce}: delivered to the socket layer {accepted_bytes:?}, read {got:?}"
            ),
        );
    }
}

/// `n` workers pick an ephemeral port for a socket of the same machine at the same time.
fn ephemeral(n: usize) {
    let (_m, api) = machine();
    let hs: Vec<_> = (0..n)
        .map(|_| {
            let api = api.clone();
            loom::thread::spawn(move || api.verif_ephemeral_port())
        })
        .collect();
    let mut ports: Vec<u16> = hs.into_iter().map(|h| h.join().unwrap()).collect();
    ports.sort();
    outcome(format!("{ports:?}"));
    let mut d = ports.clone();
    d.dedup();
    if d.len() != ports.len() {
        violation(
            "worker-count-independence|SocketAPI::get_ephemeral_port|same-port-for-two-sockets",
            format!("{n} concurrent sockets of one machine were given the ports {ports:?}"),
        );
    }
}

fn main() {
    let a: Vec<String> = std::env::args().collect();
    let (scenario, bound) = (a[1].clone(), a[2].parse::<usize>().unwrap());
    let mut b = loom::model::Builder::new();
    b.preemption_bound = if bound == 0 { None } else { Some(bound) };
    b.max_branches = 100_000;
    let sc = scenario.clone();
    let r = std::panic::catch_unwind(move || {
        b.check(move || {
            EXECUTIONS.fetch_add(1, Ordering::Relaxed);
            let p: Vec<&str> = sc.split(':').collect();
            match p[0] {
                "accept" => accept_vs_deliver(
                    p[1].parse().unwrap(),
                    p[2].parse().unwrap(),
                    p[3] == "announce",
                ),
                "ephemeral" => ephemeral(p[1].parse().unwrap()),
                _ => panic!("unknown scenario"),
            }
        })
    });
    let panic = r.err().map(|e| {
        e.downcast_ref::<String>()
            .cloned()
            .or_else(|| e.downcast_ref::<&str>().map(|s| s.to_string()))
            .unwrap_or_else(|| "panic".into())
    });
    let out = serde_json::json!({
        "scenario": scenario,
        "preemption_bound": bound,
        "executions": EXECUTIONS.load(Ordering::Relaxed),
        "outcomes": *OUTCOMES.lock().unwrap(),
        "violations": *VIOLATIONS.lock().unwrap(),
        "panic": panic,
    });
    println!("{out}");
}
