#!/usr/bin/env python3
"""Writes /verif/seeded/<name>/meta.json from the helper's meta.agent.json plus what was observed here.
usage: write_meta.py <name> <property> <signature> <missed 0|1> [what was strengthened] [extra confirmation note]"""
import json, os, sys
name, prop, sig, missed = sys.argv[1], sys.argv[2], sys.argv[3], sys.argv[4] == "1"
what = sys.argv[5] if len(sys.argv) > 5 and sys.argv[5] else None
note = sys.argv[6] if len(sys.argv) > 6 else ""
d = "/verif/seeded/" + name
a = {}
try:
    a = json.load(open(d + "/meta.agent.json"))
except Exception:
    pass
conf = ("tools/confirm_seed.sh: worktree reset to its HEAD; demo/run.sh exits 0 without the patch and non-zero "
        "with it; /verif/baseline.sh on the patched tree: 156 passed")
if note:
    conf += " (" + note + ")"
meta = {
    "property": prop,
    "round": {"b": 2, "c": 3, "d": 4, "e": 5}.get(name[-1], 1),
    "breaks": a.get("summary", ""),
    "needs_to_manifest": a.get("needs", ""),
    "files": a.get("files", []),
    "origin": "written by a fresh helper that saw only the property text (with one clause marked as the focus) and its own scratch worktree of /repo (nothing from /verif)",
    "confirmed": conf,
    "detected_by": "./check %s --tier quick" % prop,
    "detected_signature": sig,
    "missed_by_the_first_version_of_the_check": missed,
    "what_was_strengthened": what,
    "how_to_rerun": "git -C /repo apply /verif/seeded/%s/patch.diff && (cd /verif && ./check %s --tier quick); git -C /repo checkout -- ." % (name, prop),
}
json.dump(meta, open(d + "/meta.json", "w"), indent=1)
if os.path.exists(d + "/meta.agent.json"):
    os.remove(d + "/meta.agent.json")
print("wrote", d + "/meta.json")
